"""C01 - Radio link delivers every packet exactly once, in order, despite loss.

Tie A: the safelink header/bit expressions, the negotiation constants, the retry constant, the queue capacity, the
ack-status bit expressions of Crazyradio.send_packet and the CRTPPacket constructor expressions are re-extracted
from cflib/crtp/radiodriver.py, cflib/drivers/crazyradio.py and cflib/crtp/crtpstack.py into Gen/C01.lean.
Tie B: the REAL radio stack vs the Lean model (Driver/C01.lean), transmission by transmission:
  L1  real _RadioDriverThread on a scripted fake `radio` object (arbitrary answers: none / exception / any ack),
  L2  real RadioDriver.connect -> RadioManager -> _SharedRadio thread -> Crazyradio on a fake USB device behind which
      the Python twin of the safelink peer (Spec/C01.lean) and a scripted lossy channel live,
  dec real Crazyradio.send_packet ack decoding on arbitrary USB replies.
The fake's send/write call is the synchronisation point: the driver thread is blocked in it while the harness performs
the scripted RadioDriver.send_packet submissions, so every run is deterministic.
"""
import ast

from harness.lib import extract as X
from harness.lib.common import ExtractError, exc_enum, hexs  # noqa: F401

PID = 'C01'
LEAN_TARGETS = ['CfVerif.Props.C01']
PROPS_MODULES = ['CfVerif.Props.C01']
EXTRA_MODULES = ['CfVerif.Spec.C01', 'CfVerif.Proofs.C01', 'CfVerif.Proofs.C01Bits', 'CfVerif.Proofs.C01Sys', 'CfVerif.Proofs.C01Thm']
DRIVER = 'Driver/C01.lean'
REQUIRED_THEOREMS = ['CfVerif.C01.' + t for t in (
    'uplink_exactly_once_in_order', 'downlink_exactly_once_in_order', 'link_error_iff', 'safelink_only_if_confirmed',
    'safelink_confirmed_by_peer', 'needs_resending_eq', 'acked_iff_ok', 'ack_status_decoding', 'model_side_conditions',
    'gen_safelink_handshake', 'acks_routed_to_sender', 'gen_shared_radio')]
TRUSTED = ['harness/corr/c01.py extractor + correspondence harness (fake radio / fake USB device, Python twin of the peer)',
           'queue.Queue(1) is a one-slot FIFO hand-off; a blocked put completes when the slot is freed',
           '_SharedRadio/_SharedRadioInstance/RadioManager forward send_packet unchanged (exercised by L2, not modelled)']
ASSUMPTIONS = ['PEER MODEL IS AN ASSUMPTION: the nRF51 ESB safelink handler of the Crazyflie (firmware not in this repo) is '
               'modelled in Spec/C01.lean from protocol knowledge: own up/down bits, uplink accepted iff its bit differs, '
               'downlink advanced iff the host down bit differs else last ack payload re-sent, counters reset by ff 05 01, '
               'idle ack = f3|down<<2 01 rssi',
               'channel: per transmission ok | uplink lost | ack lost; USB failures (ack None / exceptions) are link failures',
               'applications do not submit link-layer safelink control frames (3 bytes, port 15 channel 3, first data byte 5)',
               'submission timing is modelled at iteration granularity; the 2 s put timeout is an explicit model event; the '
               '10 ms idle relaxation and rate_limit sleeps are wall-clock only and outside the model']
RULE = ('cases = scripts of per-transmission (application ops, peer-queued packets, outcome): ALL outcome strings in '
        '{ok,upLost,ackLost}^k x submission masks for small k (L2), random longer scripts with blocking submissions, '
        'arbitrary/malformed answers incl. None and exceptions (L1), all 256 status bytes (dec); non-trivial = distinct script')


# ------------------------------------------------------------------------------------------------------
# Tie A
def _assigns(node):
    return {ast.unparse(n.targets[0]): n.value for n in ast.walk(node) if isinstance(n, ast.Assign) and len(n.targets) == 1}


def _ifs(node):
    return sorted((n for n in ast.walk(node) if isinstance(n, ast.If)), key=lambda n: (n.lineno, n.col_offset))


def _if_with(node, needle, what):
    hits = [n for n in _ifs(node) if needle in ast.unparse(n.test)]
    X.expect(len(hits) == 1, '%s: expected exactly one `if` mentioning %r, found %d' % (what, needle, len(hits)))
    return hits[0]


def _tr(e, env):
    """expr_to_lean with Subscript/Attribute source texts in `env` first replaced by plain names"""
    class R(ast.NodeTransformer):
        def generic_visit(self, n):
            if isinstance(n, (ast.Subscript, ast.Attribute)) and ast.unparse(n) in env:
                return ast.Name(id='__' + env[ast.unparse(n)], ctx=ast.Load())
            return super().generic_visit(n)
    import copy
    e2 = R().visit(copy.deepcopy(e))
    return X.expr_to_lean(e2, {'__' + v: v for v in env.values()})


def _int_tuple(e, what):
    try:
        v = ast.literal_eval(e)
    except Exception:
        raise ExtractError('%s: not a literal: %s' % (what, ast.unparse(e)))
    X.expect(isinstance(v, (tuple, list)) and all(isinstance(x, int) and 0 <= x < 256 for x in v), '%s: not a byte tuple' % what)
    return list(v)


def extract(ctx):
    g = X.GenFile(PID, ['cflib/crtp/radiodriver.py', 'cflib/drivers/crazyradio.py', 'cflib/crtp/crtpstack.py'])
    tree = X.parse('cflib/crtp/radiodriver.py')
    mod_consts = {}
    for n in tree.body:
        if isinstance(n, ast.Assign) and len(n.targets) == 1 and isinstance(n.targets[0], ast.Name):
            try:
                v = ast.literal_eval(n.value)
            except Exception:
                continue
            if isinstance(v, int) and not isinstance(v, bool):
                mod_consts[n.targets[0].id] = v
    X.expect('_nr_of_retries' in mod_consts, 'module constant _nr_of_retries not found')
    g.nat('nrOfRetries', mod_consts['_nr_of_retries'])
    setter = X.find(tree, 'set_retries_before_disconnect')
    g.string('setRetriesBody', '; '.join(ast.unparse(s) for s in setter.body))

    th = X.find(tree, '_RadioDriverThread')
    init = _assigns(X.find(th, '__init__'))
    for k in ('self._curr_up', 'self._curr_down', 'self._has_safelink', 'self._retry_before_disconnect', 'self._sp'):
        X.expect(k in init, '_RadioDriverThread.__init__: %s not assigned' % k)
    g.nat('initUp', ast.literal_eval(init['self._curr_up']))
    g.nat('initDown', ast.literal_eval(init['self._curr_down']))
    g.string('initSafelink', ast.unparse(init['self._has_safelink']))
    g.string('initRetry', ast.unparse(init['self._retry_before_disconnect']))

    # _send_packet_safe
    sps = X.find(th, '_send_packet_safe')
    X.expect([a.arg for a in sps.args.args] == ['self', 'cr', 'packet'], '_send_packet_safe: signature changed')
    augs = sorted((n for n in ast.walk(sps) if isinstance(n, ast.AugAssign)), key=lambda n: n.lineno)
    X.expect(len(augs) == 2 and all(ast.unparse(a.target) == 'packet[0]' for a in augs)
             and isinstance(augs[0].op, ast.BitAnd) and isinstance(augs[1].op, ast.BitOr),
             '_send_packet_safe: expected `packet[0] &= <mask>` then `packet[0] |= <bits>`')
    g.nat('safeMask', ast.literal_eval(augs[0].value))
    env = {'self._curr_up': 'up', 'self._curr_down': 'down'}
    g.raw('def safeBits (up down : Nat) : Nat := ' + X.expr_to_lean(augs[1].value, env))
    sends = [n for n in ast.walk(sps) if isinstance(n, ast.Call) and ast.unparse(n.func) == 'cr.send_packet']
    X.expect(len(sends) == 1 and sends[0].lineno > augs[1].lineno, '_send_packet_safe: header rewrite must precede the single cr.send_packet(packet)')
    g.strings('safeSendArgs', [ast.unparse(a) for a in sends[0].args])
    ifs = _ifs(sps)
    X.expect(len(ifs) == 2, '_send_packet_safe: expected two `if` statements (down flip, up flip)')
    g.string('flipDownCond', ast.unparse(ifs[0].test))
    g.string('flipDownBody', '; '.join(ast.unparse(s) for s in ifs[0].body))
    g.string('flipUpCond', ast.unparse(ifs[1].test))
    g.string('flipUpBody', '; '.join(ast.unparse(s) for s in ifs[1].body))
    cmp_ = [n for n in ast.walk(ifs[0].test) if isinstance(n, ast.Compare)]
    X.expect(len(cmp_) == 1 and isinstance(cmp_[0].ops[0], ast.Eq) and len(cmp_[0].comparators) == 1,
             '_send_packet_safe: expected one `==` comparison in the down-flip condition')
    g.raw('def downTag (d0 : Nat) : Nat := ' + _tr(cmp_[0].left, {'resp.data[0]': 'd0'}))
    g.raw('def downExpect (down : Nat) : Nat := ' + X.expr_to_lean(cmp_[0].comparators[0], env))
    rets = [n for n in ast.walk(sps) if isinstance(n, ast.Return)]
    X.expect(len(rets) == 1 and ast.unparse(rets[0].value) == 'resp', '_send_packet_safe: must return resp')

    # run(): negotiation
    run = X.find(th, 'run')
    ras = _assigns(run)
    X.expect('dataOut' in ras, 'run: dataOut initialisation not found')
    first_dataout = sorted((n for n in ast.walk(run) if isinstance(n, ast.Assign) and ast.unparse(n.targets[0]) == 'dataOut'),
                           key=lambda n: n.lineno)[0].value
    X.expect(isinstance(first_dataout, ast.Call) and len(first_dataout.args) == 2, 'run: dataOut = array.array(\'B\', [..]) expected')
    g.nats('initFrame', _int_tuple(first_dataout.args[1], 'initial dataOut'))
    fors = [n for n in ast.walk(run) if isinstance(n, ast.For)]
    neg = [f for f in fors if isinstance(f.iter, ast.Call) and ast.unparse(f.iter.func) == 'range']
    X.expect(len(neg) == 1 and len(neg[0].iter.args) == 1, 'run: expected one `for _ in range(<n>)` negotiation loop')
    g.nat('safelinkAttempts', ast.literal_eval(neg[0].iter.args[0]))
    nsend = [n for n in ast.walk(neg[0]) if isinstance(n, ast.Call) and ast.unparse(n.func) == 'self._radio.send_packet']
    X.expect(len(nsend) == 1 and len(nsend[0].args) == 1, 'run: negotiation must send exactly one packet per attempt')
    g.nats('safelinkReq', _int_tuple(nsend[0].args[0], 'safelink request'))
    nif = _ifs(neg[0])
    X.expect(len(nif) == 1, 'run: negotiation loop must contain one `if`')
    g.string('safelinkCond', ast.unparse(nif[0].test))
    ncmp = [n for n in ast.walk(nif[0].test) if isinstance(n, ast.Compare)]
    X.expect(len(ncmp) == 1 and isinstance(ncmp[0].ops[0], ast.Eq) and ast.unparse(ncmp[0].left) == 'tuple(resp.data)',
             'run: negotiation must compare tuple(resp.data) == <echo>')
    g.nats('safelinkEcho', _int_tuple(ncmp[0].comparators[0], 'safelink echo'))
    nb = _assigns(nif[0])
    X.expect(set(nb) == {'self._has_safelink', 'self._curr_up', 'self._curr_down'} and isinstance(nif[0].body[-1], ast.Break),
             'run: negotiation success branch changed: ' + '; '.join(ast.unparse(s) for s in nif[0].body))
    g.string('confirmSafelink', ast.unparse(nb['self._has_safelink']))
    g.nat('confirmUp', ast.literal_eval(nb['self._curr_up']))
    g.nat('confirmDown', ast.literal_eval(nb['self._curr_down']))
    X.expect('self._link.needs_resending' in ras, 'run: needs_resending assignment not found')
    g.string('needsResendingExpr', ast.unparse(ras['self._link.needs_resending']))

    # run(): data loop
    loops = [n for n in ast.walk(run) if isinstance(n, ast.While)]
    X.expect(len(loops) == 1, 'run: expected one while loop')
    loop = loops[0]
    order = []   # source order of the landmarks the model mirrors
    sl = _if_with(loop, 'self._has_safelink', 'run')
    g.string('sendSafe', '; '.join(ast.unparse(s) for s in sl.body))
    g.string('sendRaw', '; '.join(ast.unparse(s) for s in sl.orelse))
    order.append(('send', sl.lineno))
    n_none = _if_with(loop, 'ackStatus is None', 'run')
    g.string('noneBody', '; '.join(ast.unparse(s) for s in n_none.body if not (isinstance(s, ast.Expr) and 'logger' in ast.unparse(s))))
    order.append(('none', n_none.lineno))
    n_nack = _if_with(loop, 'ackStatus.ack', 'run')
    g.string('nackCond', ast.unparse(n_nack.test))
    X.expect(isinstance(n_nack.body[-1], ast.Continue), 'run: the not-acked branch must end in `continue`')
    nas = _assigns(n_nack)
    X.expect('self._retry_before_disconnect' in nas, 'run: retry decrement not found')
    g.string('retryDecr', ast.unparse(nas['self._retry_before_disconnect']))
    n_err = _if_with(n_nack, 'self._retry_before_disconnect', 'run')
    g.string('retryErrCond', ast.unparse(n_err.test))
    cb = [n for n in ast.walk(n_err) if isinstance(n, ast.Call) and ast.unparse(n.func) == 'self._link_error_callback']
    X.expect(len(cb) == 1, 'run: expected one link_error_callback call in the retry branch')
    g.string('retryErrMsg', ast.literal_eval(cb[0].args[0]))
    order.append(('nack', n_nack.lineno))
    resets = [n for n in loop.body if isinstance(n, ast.Assign) and ast.unparse(n.targets[0]) == 'self._retry_before_disconnect']
    X.expect(len(resets) == 1, 'run: expected one retry-counter reset directly in the loop body')
    g.string('retryReset', ast.unparse(resets[0].value))
    order.append(('reset', resets[0].lineno))
    n_data = _if_with(loop, 'len(data)', 'run')
    g.string('dataCond', ast.unparse(n_data.test))
    ctor = [n for n in ast.walk(n_data) if isinstance(n, ast.Call) and ast.unparse(n.func) == 'CRTPPacket']
    X.expect(len(ctor) == 1, 'run: expected one CRTPPacket(...) in the data branch')
    g.strings('inPacketArgs', [ast.unparse(a) for a in ctor[0].args])
    puts = [ast.unparse(n) for n in ast.walk(n_data) if isinstance(n, ast.Call) and ast.unparse(n.func) == 'self._in_queue.put']
    g.strings('inQueuePut', puts)
    order.append(('data', n_data.lineno))
    X.expect(ast.unparse(_assigns(loop).get('data', ast.Constant(None))) == 'ackStatus.data', 'run: data = ackStatus.data expected')
    gets = [n for n in ast.walk(loop) if isinstance(n, ast.Call) and ast.unparse(n.func) == 'self._out_queue.get']
    X.expect(len(gets) == 1, 'run: expected one out_queue.get')
    g.strings('outQueueGetArgs', [ast.unparse(a) for a in gets[0].args])
    order.append(('get', gets[0].lineno))
    n_out = _if_with(loop, 'outPacket', 'run')
    g.string('outPacketCond', ast.unparse(n_out.test))
    apps = [ast.unparse(n.args[0]) for n in ast.walk(n_out.body[0]) if isinstance(n, ast.Call) and ast.unparse(n.func) == 'dataOut.append']
    g.strings('frameHeaderAppend', apps)
    nulls = [n for n in ast.walk(n_out) if n in n_out.orelse or any(n is m for o in n_out.orelse for m in ast.walk(o))]
    nullapp = [ast.literal_eval(n.args[0]) for n in nulls if isinstance(n, ast.Call) and ast.unparse(n.func) == 'dataOut.append']
    X.expect(len(nullapp) == 1, 'run: expected one dataOut.append(<null header>) in the no-packet branch')
    g.nat('nullByte', nullapp[0])
    order.append(('build', n_out.lineno))
    g.strings('loopOrder', [k for k, _ in sorted(order, key=lambda kv: kv[1])])

    # RadioDriver: queue capacity, initial needs_resending, send_packet
    rd = X.find(tree, 'RadioDriver')
    cas = _assigns(X.find(rd, 'connect'))
    X.expect('self.out_queue' in cas and 'self.in_queue' in cas, 'RadioDriver.connect: queues not found')
    oq = cas['self.out_queue']
    X.expect(isinstance(oq, ast.Call) and len(oq.args) == 1, 'RadioDriver.connect: out_queue = queue.Queue(<n>) expected')
    g.nat('outQueueSize', ast.literal_eval(oq.args[0]))
    g.string('inQueueCtor', ast.unparse(cas['self.in_queue']))
    g.string('initNeedsResending', ast.unparse(_assigns(X.find(rd, '__init__'))['self.needs_resending']))
    sp = X.find(rd, 'send_packet')
    putc = [n for n in ast.walk(sp) if isinstance(n, ast.Call) and ast.unparse(n.func) == 'self.out_queue.put']
    X.expect(len(putc) == 1, 'RadioDriver.send_packet: expected one out_queue.put')
    g.strings('sendPutArgs', [ast.unparse(a) for a in putc[0].args])
    g.strings('sendReturns', [ast.unparse(n.value) for n in sorted((m for m in ast.walk(sp) if isinstance(m, ast.Return)), key=lambda m: m.lineno)])

    # _SharedRadio: instance ids and the id -> response-queue table
    sr = X.find(tree, '_SharedRadio')
    oi = X.find(sr, 'open_instance')
    withs = [n for n in ast.walk(oi) if isinstance(n, ast.With)]
    X.expect(len(withs) == 1, '_SharedRadio.open_instance: expected one `with self._lock:` block')
    g.strings('openInstanceStmts', [ast.unparse(st) for st in withs[0].body if not isinstance(st, ast.If)])
    g.string('nextInstanceInit', ast.unparse(_assigns(X.find(sr, '__init__')).get('self._next_instance_id', ast.Constant(None))))
    ctor = [n for n in ast.walk(oi) if isinstance(n, ast.Call) and ast.unparse(n.func) == '_SharedRadioInstance']
    X.expect(len(ctor) == 1, '_SharedRadio.open_instance: expected one _SharedRadioInstance(...)')
    g.strings('instanceCtorArgs', [ast.unparse(a) for a in ctor[0].args[:3]])
    srun = X.find(sr, 'run')
    g.strings('sharedDel', [ast.unparse(n) for n in ast.walk(srun) if isinstance(n, ast.Delete)])
    sput = [ast.unparse(n) for n in ast.walk(srun) if isinstance(n, ast.Call) and ast.unparse(n.func).endswith('.put') and 'ack' in ast.unparse(n)]
    g.strings('sharedAckPut', sput)
    isend = X.find(X.find(tree, '_SharedRadioInstance'), 'send_packet')
    g.strings('instanceSendGet', [ast.unparse(n.value) for n in ast.walk(isend) if isinstance(n, ast.Assign) and ast.unparse(n.targets[0]) == 'ack'])

    # Crazyradio.send_packet: ack decoding
    cr = X.parse('cflib/drivers/crazyradio.py')
    spk = X.find(cr, 'Crazyradio.send_packet')
    n_st = _if_with(spk, 'data[0]', 'Crazyradio.send_packet')
    g.string('statusCond', ast.unparse(n_st.test))
    sas = {ast.unparse(s.targets[0]): s.value for s in n_st.body if isinstance(s, ast.Assign)}
    X.expect(set(sas) == {'ackIn.ack', 'ackIn.powerDet', 'ackIn.retry', 'ackIn.data'}, 'Crazyradio.send_packet: ack fields changed: %s' % sorted(sas))
    envd = {'data[0]': 's'}

    def ne0(e, what):
        X.expect(isinstance(e, ast.Compare) and isinstance(e.ops[0], ast.NotEq) and ast.literal_eval(e.comparators[0]) == 0,
                 'Crazyradio.send_packet: %s is not `<expr> != 0`: %s' % (what, ast.unparse(e)))
        return e.left
    g.raw('def ackBit (s : Nat) : Nat := ' + _tr(ne0(sas['ackIn.ack'], 'ack'), envd))
    g.raw('def powerDetBit (s : Nat) : Nat := ' + _tr(ne0(sas['ackIn.powerDet'], 'powerDet'), envd))
    g.raw('def retryField (s : Nat) : Nat := ' + _tr(sas['ackIn.retry'], envd))
    g.string('ackPayload', ast.unparse(sas['ackIn.data']))
    g.string('noStatusBody', '; '.join(ast.unparse(s) for s in n_st.orelse))
    ra = X.find(cr, '_radio_ack')
    g.string('ackDefaults', '; '.join(ast.unparse(s) for s in ra.body))

    # CRTPPacket constructor header logic (received packets)
    c = X.find(X.parse('cflib/crtp/crtpstack.py'), 'CRTPPacket.__init__')
    cas = _assigns(c)
    envh = {'header': 'h'}
    g.raw('def crtpHeaderExpr (h : Nat) : Nat := ' + X.expr_to_lean(cas['self.header'], envh))
    g.raw('def crtpPortExpr (h : Nat) : Nat := ' + X.expr_to_lean(cas['self._port'], envh))
    g.raw('def crtpChanExpr (h : Nat) : Nat := ' + X.expr_to_lean(cas['self._channel'], envh))
    return {'C01.lean': g.render()}


# ------------------------------------------------------------------------------------------------------
# Tie B, level 1: the real _RadioDriverThread on a scripted fake radio
_MSG = {'Too many packets lost': 'tooManyLost', 'RadioDriver: Could not send packet to copter': 'couldNotSend'}


def _errkind(msg):
    msg = str(msg)
    if msg in _MSG:
        return _MSG[msg]
    if msg.startswith('Error communicating with crazy radio'):
        return 'usbException'
    return 'other(%s)' % msg[:40]


def _rd():
    import logging
    logging.disable(logging.CRITICAL)
    import cflib.crtp.radiodriver as rd
    return rd


class _ScriptedFault(Exception):
    pass


class Harness:
    """Shared by L1 and L2: application-side operations, event collection, deterministic teardown.
    Everything except `wait()` runs in the thread that executes the fake's send call, i.e. while the driver
    thread is blocked waiting for the radio's answer."""

    def __init__(self, driver, steps):
        import threading
        self.d = driver
        self.steps = steps
        self.i = 0
        self.errs = []
        self.lines = []          # reply lines, same shape as the Lean driver's
        self.cur = None          # events of the transmission in progress
        self.helper = None       # (thread, pkt, result-list, unfinished_tasks before the put)
        self.finished = threading.Event()
        self.threading = threading
        self.accepted = []       # (hdr, data) of every send_packet that returned True, in order
        self.refused = []
        self.received = []       # (header, port, channel, data) of every packet from receive_packet, in order
        self.err_log = []        # (index of the transmission in progress, kind)

    # --- callbacks / application side
    def on_error(self, msg):
        self.errs.append('err:' + _errkind(msg))
        self.err_log.append((self.i - 1, _errkind(msg)))

    def _mkpkt(self, hdr, data):
        from cflib.crtp.crtpstack import CRTPPacket
        pk = CRTPPacket()
        pk.header = hdr
        pk.data = bytearray(data)
        return pk

    def _qstate(self):
        q = self.d.out_queue
        with q.mutex:
            return q.unfinished_tasks, len(q.queue)

    def _helper_poll(self, must_finish=False):
        """returns the events produced by a blocked submission that has completed since the last poll"""
        if self.helper is None:
            return []
        th, pkt, res, u0 = self.helper
        unfinished, qsize = self._qstate()
        if must_finish or unfinished > u0 or qsize == 0 or not th.is_alive():
            th.join(30)
            if th.is_alive():
                raise RuntimeError('blocked submission did not complete')
            self.helper = None
            (self.accepted if res[0] else self.refused).append(pkt)
            return ['%s:%d:%s' % ('acc' if res[0] else 'ref', pkt[0], hexs(pkt[1]))]
        return []

    def app(self, op):
        if op[0] == 'sub':
            _, hdr, data = op
            if self.helper is not None:
                self.lines.append('err unsupported')
                return
            if self.d.out_queue.full():
                res = []
                u0, _ = self._qstate()
                pk = self._mkpkt(hdr, data)
                th = self.threading.Thread(target=lambda: res.append(self.d.send_packet(pk)), daemon=True)
                self.helper = (th, (hdr, data), res, u0)
                th.start()
                self.lines.append('ok blk:%d:%s' % (hdr, hexs(data)))
            else:
                ok = self.d.send_packet(self._mkpkt(hdr, data))
                (self.accepted if ok else self.refused).append((hdr, data))
                self.lines.append('ok %s:%d:%s' % ('acc' if ok else 'ref', hdr, hexs(data)))
        elif op[0] == 'timeout':
            if self.helper is None:
                self.lines.append('err unsupported')
                return
            evs = self._helper_poll(must_finish=True)     # waits for the real 2 s timeout
            self.lines.append('ok ' + ' '.join(self.errs + evs))
            self.errs = []
        else:
            raise ValueError(op)

    # --- per transmission
    def close_step(self):
        """called when the next send begins (or at the end): everything observed since the last tx"""
        if self.cur is None:
            return
        evs = list(self.cur)
        evs += self.errs
        self.errs = []
        while True:
            pk = self.d.receive_packet(0)
            if pk is None:
                break
            evs.append('rx:%d/%d/%d:%s' % (pk.header, pk.port, pk.channel, hexs(pk.data)))
            self.received.append((pk.header, pk.port, pk.channel, bytes(pk.data)))
        evs += self._helper_poll()
        self.lines.append('ok ' + ' '.join(evs))
        self.cur = None

    def begin_tx(self, frame):
        """returns the step to perform, or None when the script is over"""
        self.close_step()
        if self.i >= len(self.steps):
            return None
        st = self.steps[self.i]
        self.i += 1
        self.cur = ['tx:' + hexs(frame)]
        for op in st.get('apps', ()):
            self.app(op)
        return st

    def teardown(self):
        # release a still-blocked submission the way RadioDriver.close() does (drain the queue)
        if self.helper is not None:
            th = self.helper[0]
            for _ in range(1000):
                if not th.is_alive():
                    break
                try:
                    self.d.out_queue.get(False)
                except Exception:
                    pass
                th.join(0.01)
            self.helper = None


def run_l1(steps, nretries, state_line=True):
    """steps: [{'apps': [...], 'ans': ('none',) | ('exc',) | ('r', ack, bytes)}]; returns the reply lines"""
    import array
    import queue
    import threading
    rd = _rd()
    import cflib.drivers.crazyradio as cr
    rd.set_retries_before_disconnect(nretries)
    d = rd.RadioDriver()
    d.in_queue = queue.Queue()
    d.out_queue = queue.Queue(1)
    hz = Harness(d, steps)
    d.link_error_callback = hz.on_error
    holder = {}

    class FakeRadio:
        version = 0.53

        def send_packet(self, data):
            st = hz.begin_tx(bytes(bytearray(data)))
            if st is None:
                holder['t']._sp = True
                hz.finished.set()
                return None
            ans = st['ans']
            if ans[0] == 'none':
                return None
            if ans[0] == 'exc':
                raise _ScriptedFault('scripted')
            a = cr._radio_ack()
            a.ack = bool(ans[1])
            a.data = array.array('B', ans[2])
            a.retry = st.get('retry', 0)
            return a

        def close(self):
            pass

    t = rd._RadioDriverThread(FakeRadio(), d.in_queue, d.out_queue, None, hz.on_error, d, None)
    holder['t'] = t
    d._thread = t
    died = []
    old_hook = threading.excepthook
    threading.excepthook = lambda args: died.append(args.exc_type)
    try:
        t.start()
        t.join(120)
        if t.is_alive():
            raise RuntimeError('radio thread did not stop')
    finally:
        threading.excepthook = old_hook
        hz.teardown()
        rd.set_retries_before_disconnect(100)
    if not hz.finished.is_set():
        # the thread died inside run(): the open transmission is the last one
        hz.cur = (hz.cur or []) + ['died']
        hz.close_step()
    lines = hz.lines
    if state_line:
        lines.append('ok safelink=%d needs_resending=%d dead=%d' % (1 if t._has_safelink else 0, 1 if d.needs_resending else 0, 1 if died else 0))
    return lines


# ------------------------------------------------------------------------------------------------------
# Python twin of Spec/C01.lean (peer + channel + dongle).  Cross-checked against the Lean Spec on every L2 step (usb=...).
def is_ctl(f):
    return len(f) == 3 and (f[0] & 0xF3) == 0xF3 and f[1] == 5


class PeerTwin:
    def __init__(self, safelink=False, up=1, down=1, last=b''):
        self.safelink, self.up, self.down, self.last = bool(safelink), up, down, bytes(last)
        self.rxq, self.txq, self.deq = [], [], []

    def queue(self, f):
        self.txq.append(bytes(f))

    def recv(self, f, rssi):
        f = bytes(f)
        if is_ctl(f):
            self.safelink, self.up, self.down, self.last = f[2] != 0, 1, 1, f
            return f
        if len(f) == 0:
            return self.last
        if (not self.safelink) or (f[0] & 0x08) != (self.up << 3):
            self.rxq.append(f)
            self.up = 1 - self.up
        if (not self.safelink) or (f[0] & 0x04) != (self.down << 2):
            self.down = 1 - self.down
            if self.txq:
                pk = self.txq.pop(0)
                self.deq.append(pk)
                out = (bytes([(pk[0] & 0xF3) | (self.down << 2)]) + pk[1:]) if (self.safelink and pk) else pk
            else:
                out = bytes([0xF3 | (self.down << 2), 1, rssi])
            self.last = out
            return out
        return self.last


def usb_reply(st, outcome, payload):
    return bytes([st | 1]) + bytes(payload) if outcome == 'ok' else bytes([st & 0xFE])


# ------------------------------------------------------------------------------------------------------
# Tie B, level 2: the whole real stack on a fake USB device
class _FakeCtx:
    def dispose(self, dev, close_handle=True):
        pass


class FakeUsbDev:
    """The Crazyradio dongle as pyusb presents it.  One persistent instance; `backend` is the current case."""
    bcdDevice = 0x0053
    serial_number = 'VERIF00001'
    _ctx = _FakeCtx()
    backend = None
    ctrl = 0

    def set_configuration(self, c):
        pass

    def reset(self):
        pass

    address = None          # last SET_RADIO_ADDRESS: which Crazyflie the next transmission is addressed to

    def ctrl_transfer(self, bmRequestType=None, bRequest=None, *a, **kw):
        FakeUsbDev.ctrl += 1
        if bRequest == 0x02:      # SET_RADIO_ADDRESS
            FakeUsbDev.address = tuple(kw.get('data_or_wLength') or ())

    def write(self, endpoint, data, timeout=None):
        return FakeUsbDev.backend.usb_write(endpoint, bytes(bytearray(data)))

    def read(self, endpoint, size, timeout=None):
        return FakeUsbDev.backend.usb_read(endpoint, size)


_USB_PATCH = []


def _install_usb():
    import usb.core
    if not _USB_PATCH:
        dev = FakeUsbDev()
        _USB_PATCH.append((usb.core.find, dev))
        usb.core.find = lambda *a, **kw: [dev]


def _uninstall_usb():
    import usb.core
    if _USB_PATCH:
        usb.core.find = _USB_PATCH.pop()[0]


def run_l2(ops, nretries, peer0=(0, 1, 1, b''), full=True):
    """ops: ('sub',hdr,data) | ('timeout',) | ('queue',frame) | ('xmit',outcome,st,rssi); must end with an xmit.
    full=True : RadioDriver.connect -> RadioManager -> _SharedRadio thread -> Crazyradio -> fake USB device
    full=False: _RadioDriverThread directly on a real Crazyradio object on the fake USB device (no shared-radio thread)
    Returns (reply lines, twin, raw observations for search())."""
    import array
    import queue
    import usb.core
    rd = _rd()
    import cflib.drivers.crazyradio as cr
    _install_usb()
    rd.set_retries_before_disconnect(nretries)
    steps, cur = [], []
    for op in ops:
        if op[0] == 'xmit':
            steps.append({'apps': cur, 'xmit': op})
            cur = []
        else:
            cur.append(op)
    d = rd.RadioDriver()
    twin = PeerTwin(*peer0)
    obs = {'tx': [], 'outcomes': [], 'usb': [], 'accepted_at_tx': []}

    class H2(Harness):
        def app(self, op):
            if op[0] == 'queue':
                twin.queue(op[1])
                self.lines.append('ok -')
            else:
                Harness.app(self, op)

    hz = H2(d, steps)

    class Backend:
        reply = None

        def usb_write(self, endpoint, frame):
            assert endpoint == 1
            st = hz.begin_tx(frame)
            if st is None:
                d._thread._sp = True
                hz.finished.set()
                raise usb.core.USBError('script over')
            obs['accepted_at_tx'].append(len(hz.accepted))
            _, outcome, stb, rssi = st['xmit']
            payload = b'' if outcome == 'up' else twin.recv(frame, rssi)
            self.reply = usb_reply(stb, outcome, payload)
            obs['tx'].append(frame)
            obs['outcomes'].append(outcome)
            hz.cur.append('usb=' + hexs(self.reply))
            return len(frame)

        def usb_read(self, endpoint, size):
            assert endpoint == 0x81
            return array.array('B', self.reply)

    FakeUsbDev.backend = Backend()
    import threading
    died = []
    old_hook = threading.excepthook
    threading.excepthook = lambda args: died.append(args.exc_type)
    try:
        if full:
            d.connect('radio://0/80/2M', None, hz.on_error)
        else:
            d.in_queue = queue.Queue()
            d.out_queue = queue.Queue(1)
            d.link_error_callback = hz.on_error
            d._radio = cr.Crazyradio(device=_USB_PATCH[0][1])
            d._thread = rd._RadioDriverThread(d._radio, d.in_queue, d.out_queue, None, hz.on_error, d, None)
            d._thread.start()
        waited = 0.0
        while not hz.finished.wait(0.05):
            waited += 0.05
            if not d._thread.is_alive():
                if hz.finished.is_set():
                    break
                obs['died'] = (died[0].__name__ if died else 'an exception')
                break
            if waited > (6 if full else 20):
                # the link never gets an answer from the shared radio (only possible through what EARLIER sessions left
                # behind in RadioManager): release the stuck thread, start the next case on a fresh shared radio
                try:
                    d._thread._sp = True
                    d._radio._rsp_queue.put(None)
                except Exception:
                    pass
                rd.RadioManager._radios = []
                raise RuntimeError('STALLED closed run: script did not finish (radio thread stuck: %d of %d transmissions done)'
                                   % (hz.i, len(steps)))
        hz.teardown()
        d.close()
    finally:
        threading.excepthook = old_hook
        rd.set_retries_before_disconnect(100)
    hz.close_step()
    lines = []
    for ln in hz.lines:        # move usb=... to the end of its line (canonical order)
        ws = ln.split(' ')
        u = [w for w in ws if w.startswith('usb=')]
        lines.append(' '.join([w for w in ws if not w.startswith('usb=')] + u))
    lines.append('ok needs_resending=%d delivered=%s pending=%d peer_safelink=%d' % (
        1 if d.needs_resending else 0, ','.join(hexs(f) for f in twin.rxq) or '-', len(twin.txq), 1 if twin.safelink else 0))
    obs['lines'] = lines
    obs['accepted'], obs['refused'], obs['received'], obs['err_log'] = hz.accepted, hz.refused, hz.received, hz.err_log
    obs['needs_resending'] = d.needs_resending
    return lines, twin, obs


# ------------------------------------------------------------------------------------------------------
# Several links sharing one Crazyradio: real RadioManager / _SharedRadio / _SharedRadioInstance with up to four
# RadioDriver objects (one Crazyflie address each) opened and closed in any order while the others are in use.
SLOTS = 'ABCD'


def slot_uri(slot):
    return 'radio://0/80/2M/E7E7E7E7%02X' % (0xA0 + SLOTS.index(slot))


def slot_addr(slot):
    return (0xE7, 0xE7, 0xE7, 0xE7, 0xA0 + SLOTS.index(slot))


class _Session:
    def __init__(self, slot, peer0, loss):
        self.slot, self.twin, self.loss = slot, PeerTwin(*peer0), list(loss)
        self.tx, self.outcomes, self.err_log = [], [], []
        self.accepted, self.refused, self.received = [], [], []
        self.driver = None
        self.stalled = False
        self.drained = False
        self.needs_resending = None

    def on_error(self, msg):
        self.err_log.append((len(self.tx) - 1, _errkind(msg)))

    def drain_rx(self):
        while True:
            pk = self.driver.receive_packet(0)
            if pk is None:
                break
            self.received.append((pk.header, pk.port, pk.channel, bytes(pk.data)))


def run_multi(case):
    """case['script']: ('open',slot,peer0,loss) | ('close',slot) | ('sub',slot,hdr,data) | ('queue',slot,frame) | ('run',k).
    Every live link transmits continuously (its radio thread free-runs through the shared radio); `loss` scripts the
    outcomes of a session's first transmissions, afterwards everything is acknowledged.  ('run',k) waits until every
    live link has completed k more transmissions.  Returns (reply lines for the instance-table model, failures)."""
    import array
    import threading
    import time
    import usb.core
    rd = _rd()
    from cflib.crtp.crtpstack import CRTPPacket
    _install_usb()
    rd.set_retries_before_disconnect(case['n'])
    rd.RadioManager._radios = []            # a fresh shared radio (dongle 0) for this case
    by_addr, live, sessions, lines, fails = {}, {}, [], [], []

    class Backend:
        reply = None

        def usb_write(self, endpoint, frame):
            se = by_addr.get(FakeUsbDev.address)
            if se is None:
                raise usb.core.USBError('no such link')
            outcome = se.loss.pop(0) if se.loss else 'ok'
            payload = b'' if outcome == 'up' else se.twin.recv(frame, 0x40 + (len(se.tx) & 0x3F))
            self.reply = usb_reply((len(se.tx) & 0x0F) << 4, outcome, payload)
            se.tx.append(frame)
            se.outcomes.append(outcome)
            return len(frame)

        def usb_read(self, endpoint, size):
            return array.array('B', self.reply)

    FakeUsbDev.backend = Backend()
    FakeUsbDev.address = None
    old_hook = threading.excepthook
    threading.excepthook = lambda args: fails.append(('thread-died', 'a thread of the radio stack died with %s' % args.exc_type.__name__,
                                                      {'thread': getattr(args.thread, 'name', '?')}))

    def advance(k, who=None):
        """wait until every live, not stalled link (or only `who`) has done k more transmissions; returns the slots that did"""
        ses = [se for se in live.values() if not se.stalled and (who is None or se is who)]
        target = {id(se): len(se.tx) + k for se in ses}
        t0 = time.time()
        pending = list(ses)
        while pending and time.time() - t0 < 6.0:
            pending = [se for se in pending if len(se.tx) < target[id(se)]]
            if pending:
                time.sleep(0.0005)
        for se in pending:
            se.stalled = True
            fails.append(('link-stalled', 'a link sharing the Crazyradio stopped transmitting: its radio thread never gets the '
                          'answer to its transmission, accepted packets are not delivered', {'slot': se.slot, 'transmissions': len(se.tx)}))
        return sorted(se.slot for se in ses if not se.stalled)

    def close(se, drain):
        if drain and not se.stalled:
            advance(5 + len(se.twin.txq), se)
            se.drained = not se.stalled
        se.needs_resending = se.driver.needs_resending
        th = threading.Thread(target=se.driver.close, daemon=True)
        th.start()
        th.join(3.0 if not se.stalled else 0.2)
        if th.is_alive() and not se.stalled:
            se.stalled = True
            fails.append(('link-stalled', 'closing a link blocks: its radio thread is stuck', {'slot': se.slot}))
        if th.is_alive():
            # harness clean-up only: release the stuck (non-daemon) radio thread so that the process can exit
            try:
                se.driver._thread._sp = True
                se.driver._radio._rsp_queue.put(None)
            except Exception:
                pass
            th.join(1.0)
        se.drain_rx()
        del live[se.slot]
        by_addr.pop(slot_addr(se.slot), None)

    try:
        for op in case['script']:
            if op[0] == 'open':
                _, slot, peer0, loss = op
                if slot in live:
                    continue
                se = _Session(slot, peer0, loss)
                sessions.append(se)
                by_addr[slot_addr(slot)] = se
                live[slot] = se
                se.driver = rd.RadioDriver()
                se.driver.connect(slot_uri(slot), None, se.on_error)
                lines.append('ok')
            elif op[0] == 'close':
                if op[1] in live:
                    close(live[op[1]], True)
                    # the STOP command is ahead of every later transmission request in the shared radio's queue
                    advance(2)
                    lines.append('ok')
            elif op[0] == 'sub':
                se = live.get(op[1])
                if se is not None and not se.stalled:
                    pk = CRTPPacket()
                    pk.header = op[2]
                    pk.data = bytearray(op[3])
                    (se.accepted if se.driver.send_packet(pk) else se.refused).append((op[2], bytes(op[3])))
            elif op[0] == 'queue':
                se = live.get(op[1])
                if se is not None:
                    se.twin.queue(op[2])      # (list append; the shared-radio thread pops from the other end)
            elif op[0] == 'run':
                lines.append('ok live=' + (','.join(advance(op[1])) or '-'))
        for se in list(live.values()):
            close(se, True)
    finally:
        threading.excepthook = old_hook
        rd.set_retries_before_disconnect(100)
        FakeUsbDev.address = None
    # the property, per session
    for se in sessions:
        obs = {'tx': se.tx, 'outcomes': se.outcomes[:len(se.tx)], 'accepted': se.accepted, 'received': se.received,
               'err_log': se.err_log, 'needs_resending': se.needs_resending}
        if se.stalled:
            continue        # already reported; its logs stop in the middle of a transmission
        for (key, what, det) in property_failures({'ops': [], 'n': case['n']}, se.twin, obs):
            det = dict(det)
            det['slot'] = se.slot
            fails.append((key, what, det))
        if se.drained and not obs['needs_resending']:
            raw = [bytes([h]) + bytes(d) for (h, d) in se.accepted]
            if up_view(se.twin.rxq) != up_view(raw):
                fails.append(('uplink-drain', 'accepted packets of a link sharing the radio were not all delivered, in order, exactly once',
                              {'slot': se.slot, 'delivered': [x.hex() for x in up_view(se.twin.rxq)], 'accepted': [x.hex() for x in up_view(raw)]}))
            rcv = down_view([bytes([h]) + d for (h, _, _, d) in se.received])
            qd = down_view(se.twin.deq + se.twin.txq)
            if rcv != qd:
                fails.append(('downlink-drain', 'packets queued by the Crazyflie of a link sharing the radio did not all come out of '
                              'receive_packet, in order, exactly once', {'slot': se.slot, 'received': [x.hex() for x in rcv], 'queued': [x.hex() for x in qd]}))
        if se.refused:
            fails.append(('send-refused', 'send_packet refused a packet although the link was up', {'slot': se.slot, 'refused': len(se.refused)}))
    return lines, fails


def lean_lines_multi(case):
    out = ['sh reset']
    live = set()
    for op in case['script']:
        if op[0] == 'open' and op[1] not in live:
            live.add(op[1])
            out.append('sh open ' + op[1])
        elif op[0] == 'close' and op[1] in live:
            live.discard(op[1])
            out.append('sh close ' + op[1])
        elif op[0] == 'run':
            out.append('sh run')
    return out


def gen_multi(rng, toggles, traffic=True):
    """toggles: sequence of slots; each occurrence opens the slot if it is closed and closes it if it is open"""
    script, live, tag = [], set(), 0
    for slot in toggles:
        if slot in live:
            live.discard(slot)
            script.append(('close', slot))
        else:
            live.add(slot)
            peer0 = (rng.randrange(2), rng.randrange(2), rng.randrange(2), _rand_payload(rng))
            p_ok = rng.choice([1.0, 0.8, 0.5])
            loss = [('ok' if rng.random() < p_ok else rng.choice(['up', 'ack'])) for _ in range(rng.choice([0, 6, 20]))]
            if loss and 'ok' not in loss[:8]:
                loss[rng.randrange(min(8, len(loss)))] = 'ok'
            script.append(('open', slot, peer0, tuple(loss)))
        for rep in range(rng.choice([1, 2]) if traffic else 0):
            for sl in sorted(live):
                if rng.random() < 0.8:
                    tag += 1
                    script.append(('sub', sl, ((rng.randrange(15) << 4) | 0x0C | rng.randrange(4)), bytes([tag & 0xFF, SLOTS.index(sl)])))
                if rng.random() < 0.7:
                    tag += 1
                    script.append(('queue', sl, bytes([(rng.randrange(15) << 4) | rng.randrange(4), tag & 0xFF, SLOTS.index(sl)])))
            script.append(('run', rng.choice([2, 3, 5])))
    return {'kind': 'multi', 'n': rng.choice([3, 5, 100]), 'script': script}


def lean_lines_l2(ops, nretries, peer0=(0, 1, 1, b'')):
    out = ['sys reset %d %d %d %d %s' % (nretries, peer0[0], peer0[1], peer0[2], hexs(peer0[3]))]
    for op in ops:
        if op[0] == 'sub':
            out.append('sys sub %d %s' % (op[1], hexs(op[2])))
        elif op[0] == 'timeout':
            out.append('sys timeout')
        elif op[0] == 'queue':
            out.append('sys queue ' + hexs(op[1]))
        else:
            out.append('sys xmit %s %d %d' % (op[1], op[2], op[3]))
    out.append('sys state')
    return out


def lean_lines_l1(steps, nretries):
    out = ['reset %d' % nretries]
    for st in steps:
        for op in st.get('apps', ()):
            out.append('sub %d %s' % (op[1], hexs(op[2])) if op[0] == 'sub' else 'timeout')
        a = st['ans']
        out.append('tx ' + (a[0] if a[0] != 'r' else 'r %d %s' % (a[1], hexs(a[2]))))
    out.append('state')
    return out


# ------------------------------------------------------------------------------------------------------
# Crazyradio.send_packet ack decoding on arbitrary USB replies
def run_dec(usb, arc):
    import array
    import usb.core as uc
    _rd()
    import cflib.drivers.crazyradio as cr
    _install_usb()

    class Backend:
        def usb_write(self, endpoint, frame):
            if usb is None:
                raise uc.USBError('scripted')
            return len(frame)

        def usb_read(self, endpoint, size):
            return array.array('B', usb)
    FakeUsbDev.backend = Backend()
    radio = cr.Crazyradio(device=_USB_PATCH[0][1])
    radio.set_arc(arc)
    try:
        a = radio.send_packet((0xff,))
    except Exception as e:
        return 'err ' + exc_enum(e)
    if a is None:
        return 'ok none'
    return 'ok ack=%d pd=%d retry=%d data=%s' % (1 if a.ack else 0, 1 if a.powerDet else 0, a.retry, hexs(bytes(bytearray(a.data))))


# ------------------------------------------------------------------------------------------------------
# The property itself, evaluated on what the REAL code did in a closed run (Python twin of the Props statements)
def up_view(frames):
    out = []
    for f in frames:
        f = bytes(f)
        if f:
            g = bytes([f[0] & 0xF3]) + f[1:]
            if g != b'\xf3':
                out.append(g)
    return out


def down_view(frames):
    out = []
    for f in frames:
        f = bytes(f)
        if f:
            g = bytes([f[0] & 0xF3]) + f[1:]
            if not (len(g) == 3 and g[0] == 0xF3 and g[1] == 1):
                out.append(g)
    return out


SAFELINK_REQ = bytes([0xff, 0x05, 0x01])


def property_failures(case, twin, obs):
    """returns [(key, what, details)]"""
    fails = []
    ops, n = case['ops'], case['n']
    outcomes = obs['outcomes']
    if obs.get('died'):
        fails.append(('thread-died', 'the radio thread died with %s: nothing is delivered any more and no link error is reported' % obs['died'],
                      {'after_transmissions': len(outcomes)}))
    # link start-up as seen on the air: the leading safelink requests; the peer confirms every one that gets through
    neg_len = 0
    while neg_len < len(obs['tx']) and obs['tx'][neg_len] == SAFELINK_REQ:
        neg_len += 1
    confirmed = any(o == 'ok' for o in outcomes[:neg_len])
    # safelink only if confirmed / needs_resending
    if obs['needs_resending'] != (not confirmed):
        fails.append(('needs-resending', 'needs_resending differs from "the peer did not confirm safelink"',
                      {'confirmed': confirmed, 'needs_resending': obs['needs_resending']}))
    data_tx = obs['tx'][neg_len:]
    raw_frames = [bytes([h]) + bytes(d) for (h, d) in obs['accepted']]
    if not confirmed:
        for f in data_tx:
            if f != b'\xff' and f not in raw_frames:
                fails.append(('safelink-unconfirmed', 'header bits rewritten although the peer never confirmed safelink', {'frame': f.hex()}))
                break
    # link error exactly when N consecutive data transmissions went unacknowledged
    want, run = [], 0
    for j, o in enumerate(outcomes[neg_len:]):
        run = 0 if o == 'ok' else run + 1
        if run == n and n > 0:
            want.append(neg_len + j)
    got = [i for (i, k) in obs['err_log'] if k == 'tooManyLost']
    if got != want:
        fails.append(('link-error', 'link error reports differ from "exactly when N consecutive transmissions are unacknowledged"',
                      {'n': n, 'reported_at': got, 'expected_at': want}))
    other = [k for (_, k) in obs['err_log'] if k not in ('tooManyLost', 'couldNotSend')]
    if other:
        fails.append(('spurious-error', 'unexpected link error', {'errors': other}))
    if not confirmed:
        return fails
    # uplink: delivered non-null packets are a prefix of the accepted ones
    dlv, acc = up_view(twin.rxq), up_view(raw_frames)
    if dlv != acc[:len(dlv)]:
        fails.append(('uplink', 'packets delivered to the Crazyflie are not an in-order duplicate-free prefix of the accepted packets',
                      {'delivered': [x.hex() for x in dlv], 'accepted': [x.hex() for x in acc]}))
    # downlink
    rcv = down_view([bytes([h]) + d for (h, _, _, d) in obs['received']])
    qd = down_view(twin.deq + twin.txq)
    if rcv != qd[:len(rcv)]:
        fails.append(('downlink', 'packets from receive_packet are not an in-order duplicate-free prefix of what the Crazyflie queued',
                      {'received': [x.hex() for x in rcv], 'queued': [x.hex() for x in qd]}))
    for (h, port, chan, d) in obs['received']:
        if port != (h >> 4) or chan != (h & 3) or (h & 0x0C) != 0x0C:
            fails.append(('downlink', 'received packet has inconsistent header/port/channel', {'header': h, 'port': port, 'channel': chan}))
            break
    # drained: trailing ok transmissions with nothing submitted / queued in between
    t = 0
    for op in reversed(ops):
        if op[0] == 'xmit' and op[1] == 'ok':
            t += 1
        else:
            break
    if t >= 3 and neg_len <= len(outcomes) - 3 and dlv != acc:
        fails.append(('uplink-drain', 'accepted packets still undelivered after three acknowledged idle transmissions',
                      {'delivered': [x.hex() for x in dlv], 'accepted': [x.hex() for x in acc]}))
    if neg_len <= len(outcomes) - t:
        # p pending packets need at most p+1 acknowledged transmissions (p <= everything ever queued)
        if t >= 1 + len(twin.deq) + len(twin.txq) and rcv != qd:
            fails.append(('downlink-drain', 'queued downlink packets not all received after enough acknowledged transmissions',
                          {'received': [x.hex() for x in rcv], 'queued': [x.hex() for x in qd]}))
    return fails


# ------------------------------------------------------------------------------------------------------
# case generation
def _rand_payload(rng, maxlen=6):
    return bytes(rng.randrange(256) for _ in range(rng.choice([0, 1, 1, 2, 3, maxlen])))


def gen_l1(rng, long=False):
    n = rng.choice([1, 1, 2, 3, 5])
    k = rng.randrange(0, 60 if long else 26)
    steps = []
    neg_over = False
    for i in range(k):
        apps = []
        for _ in range(rng.choice([0, 0, 0, 0, 1, 1, 2])):
            apps.append(('sub', rng.choice([0xFF, 0xF3, rng.randrange(256)]), _rand_payload(rng)))
        r = rng.random()
        if i < 10 and not neg_over:
            # negotiation-looking answers
            if r < 0.25:
                ans = ('r', rng.randrange(2), bytes([0xff, 0x05, 0x01]))
                neg_over = True
            elif r < 0.45:
                ans = ('r', 1, rng.choice([bytes([0xff, 0x05, 0x00]), bytes([0xff, 0x05]), bytes([0xff, 0x05, 0x01, 0x00]),
                                           bytes([0xf3, 0x05, 0x01]), b'']))
            elif r < 0.5:
                ans = ('none',)
            else:
                ans = ('r', 0, b'')
        else:
            if r < 0.04:
                ans = ('none',)
            elif r < 0.08 and i >= 10:
                ans = ('exc',)
            elif r < 0.40:
                ans = ('r', 0, b'' if rng.random() < 0.8 else _rand_payload(rng))
            elif r < 0.5:
                ans = ('r', 1, b'')
            else:
                hd = rng.choice([0xF3, 0xF7, 0xFF, 0xFB, rng.randrange(256)])
                ans = ('r', 1, bytes([hd]) + _rand_payload(rng))
        steps.append({'apps': apps, 'ans': ans})
    if rng.random() < 0.05:
        steps = steps[:rng.randrange(0, 9)]
        if not any(s['ans'][0] == 'r' and s['ans'][2] == bytes([0xff, 0x05, 0x01]) for s in steps):
            steps.append({'apps': [], 'ans': ('exc',)})      # exception during negotiation: the thread dies
    return {'kind': 'l1', 'steps': steps, 'n': n}


def _app_pkt(rng, tag):
    """an application packet that is not a safelink control frame; mostly what cflib builds (bits 3..2 set)"""
    r = rng.random()
    if r < 0.6:
        hdr = ((rng.randrange(16) << 4) | 0x0C | rng.randrange(4))
    elif r < 0.8:
        hdr = rng.choice([0xFF, 0xF3, 0xF7, 0xFB])       # port 15 channel 3: looks like the null packet's header
    else:
        hdr = rng.randrange(256)
    data = bytes([tag & 0xFF]) + _rand_payload(rng) if rng.random() < 0.85 else b''
    if (hdr & 0xF3) == 0xF3 and len(data) == 2 and data[0] == 5:
        data = bytes([6]) + data[1:]
    return hdr, data


def exhaustive_case(outs, submask, qmask, n, neg, full=False):
    """negotiation prefix `neg` (outcome list), then one data transmission per element of `outs`; bit i of submask: the
    application submits a packet before data transmission i; bit i of qmask: the Crazyflie queues one"""
    ops = [('xmit', o, 0x10, 0x40) for o in neg]
    for i, o in enumerate(outs):
        if (submask >> i) & 1:
            ops.append(('sub', 0x3C + 0x10 * (i % 8), bytes([0xA0 + i])))
        if (qmask >> i) & 1:
            ops.append(('queue', bytes([0x5C + (i % 4), 0xB0 + i])))
        ops.append(('xmit', o, 0x10 * (i % 16), 0x40 + i))
    return {'kind': 'closed', 'ops': ops, 'n': n, 'peer0': (0, 1, 1, b''), 'full': full}


def gen_closed(rng, maxlen, full=False):
    n = rng.choice([1, 2, 2, 3, 5, 8, 100])
    peer0 = (rng.randrange(2), rng.randrange(2), rng.randrange(2), _rand_payload(rng))
    k = rng.randrange(1, maxlen + 1)
    p_ok = rng.choice([0.3, 0.6, 0.8, 0.95])
    p_sub = rng.choice([0.0, 0.2, 0.5, 0.9])
    p_q = rng.choice([0.0, 0.2, 0.5, 0.9])
    ops, tag, burst = [], 0, 0
    for i in range(k):
        while rng.random() < p_sub * 0.7:
            tag += 1
            hdr, data = _app_pkt(rng, tag)
            ops.append(('sub', hdr, data))
        while rng.random() < p_q * 0.7:
            tag += 1
            hdr, data = _app_pkt(rng, tag)
            ops.append(('queue', bytes([hdr]) + data))
        if burst == 0 and rng.random() < 0.03:
            burst = rng.choice([n - 1, n, n + 1, 2 * n, 2 * n + 1]) if n < 50 else rng.randrange(1, 12)
        if burst > 0:
            burst -= 1
            o = rng.choice(['up', 'ack'])
        else:
            o = 'ok' if rng.random() < p_ok else rng.choice(['up', 'ack'])
        ops.append(('xmit', o, rng.randrange(256), rng.randrange(256)))
    if rng.random() < 0.5:
        ops += [('xmit', 'ok', rng.randrange(256), rng.randrange(256)) for _ in range(rng.randrange(1, 12))]
    return {'kind': 'closed', 'ops': ops, 'n': n, 'peer0': peer0, 'full': full}


def gen_timeout_case(rng):
    """a blocked submission whose real 2 s timeout expires (slot stays full while the link is down)"""
    ops = [('xmit', 'ok', 1, 1), ('sub', 0x3C, b'\x01'), ('xmit', 'ok', 1, 1), ('sub', 0x4C, b'\x02'), ('sub', 0x5C, b'\x03'),
           ('xmit', rng.choice(['up', 'ack']), 0, 0), ('timeout',), ('xmit', 'up', 0, 0), ('sub', 0x6C, b'\x04'), ('xmit', 'ok', 0, 0),
           ('xmit', 'ok', 0, 0), ('xmit', 'ok', 0, 0), ('xmit', 'ok', 0, 0)]
    return {'kind': 'closed', 'ops': ops, 'n': 100, 'peer0': (0, 1, 1, b''), 'full': rng.random() < 0.5}


def gen_dec(rng, status):
    r = rng.random()
    if r < 0.02:
        return {'kind': 'dec', 'usb': None, 'arc': rng.randrange(16)}
    if r < 0.04:
        return {'kind': 'dec', 'usb': b'', 'arc': rng.randrange(16)}
    return {'kind': 'dec', 'usb': bytes([status]) + _rand_payload(rng, 31), 'arc': rng.randrange(16)}


def gen_cases(ctx):
    import itertools
    rng = ctx.rng
    thorough = ctx.tier == 'thorough'
    cases = load_corpus()
    # (1) exhaustive: every outcome string x every submission mask, after a confirmed negotiation
    kmax_full = 7 if thorough else 6
    O = ['ok', 'up', 'ack']
    for k in range(0, kmax_full + 1):
        for outs in itertools.product(O, repeat=k):
            for submask in range(1 << k):
                qmask = (submask * 5 + len(cases)) % (1 << k) if k else 0
                cases.append(exhaustive_case(outs, submask, qmask, 2, ['ok']))
    if thorough:
        for outs in itertools.product(O, repeat=8):
            for _ in range(16):
                cases.append(exhaustive_case(outs, rng.getrandbits(8), rng.getrandbits(8), rng.choice([1, 2, 3]), ['ok']))
    # (2) exhaustive negotiation: every outcome string of length <= 5 (6) before, then a fixed data tail; and the 10-attempt limit
    for k in range(0, (7 if thorough else 6)):
        for neg in itertools.product(O, repeat=k):
            cases.append(exhaustive_case(['ok', 'ack', 'ok', 'up', 'ok', 'ok', 'ok'], 0b0010011, 0b0001101, 3, list(neg), full=(len(cases) % 7 == 0)))
    for lost in range(8, 13):
        for kind in ('up', 'ack', 'mix'):
            neg = [('up' if (kind == 'up' or (kind == 'mix' and i % 2)) else 'ack') for i in range(lost)]
            cases.append(exhaustive_case(['ok', 'ok', 'ack', 'ok', 'ok', 'ok'], 0b000011, 0b000101, 2, neg + ['ok'], full=True))
    # (3) the whole stack (connect -> RadioManager -> shared radio thread -> Crazyradio -> USB) on all outcome strings, k <= 5 (6)
    for k in range(0, (7 if thorough else 6)):
        for outs in itertools.product(O, repeat=k):
            cases.append(exhaustive_case(outs, rng.getrandbits(k) if k else 0, rng.getrandbits(k) if k else 0, 2, ['ack', 'ok'], full=True))
    # (4) random long scripts
    for c in range(4000 if thorough else 400):
        cases.append(gen_closed(rng, rng.choice([20, 60, 400]) if c % 10 == 0 else 25, full=(c % 3 == 0)))
    # (5) blocked submissions that time out (real 2 s each; they run concurrently in the worker pool)
    for _ in range(8 if thorough else 4):
        cases.append(gen_timeout_case(rng))
    # (6) arbitrary answers at the radio-object boundary
    for c in range(6000 if thorough else 1200):
        cases.append(gen_l1(rng, long=(c % 5 == 0)))
    # (8) several links on one Crazyradio: EVERY open/close order of up to three links (toggle sequences of length <= 4 (5)),
    #     traffic with loss on every live link after each step; plus random longer histories with four links
    for k in range(1, (6 if thorough else 5)):
        for toggles in itertools.product('ABC', repeat=k):
            if toggles[0] == 'A' and (len(set(toggles)) < 2 or toggles.index('B' if 'B' in toggles else 'A') < (toggles.index('C') if 'C' in toggles else 99)):
                cases.append(gen_multi(rng, toggles))      # up to renaming of the links
    for c in range(150 if thorough else 30):
        cases.append(gen_multi(rng, [rng.choice('ABCD') for _ in range(rng.randrange(3, 10))]))
    # (7) ack decoding: all 256 status bytes
    for rep in range(4 if thorough else 2):
        for st in range(256):
            cases.append(gen_dec(rng, st))
    return cases


# ------------------------------------------------------------------------------------------------------
# JSON form of a case (corpus files, witnesses, replays): bytes as hex strings
def case_to_json(c):
    def enc(x):
        if isinstance(x, (bytes, bytearray)):
            return {'hex': bytes(x).hex()}
        if isinstance(x, (list, tuple)):
            return [enc(y) for y in x]
        if isinstance(x, dict):
            return {k: enc(v) for k, v in x.items()}
        return x
    return enc(c)


def case_from_json(j):
    def dec(x):
        if isinstance(x, dict) and set(x) == {'hex'}:
            return bytes.fromhex(x['hex'])
        if isinstance(x, list):
            return tuple(dec(y) for y in x)
        if isinstance(x, dict):
            return {k: dec(v) for k, v in x.items()}
        return x
    c = dec(j)
    if c.get('kind') == 'closed':
        c['ops'] = list(c['ops'])
    if c.get('kind') == 'multi':
        c['script'] = list(c['script'])
    if c.get('kind') == 'l1':
        c['steps'] = [{'apps': list(s['apps']), 'ans': s['ans']} for s in c['steps']]
    return c


def load_corpus():
    import glob
    import json
    import os
    here = os.path.dirname(os.path.dirname(os.path.abspath(__file__)))
    out = []
    for f in sorted(glob.glob(os.path.join(here, 'corpus', 'c01', '*.json'))):
        j = json.load(open(f))
        out.append(case_from_json(j['case'] if 'case' in j else j))
    return out


# ------------------------------------------------------------------------------------------------------
# running cases (in worker processes: the real code runs real threads, one case at a time per process)
def lean_requests(case):
    if case['kind'] == 'l1':
        return lean_lines_l1(case['steps'], case['n'])
    if case['kind'] == 'closed':
        return lean_lines_l2(case['ops'], case['n'], case['peer0'])
    if case['kind'] == 'multi':
        return lean_lines_multi(case)
    return ['dec %s %d' % ('none' if case['usb'] is None else hexs(case['usb']), case['arc'])]


def run_real(case):
    """-> (reply lines incl. the reset line's 'ok', property failures)"""
    if case['kind'] == 'l1':
        return ['ok'] + run_l1(case['steps'], case['n']), []
    if case['kind'] == 'closed':
        lines, twin, obs = run_l2(case['ops'], case['n'], case['peer0'], full=case['full'])
        return ['ok'] + lines, property_failures(case, twin, obs)
    if case['kind'] == 'multi':
        lines, fails = run_multi(case)
        return ['ok'] + lines, fails
    return [run_dec(case['usb'], case['arc'])], []


def case_desc(case):
    if case['kind'] == 'l1':
        return {'level': 'L1', 'n': case['n'], 'steps': [(s['apps'], s['ans']) for s in case['steps']][:60]}
    if case['kind'] == 'closed':
        return {'level': 'L2' if case['full'] else 'L1c', 'n': case['n'], 'peer0': case['peer0'], 'ops': case['ops'][:80]}
    if case['kind'] == 'multi':
        return {'level': 'multi', 'n': case['n'], 'script': [op[:2] if op[0] == 'open' else op for op in case['script']][:80]}
    return {'level': 'dec', 'usb': None if case['usb'] is None else case['usb'].hex(), 'arc': case['arc']}


def _shrink_closed(case, key, budget=250):
    """greedy delta-debugging of a failing closed-system script: drop operations while the same clause still fails"""
    def fails_same(c):
        if not c['ops'] or c['ops'][-1][0] != 'xmit':
            return False
        try:
            _, fs = run_real(c)
        except Exception:
            return False
        return any(k == key for (k, _, _) in fs)
    best = dict(case)
    runs = 0
    size = max(1, len(best['ops']) // 2)
    while size >= 1 and runs < budget:
        i, changed = 0, False
        while i < len(best['ops']) and runs < budget:
            cand = dict(best)
            cand['ops'] = best['ops'][:i] + best['ops'][i + size:]
            runs += 1
            if fails_same(cand):
                best, changed = cand, True
            else:
                i += size
        if not changed:
            size //= 2
    return best


def _run_chunk(args):
    cases, with_lean = args
    import hashlib
    from harness.lib.common import run_driver
    res = {'counts': {}, 'disagreements': [], 'witnesses': [], 'keys': [], 'errors': []}

    def count(k, v=1):
        res['counts'][k] = res['counts'].get(k, 0) + v
    replies = None
    shrunk = 0
    if with_lean:
        reqs, spans = [], []
        for c in cases:
            ll = lean_requests(c)
            spans.append((len(reqs), len(reqs) + len(ll)))
            reqs += ll
        replies = run_driver(DRIVER, reqs, 1200)
    try:
        multi_failed = 0
        l2_stalled = 0
        for idx, c in enumerate(cases):
            if c['kind'] == 'multi' and multi_failed >= 1:
                continue        # a stalled link costs seconds and leaves stuck threads behind: one witness per worker is enough
            if c['kind'] == 'closed' and c.get('full') and l2_stalled >= 2:
                continue
            try:
                real, fails = run_real(c)
                if c['kind'] == 'multi' and fails:
                    multi_failed += 1
            except Exception as e:
                import traceback
                if 'STALLED' in str(e):
                    # not a stand-alone input (depends on the sessions run before it in this process): the multi-link
                    # histories below reproduce this from a fresh shared radio and provide the replayable witness
                    l2_stalled += 1
                    count('L2:stalled-after-earlier-sessions')
                    continue
                res['errors'].append('%s on %s' % (''.join(traceback.format_exception(type(e), e, e.__traceback__))[-1500:], str(case_desc(c))[:600]))
                if len(res['errors']) > 1:
                    break
                continue
            level = case_desc(c)['level']
            count('cases:' + level)
            res['keys'].append(hashlib.sha1(repr(sorted(c.items(), key=lambda kv: kv[0])).encode()).hexdigest()[:12])
            for ln in real:
                if ln.startswith('err'):
                    count(level + ':' + ln)
                for w in ln.split(' ')[1:]:
                    if w.startswith('err:'):
                        count(level + ':' + w)
                    elif ':' in w and not w.startswith('usb') and not w.startswith('delivered'):
                        count(level + ':ev:' + w.split(':')[0])
                    elif w.startswith('usb='):
                        count(level + ':acked' if int(w[4:6], 16) & 1 else level + ':unacked')
                    elif w in ('died', 'none'):
                        count(level + ':' + w)
            if c['kind'] == 'closed':
                count('%s:safelink=%s' % (level, 'no' if ' needs_resending=1' in real[-1] else 'yes'))
            for (key, what, det) in fails:
                cw = c
                if c['kind'] == 'closed' and shrunk < 2 and key != 'thread-died':
                    shrunk += 1
                    cw = _shrink_closed(c, key)
                    try:
                        det = [d for (k, _, d) in run_real(cw)[1] if k == key][0]
                    except Exception:
                        cw = c
                res['witnesses'].append((key, what, {'case': case_to_json(cw), 'details': det,
                                                     'ops': len(cw.get('ops', ())) or len(cw.get('script', ()))}))
                count('property-failure:' + key)
            if replies is not None:
                a, b = spans[idx]
                model = replies[a:b]
                if model != real:
                    j = next((i for i in range(min(len(model), len(real))) if model[i] != real[i]), min(len(model), len(real)))
                    ll = lean_requests(c)
                    res['disagreements'].append((level + '-real-vs-model',
                                                 {'case': case_to_json(c) if len(ll) < 400 else case_desc(c),
                                                  'requests': ll[max(0, j - 8):j + 1], 'first_diff_line': j},
                                                 model[j] if j < len(model) else '(missing)', real[j] if j < len(real) else '(missing)'))
    finally:
        _uninstall_usb()
    return res


def _run_all(ctx, with_lean):
    import multiprocessing
    import os
    cases = gen_cases(ctx)
    # corpus first
    nw = max(1, min(8, (os.cpu_count() or 2) // 2))
    # interleave so that every chunk gets a similar mix (and the 2 s timeout cases spread over the workers)
    nchunks = nw * 4
    chunks = [cases[i::nchunks] for i in range(nchunks)]
    chunks = [c for c in chunks if c]
    results = None
    try:
        mp = multiprocessing.get_context('fork')
        with mp.Pool(nw) as pool:
            results = pool.map(_run_chunk, [(c, with_lean) for c in chunks], chunksize=1)
    except (OSError, ImportError) as e:
        ctx.note('worker pool unavailable (%s): running sequentially' % e)
    if results is None:
        results = [_run_chunk((c, with_lean)) for c in chunks]
    return cases, results


_CACHE = {}


def _report(ctx, results, correspondence):
    for r in results:
        for k, v in r['counts'].items():
            ctx.count(k, v)
        if correspondence:
            for k in r['keys']:
                ctx.case({'case-hash': k}, k)
        if correspondence:
            for (name, case, model, real) in r['disagreements']:
                ctx.disagree(name, case, model, real)
        for e in r['errors']:
            ctx.break_('correspondence' if correspondence else 'search', 'harness', e)


def correspond(ctx):
    cases, results = _run_all(ctx, True)
    _CACHE['results'] = results
    # a few readable samples for the evidence file
    pick = [c for c in cases if c['kind'] == 'closed'][300:302] + [c for c in cases if c['kind'] == 'closed' and c['full']][-40:-38] + \
        [c for c in cases if c['kind'] == 'l1'][:1] + [c for c in cases if c['kind'] == 'dec'][:1]
    for c in pick:
        ctx.samples.append(case_desc(c))
    _report(ctx, results, True)


def search(ctx):
    """The property itself on the real code (closed runs against the peer twin); needs no Lean."""
    results = _CACHE.get('results')
    if results is None:
        _, results = _run_all(ctx, False)
        _report(ctx, results, False)
    ws = [w for r in results for w in r['witnesses']]
    ws.sort(key=lambda w: (w[2].get('ops', 10 ** 6), w[0]))      # smallest (shrunk) witnesses first
    for (key, what, inp) in ws:
        ctx.witness(key, what, inp)


def replay(ctx, rp):
    """./check C01 --replay <file>: re-run the recorded case on the current tree; True iff it STILL FAILS (the property
    fails on the real code, or - when the Lean build is available - the model still disagrees with the real code)."""
    import json
    w = rp.get('witness') or {}
    inp = w.get('input') or {}
    if 'case' not in inp:
        cs = [d['case'] for b in rp.get('broken', []) if b.get('kind') == 'correspondence'
              for d in (json.loads(b['detail']) if b.get('detail', '').startswith('[') else []) if isinstance(d.get('case'), dict) and 'case' in d['case']]
        if not cs:
            print('replay file names no input (broken obligation only):', [b.get('name') for b in rp.get('broken', [])])
            print('run ./check C01 to re-check the obligations')
            return True
        inp = cs[0]
    case = case_from_json(inp['case'])
    try:
        real, fails = run_real(case)
    finally:
        _uninstall_usb()
    for ln in real:
        print('  real :', ln)
    ok = not fails
    for (key, what, det) in fails:
        print('PROPERTY FAILS [%s]: %s %s' % (key, what, det))
    try:
        model = ctx.lean(DRIVER, lean_requests(case))
        if model != real:
            ok = False
            j = next((i for i in range(min(len(model), len(real))) if model[i] != real[i]), min(len(model), len(real)))
            print('MODEL DISAGREES at line %d: model=%r real=%r' % (j, model[j] if j < len(model) else None, real[j] if j < len(real) else None))
    except Exception as e:
        print('(Lean driver not available: %s)' % str(e)[:200])
    return not ok

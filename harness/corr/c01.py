"""C01 - Radio link delivers every packet exactly once, in order, despite loss.

Tie A: the safelink header/bit expressions, the negotiation constants, the retry constant, the queue capacity, the
ack-status bit expressions of Crazyradio.send_packet and the CRTPPacket constructor expressions are re-extracted
from cflib/crtp/radiodriver.py, cflib/drivers/crazyradio.py and cflib/crtp/crtpstack.py into Gen/C01.lean.
Tie B: the REAL radio stack vs the Lean model (Driver/C01.lean), transmission by transmission:
  L1  real _RadioDriverThread on a scripted fake `radio` object (arbitrary answers: none / exception / any ack),
  L2  real RadioDriver.connect -> RadioManager -> _SharedRadio thread -> Crazyradio on a fake USB device behind which
      the Python twin of the safelink peer (Spec/C01.lean) and a scripted lossy channel live,
  dec real Crazyradio.send_packet ack decoding on arbitrary USB replies.
The fake's send/write call is the synchronisation point: the driver thread is blocked in it while the harness performs
the scripted RadioDriver.send_packet submissions, so every run is deterministic.
"""
import ast

from harness.lib import extract as X
from harness.lib.common import ExtractError, exc_enum, hexs  # noqa: F401

PID = 'C01'
LEAN_TARGETS = ['CfVerif.Props.C01']
PROPS_MODULES = ['CfVerif.Props.C01']
DRIVER = 'Driver/C01.lean'
REQUIRED_THEOREMS = ['CfVerif.C01.needs_resending_eq', 'CfVerif.C01.model_side_conditions']
TRUSTED = ['harness/corr/c01.py extractor + correspondence harness (fake radio / fake USB device, Python twin of the peer)',
           'queue.Queue(1) is a one-slot FIFO hand-off; a blocked put completes when the slot is freed',
           '_SharedRadio/_SharedRadioInstance/RadioManager forward send_packet unchanged (exercised by L2, not modelled)']
ASSUMPTIONS = ['PEER MODEL IS AN ASSUMPTION: the nRF51 ESB safelink handler of the Crazyflie (firmware not in this repo) is '
               'modelled in Spec/C01.lean from protocol knowledge: own up/down bits, uplink accepted iff its bit differs, '
               'downlink advanced iff the host down bit differs else last ack payload re-sent, counters reset by ff 05 01, '
               'idle ack = f3|down<<2 01 rssi',
               'channel: per transmission ok | uplink lost | ack lost; USB failures (ack None / exceptions) are link failures',
               'applications do not submit link-layer safelink control frames (3 bytes, port 15 channel 3, first data byte 5)',
               'submission timing is modelled at iteration granularity; the 2 s put timeout is an explicit model event; the '
               '10 ms idle relaxation and rate_limit sleeps are wall-clock only and outside the model']
RULE = ('cases = scripts of per-transmission (application ops, peer-queued packets, outcome): ALL outcome strings in '
        '{ok,upLost,ackLost}^k x submission masks for small k (L2), random longer scripts with blocking submissions, '
        'arbitrary/malformed answers incl. None and exceptions (L1), all 256 status bytes (dec); non-trivial = distinct script')


# ------------------------------------------------------------------------------------------------------
# Tie A
def _assigns(node):
    return {ast.unparse(n.targets[0]): n.value for n in ast.walk(node) if isinstance(n, ast.Assign) and len(n.targets) == 1}


def _ifs(node):
    return sorted((n for n in ast.walk(node) if isinstance(n, ast.If)), key=lambda n: (n.lineno, n.col_offset))


def _if_with(node, needle, what):
    hits = [n for n in _ifs(node) if needle in ast.unparse(n.test)]
    X.expect(len(hits) == 1, '%s: expected exactly one `if` mentioning %r, found %d' % (what, needle, len(hits)))
    return hits[0]


def _tr(e, env):
    """expr_to_lean with Subscript/Attribute source texts in `env` first replaced by plain names"""
    class R(ast.NodeTransformer):
        def generic_visit(self, n):
            if isinstance(n, (ast.Subscript, ast.Attribute)) and ast.unparse(n) in env:
                return ast.Name(id='__' + env[ast.unparse(n)], ctx=ast.Load())
            return super().generic_visit(n)
    import copy
    e2 = R().visit(copy.deepcopy(e))
    return X.expr_to_lean(e2, {'__' + v: v for v in env.values()})


def _int_tuple(e, what):
    try:
        v = ast.literal_eval(e)
    except Exception:
        raise ExtractError('%s: not a literal: %s' % (what, ast.unparse(e)))
    X.expect(isinstance(v, (tuple, list)) and all(isinstance(x, int) and 0 <= x < 256 for x in v), '%s: not a byte tuple' % what)
    return list(v)


def extract(ctx):
    g = X.GenFile(PID, ['cflib/crtp/radiodriver.py', 'cflib/drivers/crazyradio.py', 'cflib/crtp/crtpstack.py'])
    tree = X.parse('cflib/crtp/radiodriver.py')
    mod_consts = {}
    for n in tree.body:
        if isinstance(n, ast.Assign) and len(n.targets) == 1 and isinstance(n.targets[0], ast.Name):
            try:
                v = ast.literal_eval(n.value)
            except Exception:
                continue
            if isinstance(v, int) and not isinstance(v, bool):
                mod_consts[n.targets[0].id] = v
    X.expect('_nr_of_retries' in mod_consts, 'module constant _nr_of_retries not found')
    g.nat('nrOfRetries', mod_consts['_nr_of_retries'])
    setter = X.find(tree, 'set_retries_before_disconnect')
    g.string('setRetriesBody', '; '.join(ast.unparse(s) for s in setter.body))

    th = X.find(tree, '_RadioDriverThread')
    init = _assigns(X.find(th, '__init__'))
    for k in ('self._curr_up', 'self._curr_down', 'self._has_safelink', 'self._retry_before_disconnect', 'self._sp'):
        X.expect(k in init, '_RadioDriverThread.__init__: %s not assigned' % k)
    g.nat('initUp', ast.literal_eval(init['self._curr_up']))
    g.nat('initDown', ast.literal_eval(init['self._curr_down']))
    g.string('initSafelink', ast.unparse(init['self._has_safelink']))
    g.string('initRetry', ast.unparse(init['self._retry_before_disconnect']))

    # _send_packet_safe
    sps = X.find(th, '_send_packet_safe')
    X.expect([a.arg for a in sps.args.args] == ['self', 'cr', 'packet'], '_send_packet_safe: signature changed')
    augs = sorted((n for n in ast.walk(sps) if isinstance(n, ast.AugAssign)), key=lambda n: n.lineno)
    X.expect(len(augs) == 2 and all(ast.unparse(a.target) == 'packet[0]' for a in augs)
             and isinstance(augs[0].op, ast.BitAnd) and isinstance(augs[1].op, ast.BitOr),
             '_send_packet_safe: expected `packet[0] &= <mask>` then `packet[0] |= <bits>`')
    g.nat('safeMask', ast.literal_eval(augs[0].value))
    env = {'self._curr_up': 'up', 'self._curr_down': 'down'}
    g.raw('def safeBits (up down : Nat) : Nat := ' + X.expr_to_lean(augs[1].value, env))
    sends = [n for n in ast.walk(sps) if isinstance(n, ast.Call) and ast.unparse(n.func) == 'cr.send_packet']
    X.expect(len(sends) == 1 and sends[0].lineno > augs[1].lineno, '_send_packet_safe: header rewrite must precede the single cr.send_packet(packet)')
    g.strings('safeSendArgs', [ast.unparse(a) for a in sends[0].args])
    ifs = _ifs(sps)
    X.expect(len(ifs) == 2, '_send_packet_safe: expected two `if` statements (down flip, up flip)')
    g.string('flipDownCond', ast.unparse(ifs[0].test))
    g.string('flipDownBody', '; '.join(ast.unparse(s) for s in ifs[0].body))
    g.string('flipUpCond', ast.unparse(ifs[1].test))
    g.string('flipUpBody', '; '.join(ast.unparse(s) for s in ifs[1].body))
    cmp_ = [n for n in ast.walk(ifs[0].test) if isinstance(n, ast.Compare)]
    X.expect(len(cmp_) == 1 and isinstance(cmp_[0].ops[0], ast.Eq) and len(cmp_[0].comparators) == 1,
             '_send_packet_safe: expected one `==` comparison in the down-flip condition')
    g.raw('def downTag (d0 : Nat) : Nat := ' + _tr(cmp_[0].left, {'resp.data[0]': 'd0'}))
    g.raw('def downExpect (down : Nat) : Nat := ' + X.expr_to_lean(cmp_[0].comparators[0], env))
    rets = [n for n in ast.walk(sps) if isinstance(n, ast.Return)]
    X.expect(len(rets) == 1 and ast.unparse(rets[0].value) == 'resp', '_send_packet_safe: must return resp')

    # run(): negotiation
    run = X.find(th, 'run')
    ras = _assigns(run)
    X.expect('dataOut' in ras, 'run: dataOut initialisation not found')
    first_dataout = sorted((n for n in ast.walk(run) if isinstance(n, ast.Assign) and ast.unparse(n.targets[0]) == 'dataOut'),
                           key=lambda n: n.lineno)[0].value
    X.expect(isinstance(first_dataout, ast.Call) and len(first_dataout.args) == 2, 'run: dataOut = array.array(\'B\', [..]) expected')
    g.nats('initFrame', _int_tuple(first_dataout.args[1], 'initial dataOut'))
    fors = [n for n in ast.walk(run) if isinstance(n, ast.For)]
    neg = [f for f in fors if isinstance(f.iter, ast.Call) and ast.unparse(f.iter.func) == 'range']
    X.expect(len(neg) == 1 and len(neg[0].iter.args) == 1, 'run: expected one `for _ in range(<n>)` negotiation loop')
    g.nat('safelinkAttempts', ast.literal_eval(neg[0].iter.args[0]))
    nsend = [n for n in ast.walk(neg[0]) if isinstance(n, ast.Call) and ast.unparse(n.func) == 'self._radio.send_packet']
    X.expect(len(nsend) == 1 and len(nsend[0].args) == 1, 'run: negotiation must send exactly one packet per attempt')
    g.nats('safelinkReq', _int_tuple(nsend[0].args[0], 'safelink request'))
    nif = _ifs(neg[0])
    X.expect(len(nif) == 1, 'run: negotiation loop must contain one `if`')
    g.string('safelinkCond', ast.unparse(nif[0].test))
    ncmp = [n for n in ast.walk(nif[0].test) if isinstance(n, ast.Compare)]
    X.expect(len(ncmp) == 1 and isinstance(ncmp[0].ops[0], ast.Eq) and ast.unparse(ncmp[0].left) == 'tuple(resp.data)',
             'run: negotiation must compare tuple(resp.data) == <echo>')
    g.nats('safelinkEcho', _int_tuple(ncmp[0].comparators[0], 'safelink echo'))
    nb = _assigns(nif[0])
    X.expect(set(nb) == {'self._has_safelink', 'self._curr_up', 'self._curr_down'} and isinstance(nif[0].body[-1], ast.Break),
             'run: negotiation success branch changed: ' + '; '.join(ast.unparse(s) for s in nif[0].body))
    g.string('confirmSafelink', ast.unparse(nb['self._has_safelink']))
    g.nat('confirmUp', ast.literal_eval(nb['self._curr_up']))
    g.nat('confirmDown', ast.literal_eval(nb['self._curr_down']))
    X.expect('self._link.needs_resending' in ras, 'run: needs_resending assignment not found')
    g.string('needsResendingExpr', ast.unparse(ras['self._link.needs_resending']))

    # run(): data loop
    loops = [n for n in ast.walk(run) if isinstance(n, ast.While)]
    X.expect(len(loops) == 1, 'run: expected one while loop')
    loop = loops[0]
    order = []   # source order of the landmarks the model mirrors
    sl = _if_with(loop, 'self._has_safelink', 'run')
    g.string('sendSafe', '; '.join(ast.unparse(s) for s in sl.body))
    g.string('sendRaw', '; '.join(ast.unparse(s) for s in sl.orelse))
    order.append(('send', sl.lineno))
    n_none = _if_with(loop, 'ackStatus is None', 'run')
    g.string('noneBody', '; '.join(ast.unparse(s) for s in n_none.body if not (isinstance(s, ast.Expr) and 'logger' in ast.unparse(s))))
    order.append(('none', n_none.lineno))
    n_nack = _if_with(loop, 'ackStatus.ack', 'run')
    g.string('nackCond', ast.unparse(n_nack.test))
    X.expect(isinstance(n_nack.body[-1], ast.Continue), 'run: the not-acked branch must end in `continue`')
    nas = _assigns(n_nack)
    X.expect('self._retry_before_disconnect' in nas, 'run: retry decrement not found')
    g.string('retryDecr', ast.unparse(nas['self._retry_before_disconnect']))
    n_err = _if_with(n_nack, 'self._retry_before_disconnect', 'run')
    g.string('retryErrCond', ast.unparse(n_err.test))
    cb = [n for n in ast.walk(n_err) if isinstance(n, ast.Call) and ast.unparse(n.func) == 'self._link_error_callback']
    X.expect(len(cb) == 1, 'run: expected one link_error_callback call in the retry branch')
    g.string('retryErrMsg', ast.literal_eval(cb[0].args[0]))
    order.append(('nack', n_nack.lineno))
    resets = [n for n in loop.body if isinstance(n, ast.Assign) and ast.unparse(n.targets[0]) == 'self._retry_before_disconnect']
    X.expect(len(resets) == 1, 'run: expected one retry-counter reset directly in the loop body')
    g.string('retryReset', ast.unparse(resets[0].value))
    order.append(('reset', resets[0].lineno))
    n_data = _if_with(loop, 'len(data)', 'run')
    g.string('dataCond', ast.unparse(n_data.test))
    ctor = [n for n in ast.walk(n_data) if isinstance(n, ast.Call) and ast.unparse(n.func) == 'CRTPPacket']
    X.expect(len(ctor) == 1, 'run: expected one CRTPPacket(...) in the data branch')
    g.strings('inPacketArgs', [ast.unparse(a) for a in ctor[0].args])
    puts = [ast.unparse(n) for n in ast.walk(n_data) if isinstance(n, ast.Call) and ast.unparse(n.func) == 'self._in_queue.put']
    g.strings('inQueuePut', puts)
    order.append(('data', n_data.lineno))
    X.expect(ast.unparse(_assigns(loop).get('data', ast.Constant(None))) == 'ackStatus.data', 'run: data = ackStatus.data expected')
    gets = [n for n in ast.walk(loop) if isinstance(n, ast.Call) and ast.unparse(n.func) == 'self._out_queue.get']
    X.expect(len(gets) == 1, 'run: expected one out_queue.get')
    g.strings('outQueueGetArgs', [ast.unparse(a) for a in gets[0].args])
    order.append(('get', gets[0].lineno))
    n_out = _if_with(loop, 'outPacket', 'run')
    g.string('outPacketCond', ast.unparse(n_out.test))
    apps = [ast.unparse(n.args[0]) for n in ast.walk(n_out.body[0]) if isinstance(n, ast.Call) and ast.unparse(n.func) == 'dataOut.append']
    g.strings('frameHeaderAppend', apps)
    nulls = [n for n in ast.walk(n_out) if n in n_out.orelse or any(n is m for o in n_out.orelse for m in ast.walk(o))]
    nullapp = [ast.literal_eval(n.args[0]) for n in nulls if isinstance(n, ast.Call) and ast.unparse(n.func) == 'dataOut.append']
    X.expect(len(nullapp) == 1, 'run: expected one dataOut.append(<null header>) in the no-packet branch')
    g.nat('nullByte', nullapp[0])
    order.append(('build', n_out.lineno))
    g.strings('loopOrder', [k for k, _ in sorted(order, key=lambda kv: kv[1])])

    # RadioDriver: queue capacity, initial needs_resending, send_packet
    rd = X.find(tree, 'RadioDriver')
    cas = _assigns(X.find(rd, 'connect'))
    X.expect('self.out_queue' in cas and 'self.in_queue' in cas, 'RadioDriver.connect: queues not found')
    oq = cas['self.out_queue']
    X.expect(isinstance(oq, ast.Call) and len(oq.args) == 1, 'RadioDriver.connect: out_queue = queue.Queue(<n>) expected')
    g.nat('outQueueSize', ast.literal_eval(oq.args[0]))
    g.string('inQueueCtor', ast.unparse(cas['self.in_queue']))
    g.string('initNeedsResending', ast.unparse(_assigns(X.find(rd, '__init__'))['self.needs_resending']))
    sp = X.find(rd, 'send_packet')
    putc = [n for n in ast.walk(sp) if isinstance(n, ast.Call) and ast.unparse(n.func) == 'self.out_queue.put']
    X.expect(len(putc) == 1, 'RadioDriver.send_packet: expected one out_queue.put')
    g.strings('sendPutArgs', [ast.unparse(a) for a in putc[0].args])
    g.strings('sendReturns', [ast.unparse(n.value) for n in sorted((m for m in ast.walk(sp) if isinstance(m, ast.Return)), key=lambda m: m.lineno)])

    # Crazyradio.send_packet: ack decoding
    cr = X.parse('cflib/drivers/crazyradio.py')
    spk = X.find(cr, 'Crazyradio.send_packet')
    n_st = _if_with(spk, 'data[0]', 'Crazyradio.send_packet')
    g.string('statusCond', ast.unparse(n_st.test))
    sas = {ast.unparse(s.targets[0]): s.value for s in n_st.body if isinstance(s, ast.Assign)}
    X.expect(set(sas) == {'ackIn.ack', 'ackIn.powerDet', 'ackIn.retry', 'ackIn.data'}, 'Crazyradio.send_packet: ack fields changed: %s' % sorted(sas))
    envd = {'data[0]': 's'}

    def ne0(e, what):
        X.expect(isinstance(e, ast.Compare) and isinstance(e.ops[0], ast.NotEq) and ast.literal_eval(e.comparators[0]) == 0,
                 'Crazyradio.send_packet: %s is not `<expr> != 0`: %s' % (what, ast.unparse(e)))
        return e.left
    g.raw('def ackBit (s : Nat) : Nat := ' + _tr(ne0(sas['ackIn.ack'], 'ack'), envd))
    g.raw('def powerDetBit (s : Nat) : Nat := ' + _tr(ne0(sas['ackIn.powerDet'], 'powerDet'), envd))
    g.raw('def retryField (s : Nat) : Nat := ' + _tr(sas['ackIn.retry'], envd))
    g.string('ackPayload', ast.unparse(sas['ackIn.data']))
    g.string('noStatusBody', '; '.join(ast.unparse(s) for s in n_st.orelse))
    ra = X.find(cr, '_radio_ack')
    g.string('ackDefaults', '; '.join(ast.unparse(s) for s in ra.body))

    # CRTPPacket constructor header logic (received packets)
    c = X.find(X.parse('cflib/crtp/crtpstack.py'), 'CRTPPacket.__init__')
    cas = _assigns(c)
    envh = {'header': 'h'}
    g.raw('def crtpHeaderExpr (h : Nat) : Nat := ' + X.expr_to_lean(cas['self.header'], envh))
    g.raw('def crtpPortExpr (h : Nat) : Nat := ' + X.expr_to_lean(cas['self._port'], envh))
    g.raw('def crtpChanExpr (h : Nat) : Nat := ' + X.expr_to_lean(cas['self._channel'], envh))
    return {'C01.lean': g.render()}


# ------------------------------------------------------------------------------------------------------
# Tie B, level 1: the real _RadioDriverThread on a scripted fake radio
_MSG = {'Too many packets lost': 'tooManyLost', 'RadioDriver: Could not send packet to copter': 'couldNotSend'}


def _errkind(msg):
    msg = str(msg)
    if msg in _MSG:
        return _MSG[msg]
    if msg.startswith('Error communicating with crazy radio'):
        return 'usbException'
    return 'other(%s)' % msg[:40]


def _rd():
    import logging
    logging.disable(logging.CRITICAL)
    import cflib.crtp.radiodriver as rd
    return rd


class _ScriptedFault(Exception):
    pass


class Harness:
    """Shared by L1 and L2: application-side operations, event collection, deterministic teardown.
    Everything except `wait()` runs in the thread that executes the fake's send call, i.e. while the driver
    thread is blocked waiting for the radio's answer."""

    def __init__(self, driver, steps):
        import threading
        self.d = driver
        self.steps = steps
        self.i = 0
        self.errs = []
        self.lines = []          # reply lines, same shape as the Lean driver's
        self.cur = None          # events of the transmission in progress
        self.helper = None       # (thread, pkt, result-list, unfinished_tasks before the put)
        self.finished = threading.Event()
        self.threading = threading

    # --- callbacks / application side
    def on_error(self, msg):
        self.errs.append('err:' + _errkind(msg))

    def _mkpkt(self, hdr, data):
        from cflib.crtp.crtpstack import CRTPPacket
        pk = CRTPPacket()
        pk.header = hdr
        pk.data = bytearray(data)
        return pk

    def _qstate(self):
        q = self.d.out_queue
        with q.mutex:
            return q.unfinished_tasks, len(q.queue)

    def _helper_poll(self, must_finish=False):
        """returns the events produced by a blocked submission that has completed since the last poll"""
        if self.helper is None:
            return []
        th, pkt, res, u0 = self.helper
        unfinished, qsize = self._qstate()
        if must_finish or unfinished > u0 or qsize == 0 or not th.is_alive():
            th.join(30)
            if th.is_alive():
                raise RuntimeError('blocked submission did not complete')
            self.helper = None
            return ['%s:%d:%s' % ('acc' if res[0] else 'ref', pkt[0], hexs(pkt[1]))]
        return []

    def app(self, op):
        if op[0] == 'sub':
            _, hdr, data = op
            if self.helper is not None:
                self.lines.append('err unsupported')
                return
            if self.d.out_queue.full():
                res = []
                u0, _ = self._qstate()
                pk = self._mkpkt(hdr, data)
                th = self.threading.Thread(target=lambda: res.append(self.d.send_packet(pk)), daemon=True)
                self.helper = (th, (hdr, data), res, u0)
                th.start()
                self.lines.append('ok blk:%d:%s' % (hdr, hexs(data)))
            else:
                ok = self.d.send_packet(self._mkpkt(hdr, data))
                self.lines.append('ok %s:%d:%s' % ('acc' if ok else 'ref', hdr, hexs(data)))
        elif op[0] == 'timeout':
            if self.helper is None:
                self.lines.append('err unsupported')
                return
            evs = self._helper_poll(must_finish=True)     # waits for the real 2 s timeout
            self.lines.append('ok ' + ' '.join(self.errs + evs))
            self.errs = []
        else:
            raise ValueError(op)

    # --- per transmission
    def close_step(self):
        """called when the next send begins (or at the end): everything observed since the last tx"""
        if self.cur is None:
            return
        evs = list(self.cur)
        evs += self.errs
        self.errs = []
        while True:
            pk = self.d.receive_packet(0)
            if pk is None:
                break
            evs.append('rx:%d/%d/%d:%s' % (pk.header, pk.port, pk.channel, hexs(pk.data)))
        evs += self._helper_poll()
        self.lines.append('ok ' + ' '.join(evs))
        self.cur = None

    def begin_tx(self, frame):
        """returns the step to perform, or None when the script is over"""
        self.close_step()
        if self.i >= len(self.steps):
            return None
        st = self.steps[self.i]
        self.i += 1
        self.cur = ['tx:' + hexs(frame)]
        for op in st.get('apps', ()):
            self.app(op)
        return st

    def teardown(self):
        # release a still-blocked submission the way RadioDriver.close() does (drain the queue)
        if self.helper is not None:
            th = self.helper[0]
            for _ in range(1000):
                if not th.is_alive():
                    break
                try:
                    self.d.out_queue.get(False)
                except Exception:
                    pass
                th.join(0.01)
            self.helper = None


def run_l1(steps, nretries, state_line=True):
    """steps: [{'apps': [...], 'ans': ('none',) | ('exc',) | ('r', ack, bytes)}]; returns the reply lines"""
    import array
    import queue
    import threading
    rd = _rd()
    import cflib.drivers.crazyradio as cr
    rd.set_retries_before_disconnect(nretries)
    d = rd.RadioDriver()
    d.in_queue = queue.Queue()
    d.out_queue = queue.Queue(1)
    hz = Harness(d, steps)
    d.link_error_callback = hz.on_error
    holder = {}

    class FakeRadio:
        version = 0.53

        def send_packet(self, data):
            st = hz.begin_tx(bytes(bytearray(data)))
            if st is None:
                holder['t']._sp = True
                hz.finished.set()
                return None
            ans = st['ans']
            if ans[0] == 'none':
                return None
            if ans[0] == 'exc':
                raise _ScriptedFault('scripted')
            a = cr._radio_ack()
            a.ack = bool(ans[1])
            a.data = array.array('B', ans[2])
            a.retry = st.get('retry', 0)
            return a

        def close(self):
            pass

    t = rd._RadioDriverThread(FakeRadio(), d.in_queue, d.out_queue, None, hz.on_error, d, None)
    holder['t'] = t
    d._thread = t
    died = []
    old_hook = threading.excepthook
    threading.excepthook = lambda args: died.append(args.exc_type)
    try:
        t.start()
        t.join(120)
        if t.is_alive():
            raise RuntimeError('radio thread did not stop')
    finally:
        threading.excepthook = old_hook
        hz.teardown()
        rd.set_retries_before_disconnect(100)
    if not hz.finished.is_set():
        # the thread died inside run(): the open transmission is the last one
        hz.cur = (hz.cur or []) + ['died']
        hz.close_step()
    lines = hz.lines
    if state_line:
        lines.append('ok safelink=%d needs_resending=%d dead=%d' % (1 if t._has_safelink else 0, 1 if d.needs_resending else 0, 1 if died else 0))
    return lines


def lean_lines_l1(steps, nretries):
    out = ['reset %d' % nretries]
    for st in steps:
        for op in st.get('apps', ()):
            out.append('sub %d %s' % (op[1], hexs(op[2])) if op[0] == 'sub' else 'timeout')
        a = st['ans']
        out.append('tx ' + (a[0] if a[0] != 'r' else 'r %d %s' % (a[1], hexs(a[2]))))
    out.append('state')
    return out


def _rand_payload(rng, maxlen=6):
    return bytes(rng.randrange(256) for _ in range(rng.choice([0, 1, 1, 2, 3, maxlen])))


def gen_l1(rng, long=False):
    n = rng.choice([1, 1, 2, 3, 5])
    k = rng.randrange(0, 60 if long else 26)
    steps = []
    neg_over = rng.random() < 0.15 and None
    for i in range(k):
        apps = []
        for _ in range(rng.choice([0, 0, 0, 1, 1, 2, 3])):
            apps.append(('sub', rng.choice([0xFF, 0xF3, rng.randrange(256)]), _rand_payload(rng)))
        r = rng.random()
        if i < 10 and not neg_over:
            # negotiation-looking answers
            if r < 0.25:
                ans = ('r', rng.randrange(2), bytes([0xff, 0x05, 0x01]))
                neg_over = True
            elif r < 0.45:
                ans = ('r', 1, rng.choice([bytes([0xff, 0x05, 0x00]), bytes([0xff, 0x05]), bytes([0xff, 0x05, 0x01, 0x00]),
                                           bytes([0xf3, 0x05, 0x01]), b'']))
            elif r < 0.5:
                ans = ('none',)
            else:
                ans = ('r', 0, b'')
        else:
            if r < 0.04:
                ans = ('none',)
            elif r < 0.08 and i >= 10:
                ans = ('exc',)
            elif r < 0.40:
                ans = ('r', 0, b'' if rng.random() < 0.8 else _rand_payload(rng))
            elif r < 0.5:
                ans = ('r', 1, b'')
            else:
                hd = rng.choice([0xF3, 0xF7, 0xFF, 0xFB, rng.randrange(256)])
                ans = ('r', 1, bytes([hd]) + _rand_payload(rng))
        steps.append({'apps': apps, 'ans': ans})
    if rng.random() < 0.05:
        steps = steps[:rng.randrange(0, 9)]
        if not any(s['ans'][0] == 'r' and s['ans'][2] == bytes([0xff, 0x05, 0x01]) for s in steps):
            steps.append({'apps': [], 'ans': ('exc',)})      # exception during negotiation: the thread dies
    return steps, n


def _compare(ctx, name, desc, lean_reqs, model, real):
    if model != real:
        j = next((i for i in range(min(len(model), len(real))) if model[i] != real[i]), min(len(model), len(real)))
        ctx.disagree(name, {'desc': desc, 'requests': lean_reqs[max(0, j - 6):j + 1], 'first_diff_line': j},
                     model[j] if j < len(model) else '(missing)', real[j] if j < len(real) else '(missing)')
        return False
    return True


def correspond(ctx):
    rng = ctx.rng
    thorough = ctx.tier == 'thorough'
    cases = []
    for c in range(3000 if thorough else 500):
        steps, n = gen_l1(rng, long=(c % 5 == 0))
        cases.append((steps, n))
    reqs, spans = [], []
    for steps, n in cases:
        ll = lean_lines_l1(steps, n)
        spans.append((len(reqs), len(reqs) + len(ll)))
        reqs += ll
    replies = ctx.lean(DRIVER, reqs)
    for (steps, n), (a, b) in zip(cases, spans):
        model = replies[a + 1:b]
        real = run_l1(steps, n)
        ctx.case({'level': 'L1', 'n': n, 'steps': len(steps)}, ('L1', repr(steps), n))
        ctx.count('L1:scripts')
        for ln in real:
            for w in ln.split(' ')[1:]:
                ctx.count('L1:ev:' + w.split(':')[0].split('=')[0] + (':' + w.split(':')[1] if w.startswith('err:') else ''))
            if ln.startswith('err'):
                ctx.count('L1:' + ln)
        _compare(ctx, 'L1-thread-vs-model', {'n': n, 'steps': [(s['apps'], s['ans']) for s in steps][:40]}, reqs[a:b], model, real)


def search(ctx):
    pass

"""C02 - Connection lifecycle is well-formed and never hangs under any link fault.

Tie A: the state codes, the state-dependent fan-out table of `_link_error_cb`, the statement orders of
open_link / close_link / the set-up chain / the SyncCrazyflie callbacks, the TOC/memory loop conditions and
the *repair flags* (is D1/D2/D3/D4/D21/D22 repaired in this tree?) are re-extracted from the source into
Gen/C02.lean.  The Lean models are parameterised by the table and the flags; the theorems need the flags to
be `true` (small obligations in Props), so on an unrepaired tree the obligations break and search() supplies
the concrete failing input.
Tie B: (M1) the real Crazyflie + SyncCrazyflie driven single-threaded against the simulated device
(harness/sim) on op scripts, output equality with the Lean model (Driver/C02.lean); (M2) the real threads
under the virtual scheduler (harness/vsched), trace acceptance by the Lean thread model.
"""
import ast
import struct

from harness.lib import extract as X
from harness.lib.common import ExtractError  # noqa: F401

PID = 'C02'
LEAN_TARGETS = ['CfVerif.Props.C02']
PROPS_MODULES = ['CfVerif.Props.C02']
DRIVER = 'Driver/C02.lean'
REQUIRED_THEOREMS = ['CfVerif.C02.' + n for n in (
    'trace_wf', 'connected_only_when_tables_complete', 'fully_only_when_all_values', 'sync_open_returns',
    'fault_reaches_disconnected', 'link_error_outputs', 'fault_inside_open_link', 'sync_open_raises_on_fault_inside_open_link',
    'reconnectable', 'handshake_completes', 'in_callback_action', 'repaired_D28', 'early_fully_connected_counterexample', 'is_connected_only_while_connected', 'connected_ts_cleared_on_every_disconnected', 'repaired_D29', 'ext_type_confusion_counterexample',
    'completion_test_walks_the_table', 'param_updated_stores', 'repaired_D26', 'late_first_packet_cb_counterexample', 'aborted_fetcher_cannot_finish', 'aborted_fetcher_counterexample', 'repaired_D1', 'repaired_D21',
    'sync_open_hangs_counterexample', 'stale_fetcher_counterexample',
    'M2.repaired_D2_D3_D4_D22', 'M2.no_thread_death', 'M2.no_deadlock', 'M2.disconnected_in_bounded_steps',
    'M2.send_lock_deadlock_counterexample', 'M2.ping_self_join_counterexample', 'M2.dispatcher_death_counterexample',
    'M2.updater_death_counterexample', 'M2.mem_lock_self_deadlock_counterexample')]
TRUSTED = ['harness/corr/c02.py extractor + correspondence (incl. the sequentialisation of the blocked user thread in M1)',
           'harness/sim/crazyflie_device.py (simulated firmware, environment model: every request answered once, in order)',
           'harness/vsched (virtual scheduler; search / verdict-level agreement only)',
           'threading.Lock / RLock / Thread.join / Event semantics as modelled in Model/C02Sync and Model/C02 (Wrap)']
ASSUMPTIONS = ['usage: one user thread; open_link only when no link is open or the stored driver is dead (it failed during connect()); '
               'only a live driver reports errors, once (double open on a live link is outside)',
               'M1 operations are atomic; the threaded refinement has the known race D23 (callback of the dispatcher thread delivered '
               'after the end of the attempt signalled concurrently by another thread)',
               'M2: one link error per scenario; every interleaving of the threads of a scenario (<= 5 active threads), not of all six at once; '
               'atomicity at the level of sync operations and the reads of cf.link',
               'outside: retry timers (C10), duplicated / stale replies (C03), TOC cache hits (C11), 1-wire memories, user callbacks that raise']
RULE = ('M1: op scripts on the real Crazyflie+SyncCrazyflie against the simulated device: close_link / link error from INSIDE an '
        'all-packet or port callback of the incoming thread during the dispatch of the k-th packet for EVERY k (after the '
        'dispatcher\'s snapshot, before the fetchers\' callbacks); fault INSIDE open_link (error callback while '
        'get_link_driver()/connect() has not returned) and fault (driver thread / sending thread / close / '
        'blocking close) after the k-th pump step for EVERY k >= 0 of the handshake x plain / blocking open x 4-7 devices, each followed by a '
        'second attempt on the same object, no-driver / raising-driver attempts, and random connect/disconnect histories; compared per '
        'operation with the Lean model (callbacks, return/raise, state, link, is_link_open, is_connected, table sizes) and at the end '
        '(blocked?, WF verdict Lean vs Python twin).  M2: 10 thread scenarios x seeded random / guided schedules of the real threads under '
        'vsched, failure kinds vs the verdict of the Lean thread model.  distinct+non-trivial = distinct (case kind, device, executed script) '
        'resp. (scenario, seed)')
EXTRA_MODULES = ['CfVerif.Model.C02Sync', 'CfVerif.Proofs.C02Sync', 'CfVerif.Proofs.C02Live']

F_CF = 'cflib/crazyflie/__init__.py'
F_SYNC = 'cflib/crazyflie/syncCrazyflie.py'
F_TOC = 'cflib/crazyflie/toc.py'
F_PARAM = 'cflib/crazyflie/param.py'
F_MEM = 'cflib/crazyflie/mem/__init__.py'
F_STAT = 'cflib/crazyflie/link_statistics.py'
F_PLAT = 'cflib/crazyflie/platformservice.py'


# ======================================================================================================
# Tie A
# ======================================================================================================
def _stmts(fn):
    """top-level statements of a function, docstring dropped"""
    body = list(fn.body)
    if body and isinstance(body[0], ast.Expr) and isinstance(body[0].value, ast.Constant) and isinstance(body[0].value.value, str):
        body = body[1:]
    return body


def _walk_stmts(nodes):
    """all statements under `nodes` in source order (pre-order), without descending into nested defs/lambdas"""
    out = []
    for n in nodes:
        out.append(n)
        for field in ('body', 'orelse', 'handlers', 'finalbody'):
            sub = getattr(n, field, None)
            if sub and not isinstance(n, (ast.FunctionDef, ast.Lambda)):
                out += _walk_stmts([s for s in sub if isinstance(s, (ast.stmt, ast.ExceptHandler))])
    return out


def _key_events(fn, keys):
    """the order in which the `keys` (substrings) occur in the simple statements of fn: a refactor that keeps
    the order of the relevant actions does not change the result"""
    res = []
    for s in _walk_stmts(_stmts(fn)):
        if isinstance(s, (ast.If, ast.Try, ast.ExceptHandler, ast.For, ast.While, ast.With, ast.FunctionDef, ast.Import, ast.ImportFrom)):
            continue
        txt = ast.unparse(s)
        for k in keys:
            if k in txt:
                res.append(k)
                break
    return res


def _state_codes(test):
    """`self.state == State.X [or self.state == State.Y ...]` -> ['X', 'Y']"""
    parts = test.values if isinstance(test, ast.BoolOp) and isinstance(test.op, ast.Or) else [test]
    names = []
    for p in parts:
        X.expect(isinstance(p, ast.Compare) and len(p.ops) == 1 and isinstance(p.ops[0], ast.Eq)
                 and ast.unparse(p.left) == 'self.state' and ast.unparse(p.comparators[0]).startswith('State.'),
                 '_link_error_cb: unexpected branch condition ' + ast.unparse(test))
        names.append(ast.unparse(p.comparators[0])[len('State.'):])
    return names


def _caller_calls(nodes):
    res = []
    for s in _walk_stmts(nodes):
        if isinstance(s, ast.Expr) and isinstance(s.value, ast.Call):
            f = ast.unparse(s.value.func)
            if f.startswith('self.') and f.endswith('.call'):
                res.append(f[len('self.'):-len('.call')])
    return res


def _has(fn, text):
    return any(text in ast.unparse(s) for s in _walk_stmts(_stmts(fn)) if not isinstance(s, (ast.If, ast.Try, ast.While, ast.For, ast.With)))


def _bool(b):
    return 'true' if b else 'false'


def extract(ctx):
    g = X.GenFile(PID, [F_CF, F_SYNC, F_TOC, F_PARAM, F_MEM, F_STAT, F_PLAT])
    cf = X.parse(F_CF)
    # -- state codes ------------------------------------------------------------------------------------
    codes = X.int_assigns(X.find(cf, 'State'))
    for n in ('DISCONNECTED', 'INITIALIZED', 'CONNECTED', 'SETUP_FINISHED'):
        X.expect(n in codes, 'State.%s missing' % n)
    g.nat('stDisconnected', codes['DISCONNECTED'])
    g.nat('stInitialized', codes['INITIALIZED'])
    g.nat('stConnected', codes['CONNECTED'])
    g.nat('stSetupFinished', codes['SETUP_FINISHED'])
    C = X.find(cf, 'Crazyflie')
    # every assignment to self.state in the class (the model's `st` takes exactly these values)
    assigned = sorted({ast.unparse(n.value) for n in ast.walk(C) if isinstance(n, ast.Assign)
                       and any(ast.unparse(t) == 'self.state' for t in n.targets)})
    g.strings('stateAssignments', assigned)
    # -- _link_error_cb -----------------------------------------------------------------------------------
    le = X.find(C, '_link_error_cb')
    body = _stmts(le)
    deferred = False
    if body and isinstance(body[0], ast.If) and '_send_lock_owner' in ast.unparse(body[0].test) \
            and isinstance(body[0].body[-1], ast.Return) and not body[0].orelse:
        deferred = True
        body = body[1:]
    chain = [s for s in body if isinstance(s, ast.If) and 'self.state' in ast.unparse(s.test)]
    X.expect(len(chain) == 1, '_link_error_cb: expected one if/elif chain on self.state')
    idx = body.index(chain[0])
    pre = [k for s in body[:idx] for k in ('self.link.close()', 'self.link = None') if k in ast.unparse(s)]
    g.strings('errPrelude', pre)
    table = []
    node = chain[0]
    while True:
        table.append((_state_codes(node.test), _caller_calls(node.body)))
        if len(node.orelse) == 1 and isinstance(node.orelse[0], ast.If):
            node = node.orelse[0]
        else:
            X.expect(not node.orelse, '_link_error_cb: unexpected else branch')
            break
    g.raw('def errFanout : List (List Nat × List String) := [' + ', '.join(
        '(%s, %s)' % (X.lnats([codes[n] for n in names]), X.lstrs(calls)) for names, calls in table) + ']')
    post = [ast.unparse(s) for s in body[idx + 1:] if not (isinstance(s, ast.Expr) and 'logger' in ast.unparse(s))]
    g.strings('errPost', post)
    # -- open_link / close_link / first packet ---------------------------------------------------------------
    g.strings('openSeq', _key_events(X.find(C, 'open_link'), [
        'connection_requested.call', 'self.state = State.', 'self.link_uri = ', 'get_link_driver', 'connection_failed.call',
        'self.incoming.start()', 'add_callback(self._check_for_initial_packet_cb)', '_start_connection_setup()',
        'self.link.close()', 'self.link = None']))
    g.strings('closeSeq', _key_events(X.find(C, 'close_link'), [
        'send_setpoint', 'self.link.close()', 'self.link = None', 'self.disconnected.call', 'self.state = State.']))
    cl = X.find(C, 'close_link')
    g.strings('closeStates', sorted({ast.unparse(n.value) for n in ast.walk(cl) if isinstance(n, ast.Assign)
                                     and any(ast.unparse(t) == 'self.state' for t in n.targets)}))
    g.strings('closeGuards', [ast.unparse(s.test) for s in _stmts(cl) if isinstance(s, ast.If)])
    ip = X.find(C, '_check_for_initial_packet_cb')
    ip_body = _stmts(ip)
    guard = bool(ip_body) and isinstance(ip_body[0], ast.If) and ast.unparse(ip_body[0].test) in ('self.link is None', 'not self.link') \
        and isinstance(ip_body[0].body[-1], ast.Return) and not ip_body[0].orelse
    g.raw('def firstPacketCbChecksLink : Bool := ' + _bool(guard))
    g.strings('firstPacketSeq', [ast.unparse(s) for s in (ip_body[1:] if guard else ip_body)])
    ctor = X.find(C, '__init__')
    g.strings('ctorPacketReceivedCbs', [ast.unparse(n.args[0]) for n in ast.walk(ctor) if isinstance(n, ast.Call)
                                        and ast.unparse(n.func) == 'self.packet_received.add_callback'])
    dcbs = []
    for n in ast.walk(ctor):
        if isinstance(n, ast.Call) and ast.unparse(n.func) == 'self.disconnected.add_callback':
            a = n.args[0]
            dcbs.append((n.lineno, ast.unparse(a.body) if isinstance(a, ast.Lambda) else ast.unparse(a)))
    g.strings('ctorDisconnectedCbs', [t for _, t in sorted(dcbs) if 'logger' not in t])
    # `is_connected()` (connected_ts) is cleared on EVERY `disconnected` (close_link and link errors alike): by a method
    # registered on the Caller in the constructor that assigns `self.connected_ts = None`
    clears = False
    for _, t in dcbs:
        if t.startswith('self.') and '(' not in t:
            m = [n for n in C.body if isinstance(n, ast.FunctionDef) and n.name == t[len('self.'):]]
            clears = clears or any('self.connected_ts = None' == ast.unparse(x) for fn in m for x in _walk_stmts(_stmts(fn)))
    g.raw('def connectedTsClearedOnDisconnected : Bool := ' + _bool(clears))
    ptu = X.find(C, '_param_toc_updated_cb')
    seq = _key_events(ptu, ['self.connected_ts = ', 'self.connected.call'])
    g.raw('def connectedTsSetBeforeConnected : Bool := ' + _bool(seq[:2] == ['self.connected_ts = ', 'self.connected.call']))
    ccbs = []
    for n in ast.walk(ctor):
        if isinstance(n, ast.Call) and ast.unparse(n.func) == 'self.connected.add_callback':
            a = n.args[0]
            ccbs.append((n.lineno, ast.unparse(a.body) if isinstance(a, ast.Lambda) else ast.unparse(a)))
    g.strings('ctorConnectedCbs', [t for _, t in sorted(ccbs) if 'logger' not in t])
    # -- the set-up chain: what each step calls next ------------------------------------------------------------
    chain_fns = ['_start_connection_setup', '_platform_info_fetched', '_log_toc_updated_cb', '_mems_updated_cb',
                 '_param_toc_updated_cb', '_all_parameters_updated']
    links = []
    for fn in chain_fns:
        calls = []
        for s in _stmts(X.find(C, fn)):
            if isinstance(s, ast.Expr) and isinstance(s.value, ast.Call) and 'logger' not in ast.unparse(s.value.func):
                c = s.value
                calls.append(ast.unparse(c.func)[len('self.'):] + '(' + ','.join(
                    ast.unparse(a)[len('self.'):] for a in c.args if ast.unparse(a).startswith('self._') and ast.unparse(a).endswith(('_cb', '_fetched'))) + ')')
        links.append(fn + ' -> ' + ' ; '.join(calls))
    g.strings('setupChain', links)
    g.strings('allUpdatedHook', [ast.unparse(n.args[0]) for n in ast.walk(ctor) if isinstance(n, ast.Call)
                                 and ast.unparse(n.func) == 'self.param.all_updated.add_callback'])
    # -- send_packet: lock discipline (D2) -----------------------------------------------------------------------
    sp = X.find(C, 'send_packet')
    fin = False
    for n in ast.walk(sp):
        if isinstance(n, ast.Try) and any('_send_lock.release()' in ast.unparse(s) for s in n.finalbody):
            fin = True
        if isinstance(n, ast.With) and any('_send_lock' in ast.unparse(i.context_expr) for i in n.items):
            fin = True
    g.raw('def sendLockReleasedInFinally : Bool := ' + _bool(fin))
    # the error fan-out is run after the lock has been released (deferred), not from within link.send_packet
    runs_deferred = deferred and any(isinstance(s, ast.If) and '_link_error_cb' in ast.unparse(s) for s in _stmts(sp))
    g.raw('def sendErrorDeferred : Bool := ' + _bool(runs_deferred))
    # -- dispatcher (D3): self.cf.link read once per iteration ------------------------------------------------------
    run = X.find(cf, '_IncomingPacketHandler.run')
    reads = [n for n in ast.walk(run) if isinstance(n, ast.Attribute) and ast.unparse(n) == 'self.cf.link']
    g.nat('dispatcherLinkReads', len(reads))
    g.strings('dispatcherCompares', [c for c in X.compares(run) if 'link' in c or 'pk is None' in c])
    # -- SyncCrazyflie ---------------------------------------------------------------------------------------------
    sc = X.find(X.parse(F_SYNC), 'SyncCrazyflie')
    keys = ['self._is_link_open = True', 'self._is_link_open = False', 'self._connect_event.set()', 'self._disconnect_event.set()',
            'self._remove_callbacks()', 'self._params_updated_event.set()']
    g.strings('syncConnected', _key_events(X.find(sc, '_connected'), keys))
    g.strings('syncConnectionFailed', _key_events(X.find(sc, '_connection_failed'), keys))
    g.strings('syncDisconnected', _key_events(X.find(sc, '_disconnected'), keys))
    g.raw('def syncDisconnectedSetsConnectEvent : Bool := ' + _bool(_has(X.find(sc, '_disconnected'), 'self._connect_event.set()')))
    g.strings('syncOpenSeq', _key_events(X.find(sc, 'open_link'), [
        "raise Exception('Link already open')", 'self._add_callbacks()', 'self._connect_event = Event()', 'self.cf.open_link(',
        'self._connect_event.wait()', 'self._connect_event = None', 'self._remove_callbacks()', 'raise Exception(self._error_message)']))
    g.strings('syncOpenGuards', [ast.unparse(s.test) for s in _stmts(X.find(sc, 'open_link')) if isinstance(s, ast.If)])
    g.strings('syncCloseSeq', _key_events(X.find(sc, 'close_link'), [
        'self._disconnect_event = Event()', 'self.cf.close_link()', 'self._disconnect_event.wait()', 'self._disconnect_event = None']))
    g.strings('syncCloseGuards', [ast.unparse(s.test) for s in _stmts(X.find(sc, 'close_link')) if isinstance(s, ast.If)])
    addcb = X.find(sc, '_add_callbacks')
    g.strings('syncAddCallbacks', [ast.unparse(s.value.func)[len('self.cf.'):-len('.add_callback')] + ':' + ast.unparse(s.value.args[0])
                                   for s in _stmts(addcb) if isinstance(s, ast.Expr) and isinstance(s.value, ast.Call)])
    # -- TOC fetcher / memories / parameters: loop conditions and abort-on-disconnect (D21) -----------------------------
    tf = X.find(X.parse(F_TOC), 'TocFetcher')
    g.strings('tocCompares', [c for c in X.compares(X.find(tf, '_new_packet_cb')) if 'nbr_of_items' in c or 'requested_index' in c])
    def method(cls, name):
        for n in cls.body:
            if isinstance(n, ast.FunctionDef) and n.name == name:
                return n
        return None

    def unguarded_stmts(cls, fn, depth=2):
        """simple statements that run unconditionally and outside any try block when `fn` is called, in order,
        following calls of the class's own helper methods (`self.helper()`)"""
        out = []
        for st in _stmts(fn):
            if isinstance(st, (ast.If, ast.Try, ast.For, ast.While, ast.With)):
                out.append(('compound', ast.unparse(st)))
                continue
            txt = ast.unparse(st)
            callee = None
            if isinstance(st, ast.Expr) and isinstance(st.value, ast.Call) and isinstance(st.value.func, ast.Attribute) \
                    and ast.unparse(st.value.func.value) == 'self' and not st.value.args:
                callee = method(cls, st.value.func.attr)
            if callee is not None and depth > 0:
                out += unguarded_stmts(cls, callee, depth - 1)
            else:
                out.append(('simple', txt))
        return out

    def reaches(cls, fn, text, depth=2):
        """`text` occurs in a statement of fn or of a helper method it calls"""
        if _has(fn, text):
            return True
        if depth > 0:
            for n in ast.walk(fn):
                if isinstance(n, ast.Call) and isinstance(n.func, ast.Attribute) and ast.unparse(n.func.value) == 'self':
                    m = method(cls, n.func.attr)
                    if m is not None and m is not fn and reaches(cls, m, text, depth - 1):
                        return True
        return False
    disc_cbs = [n for n in tf.body if isinstance(n, ast.FunctionDef) and n.name != '_toc_fetch_finished'
                and ('self.cf.disconnected.add_callback(self.%s)' % n.name) in ast.unparse(X.find(tf, 'start'))]
    g.raw('def tocFetcherAbortsOnDisconnect : Bool := ' + _bool(
        _has(X.find(tf, 'start'), 'self.cf.disconnected.add_callback(') and any(reaches(tf, n, 'remove_port_callback') for n in disc_cbs)))
    # an aborted fetcher is still in the dispatcher's snapshot for the packet being dispatched; what stops it from running
    # its finished callback: an unconditional, unguarded `disconnected.remove_callback(self.<abort cb>)` (ValueError when
    # it was already removed by the abort) before `finished_callback()`, or an explicit "aborted" test that returns
    fin = X.find(tf, '_toc_fetch_finished')
    before = []
    for kind, txt in unguarded_stmts(tf, fin):
        if 'finished_callback(' in txt:
            break
        before.append((kind, txt))
    raises_when_aborted = any(kind == 'simple' and 'self.cf.disconnected.remove_callback(self.' in txt for kind, txt in before)

    def abort_test(fn):
        body = _stmts(fn)
        return bool(body) and isinstance(body[0], ast.If) and 'abort' in ast.unparse(body[0].test).lower() \
            and any(isinstance(x, ast.Return) for x in body[0].body)
    g.raw('def abortedTocFetcherCannotFinish : Bool := ' + _bool(
        raises_when_aborted or abort_test(fin) or abort_test(X.find(tf, '_new_packet_cb'))))
    pm = X.parse(F_PARAM)
    ef = X.find(pm, '_ExtendedTypeFetcher')
    ext_abort = False
    for n in ef.body:
        if isinstance(n, ast.FunctionDef) and ('self._cf.disconnected.add_callback(self.%s)' % n.name) in ast.unparse(X.find(ef, '__init__')):
            closes = _has(n, 'self._close()') and _has(X.find(ef, '_close'), 'remove_port_callback')
            ext_abort = ext_abort or closes or _has(n, 'remove_port_callback')
    g.raw('def extFetcherAbortsOnDisconnect : Bool := ' + _bool(ext_abort))
    ef_cb = X.find(ef, '_new_packet_cb')
    ef_first = _stmts(ef_cb)[0] if _stmts(ef_cb) else None
    g.raw('def extCbChecksCommand : Bool := ' + _bool(isinstance(ef_first, ast.If) and 'MISC_GET_EXTENDED_TYPE' in ast.unparse(ef_first.test)))
    g.strings('extCompares', [c for c in X.compares(X.find(ef, '_new_packet_cb')) if '_count' in c or '_req_param' in c])
    P = X.find(pm, 'Param')
    g.strings('paramDisconnected', _key_events(X.find(P, '_disconnected'), ['self.param_updater.close()', 'self.toc = Toc()', 'self.values = {}']))
    g.strings('paramConnectionRequested', _key_events(X.find(P, '_connection_requested'), ['self.is_updated = False', 'self.toc = Toc()', 'self.values = {}']))
    conds = [n.test for n in ast.walk(X.find(P, '_param_updated')) if isinstance(n, ast.If) and 'is_updated' in ast.unparse(n.test)]
    X.expect(len(conds) == 1, 'Param._param_updated: expected exactly one completion test mentioning is_updated')
    conj = [ast.unparse(v) for v in (conds[0].values if isinstance(conds[0], ast.BoolOp) and isinstance(conds[0].op, ast.And) else [conds[0]])]
    # the completion test: [guard: only once connected (D28)] + the TOC walk + not yet signalled
    g.raw('def allUpdatedRequiresConnected : Bool := ' + _bool('self.cf.is_connected()' in conj))
    g.strings('paramAllUpdatedCond', [c for c in conj if c != 'self.cf.is_connected()'])
    # ... and how the walk decides: every element of the TOC must have a value
    g.strings('checkAllUpdatedBody', [ast.unparse(x) for x in _stmts(X.find(P, '_check_if_all_updated'))])
    pu_fn = X.find(P, '_param_updated')
    g.strings('paramUpdatedStores', [ast.unparse(x) for x in _walk_stmts(_stmts(pu_fn)) if isinstance(x, ast.Assign)
                                     and 'self.values[' in ast.unparse(x.targets[0])])
    g.strings('paramCtorCbs', [ast.unparse(n.func)[len('self.cf.'):-len('.add_callback')] + ':' + ast.unparse(n.args[0])
                               for n in ast.walk(X.find(P, '__init__')) if isinstance(n, ast.Call) and ast.unparse(n.func).startswith('self.cf.')
                               and ast.unparse(n.func).endswith('.add_callback')])

    def guarded_release(fn, lock):
        """every `<lock>.release()` in the `else` branch of the link test of run() sits in a try/except"""
        ok, seen = True, False
        for n in ast.walk(fn):
            if isinstance(n, ast.If) and 'link' in ast.unparse(n.test):
                for s in n.orelse:
                    if lock + '.release()' in ast.unparse(s):
                        seen = True
                        ok = ok and isinstance(s, ast.Try)
        return seen and ok
    pu = X.find(pm, '_ParamUpdater')
    g.raw('def updaterReleaseGuarded : Bool := ' + _bool(guarded_release(X.find(pu, 'run'), 'self.wait_lock')))
    g.raw('def extReleaseGuarded : Bool := ' + _bool(guarded_release(X.find(ef, 'run'), 'self._lock')))
    g.strings('updaterCloseSeq', _key_events(X.find(pu, 'close'), ['self.request_queue.get(block=False)', 'self.wait_lock.release()']))
    mm = X.find(X.parse(F_MEM), 'Memory')
    g.strings('memCompares', [c for c in X.compares(X.find(mm, '_handle_cmd_info_nbr')) + X.compares(X.find(mm, '_handle_cmd_info_details'))
                              if 'nbr_of_mems' in c])
    mlock = [ast.unparse(n.value.func) for n in ast.walk(X.find(mm, '__init__')) if isinstance(n, ast.Assign)
             and ast.unparse(n.targets[0]) == 'self._write_requests_lock' and isinstance(n.value, ast.Call)]
    X.expect(len(mlock) == 1, 'Memory.__init__: _write_requests_lock not found')
    g.raw('def memLockReentrant : Bool := ' + _bool(mlock[0].endswith('RLock')))
    g.strings('memDisconnected', _key_events(X.find(mm, '_disconnected'), ['self._call_all_failed_callbacks()', 'self._clear_state()']))
    # -- latency ping thread (D2): stop() must not join the calling thread ------------------------------------------------
    lat = X.find(X.parse(F_STAT), 'Latency')
    stop = X.find(lat, 'stop')
    self_join_guard = any(isinstance(n, ast.If) and 'current_thread()' in ast.unparse(n.test) and
                          any('.join()' in ast.unparse(s) for s in n.body) for n in ast.walk(stop))
    joins = any('.join()' in ast.unparse(s) for s in _walk_stmts(_stmts(stop)) if isinstance(s, ast.Expr))
    g.raw('def pingStopJoins : Bool := ' + _bool(joins))
    g.raw('def pingStopGuardsSelfJoin : Bool := ' + _bool(self_join_guard or not joins))
    g.strings('pingLoopCond', [ast.unparse(n.test) for n in ast.walk(X.find(lat, '_ping_thread')) if isinstance(n, ast.While)])
    # -- platform service ---------------------------------------------------------------------------------------------------
    ps = X.find(X.parse(F_PLAT), 'PlatformService')
    g.strings('platformCompares', X.compares(X.find(ps, '_crt_service_callback')) + X.compares(X.find(ps, '_platform_callback')))
    return {'C02.lean': g.render()}


# ======================================================================================================
# Tie B, layer M1: the real Crazyflie / SyncCrazyflie, single-threaded, against the simulated device
# ======================================================================================================
class Blocked(BaseException):
    """a blocking SyncCrazyflie call is still waiting when the op script is exhausted"""


ST_NAMES = {0: 'disc', 1: 'init', 2: 'conn', 3: 'setup_finished'}


def dev_line(dev):
    magic, nlog, nmem, ext = dev
    return 'dev %d %d %d %s' % (1 if magic else 0, nlog, nmem, ''.join('1' if b else '0' for b in ext) or '-')


def make_device(dev):
    from harness.sim import crazyflie_device as sim
    magic, nlog, nmem, ext = dev
    logs = [sim.LogVar('lg', 'v%d' % i, ['float', 'uint8_t', 'int16_t'][i % 3], i) for i in range(nlog)]
    pars = [sim.ParamVar('pg', 'p%d' % i, ['uint8_t', 'uint16_t', 'float', 'int32_t'][i % 4], i, extended=bool(b), persistent=bool(b) and i % 2 == 0)
            for i, b in enumerate(ext)]
    mems = [sim.Mem([0, 0x10, 0x11, 0x12][j % 4], data=bytes(8)) for j in range(nmem)]
    return sim.CrazyflieDevice(protocol_version=5 if magic else 2, log_toc=logs, param_toc=pars, mems=mems,
                               link_source=b'Bitcraze Crazyflie' if magic else b'some other firmware')


class M1Real:
    """executes an op script on the real library; one output line per executed op (same format as Driver/C02)"""

    def __init__(self, dev):
        import logging
        logging.disable(logging.CRITICAL)
        from harness.sim import crazyflie_device as sim
        self.sim = sim
        self.sess = sim.SyncSession(make_device(dev))
        self.cf = self.sess.cf
        runner = self

        class HookList(list):
            def append(self, link):           # a new SimLink was created by cflib.crtp.get_link_driver
                runner._hook_link(link)
                list.append(self, link)
        self.sess.cfg.links = HookList()
        import cflib.crazyflie.syncCrazyflie as scmod
        self.scmod = scmod

        class PumpEvent:
            """stand-in for threading.Event in syncCrazyflie: wait() lets the rest of the op script run (the
            other threads), until the event is set; nothing left to run = blocked for ever"""

            def __init__(self):
                self.flag = False

            def set(self):
                self.flag = True

            def clear(self):
                self.flag = False

            def is_set(self):
                return self.flag

            def wait(self, timeout=None):
                if not self.flag and runner.blocking_rec is not None and runner.blocking_rec[2] is None:
                    runner.blocking_rec[2] = runner._state()      # the state when the call starts to wait
                runner.waiting.append(self)
                try:
                    while not self.flag:
                        if not runner._next_op():
                            raise Blocked()
                finally:
                    runner.waiting.pop()
                return True
        self.PumpEvent = PumpEvent
        self.armed = False
        self.fail_in_connect = False
        self.waiting = []
        self.lines = []          # [(op, [outputs])]
        self.cur = None
        self.script = []
        self.pos = 0
        self.executed = []
        self.stale_log_toc = None
        self.blocked = None
        self.blocking_rec = None
        self.snapshots = []      # table sizes at every connected / fully_connected
        self.ext_pending_at_connected = []
        # observe the public Callers (after the library's own callbacks, before the wrapper's)
        names = {'connection_requested': 'connection_requested', 'connection_failed': 'connection_failed',
                 'link_established': 'link_established', 'connected': 'connected', 'fully_connected': 'fully_connected',
                 'disconnected': 'disconnected', 'connection_lost': 'connection_lost',
                 'disconnected_link_error': 'disconnected_link_error'}
        for attr, name in names.items():
            getattr(self.cf, attr).add_callback(lambda *a, _n=name: self._out(_n))
        # the application's own packet callbacks, registered after the object is built (as an application does): the
        # all-packet one runs after the library's, the port ones after the library's static port callbacks and BEFORE
        # the fetchers registered during the connection.  They perform the pending in-callback action of a `dact` op.
        self.pending = None
        self.strict_usage = True
        self.cf.param.all_updated.add_callback(lambda: self._out('all_updated'))
        self.dev = dev
        self.cf.packet_received.add_callback(lambda pk: self._user_cb('a'))
        for port in (15, 13, 5, 4, 2):
            self.cf.add_port_callback(port, lambda pk: self._user_cb('p'))
        old = scmod.Event
        scmod.Event = PumpEvent
        try:
            self.scf = scmod.SyncCrazyflie(self.sess.uri, cf=self.cf)
        finally:
            scmod.Event = old

    # -- plumbing --
    def _out(self, name):
        if name == 'connection_requested':
            self.stale_log_toc = self.cf.log.toc       # the table of the previous connection, if any
        if name in ('connected', 'fully_connected', 'all_updated'):
            cf = self.cf
            toc = cf.log.toc
            missing = sorted('%s.%s' % (g, n) for g in cf.param.toc.toc for n in cf.param.toc.toc[g]
                             if n not in cf.param.values.get(g, {}))
            self.snapshots.append((name, 0 if toc is None else sum(len(g) for g in toc.toc.values()),
                                   sum(len(g) for g in cf.param.toc.toc.values()), sum(len(g) for g in cf.param.values.values()),
                                   missing, cf.is_connected()))
        if name == 'connected':
            # extended-type requests the device has answered so far in this link vs the extended parameters
            link = self.link
            answered = {struct.unpack('<H', d[1:3])[0] for (p_, c_, d) in (link.delivered if link else []) if p_ == 2 and c_ == 3 and d[:1] == b'\x02'}
            self.ext_pending_at_connected = [i for i, b in enumerate(self.dev[3]) if b and i not in answered]
        if name == 'all_updated':
            return
        self.cur.append(name)

    def _user_cb(self, pos):
        if self.pending is None or self.pending[0] != pos:
            return
        act = self.pending[1]
        self.pending = None
        if act == 'close':
            self._out('CLOSE-CALLED')
            self.cf.close_link()
        elif self.cf.link is not None:
            self.cf.link.error_cb('simulated error reported from inside a callback')

    def _hook_link(self, link):
        runner = self
        orig_cb = link.error_cb

        def error_cb(msg):
            runner._out('LINK-ERROR')
            return orig_cb(msg)
        link.error_cb = error_cb
        if self.fail_in_connect:
            # the link fails while connect() / get_link_driver() has not returned: cf.link is still the old value
            self.fail_in_connect = False
            link.failed = True
            link.error_cb('simulated error reported during connect()')
        orig_send = link.send_packet

        def send_packet(pk):
            if runner.armed and not link.closed and not link.failed:
                runner.armed = False
                link.failed = True
                link.error_cb('simulated error reported while sending')
                return
            return orig_send(pk)
        link.send_packet = send_packet

    @property
    def link(self):
        return self.sess.link

    def _link_up(self):
        return self.cf.link is not None

    def _dead(self):
        """cf.link is a driver that reported its error during connect() (open_link stored it afterwards)"""
        return self.cf.link is not None and getattr(self.cf.link, 'failed', False)

    def _wait_kind(self):
        if not self.waiting:
            return None
        return 'open' if self.waiting[-1] is self.scf._connect_event else 'close'

    def allowed(self, op):
        w = self._wait_kind()
        if op[0] == 'open':
            return (not self._link_up() or self._dead()) and w is None
        if op[0] == 'sopen':
            return (not self._link_up() or self._dead() or self.scf.is_link_open()) and w is None
        if op[0] == 'sclose':
            return w is None
        if op[0] in ('err', 'arm'):
            return self._link_up() and not self._dead()
        if op[0] == 'close':
            return w != 'close'
        if op[0] == 'inj':
            if not self.dev[0]:
                return False          # value-updated notifications / 16-bit read replies exist only in the current protocol
            if op[1] == 'dup':
                pat = self.cf.param.param_updater._lock_pattern
                if pat is not None and bytes(pat) == struct.pack('<H', op[2]):
                    return False      # that IS the outstanding reply, not a duplicate (see `allowed` in Model/C02.lean)
            return True
        if op[0] == 'dact' and op[1] == 'a' and self.strict_usage:
            # outside the model (see `allowed` in Model/C02.lean): all-packet position while the log reset ack is dispatched
            link = self.link
            if link is not None and self.cf.link is link and not link.closed and link.ready:
                port, chan, data = link.ready[0]
                if port == 5 and chan == 1 and data[:1] == b'\x05':
                    return False
        return True

    def _state(self):
        cf = self.cf
        toc = cf.log.toc
        nlog = 0 if toc is None or toc is self.stale_log_toc else sum(len(g) for g in toc.toc.values())
        npar = sum(len(g) for g in cf.param.toc.toc.values())
        nval = sum(len(g) for g in cf.param.values.values())
        return 'st=%s link=%d open=%d par=%d vals=%d log=%d conn=%d' % (
            ST_NAMES.get(cf.state, '?'), 1 if cf.link is not None else 0, 1 if self.scf.is_link_open() else 0, npar, nval, nlog,
            1 if cf.is_connected() else 0)

    # -- ops --
    def _next_op(self):
        """execute the next allowed op of the script; False when the script is exhausted"""
        while self.pos < len(self.script):
            op = self.script[self.pos]
            self.pos += 1
            if not self.allowed(op):
                continue
            self._exec(op)
            return True
        return False

    def _exec(self, op):
        rec = [op, [], None]
        self.lines.append(rec)
        self.cur = rec[1]
        self.executed.append(op)
        sess, cf = self.sess, self.cf
        k = op[0]
        scmod = self.scmod
        if k == 'open':
            self.fail_in_connect = op[1] == 3
            sess.call(cf.open_link, sess.uri if op[1] in (1, 3) else ('bogus://nothing' if op[1] == 0 else 'sim://not-registered'))
            self.fail_in_connect = False
        elif k in ('deliver', 'dact'):
            self.pending = (op[1], op[2]) if k == 'dact' else None
            link = self.link
            if link is not None and cf.link is link and not link.closed and link.ready:
                with sess._active():
                    link.budget = 1
                    try:
                        cf.incoming.run()
                    except self.sim.PumpStop:
                        pass
                    finally:
                        link.budget = None
            self.pending = None
        elif k == 'inj':
            # an extra packet from the device: unsolicited MISC_VALUE_UPDATED, or a duplicated / late read reply
            link = self.link
            if link is not None and cf.link is link and not link.closed and not link.failed:
                fmt = ['<B', '<H', '<f', '<i'][op[2] % 4]
                val = struct.pack(fmt, 7)
                pkt = (2, 3, b'\x01' + struct.pack('<H', op[2]) + val) if op[1] == 'upd' else (2, 1, struct.pack('<H', op[2]) + b'\x00' + val)
                link.ready.appendleft(pkt)
                with sess._active():
                    link.budget = 1
                    try:
                        cf.incoming.run()
                    except self.sim.PumpStop:
                        pass
                    finally:
                        link.budget = None
        elif k == 'work':
            for w in sess.workers:
                if sess._worker_ready(w):
                    with sess._active():
                        sess._step_worker(w)
                    break
        elif k == 'err':
            with sess._active():
                self.link.error_cb('simulated error reported by the driver')
        elif k == 'arm':
            self.armed = True
        elif k == 'close':
            sess.call(cf.close_link)
        elif k in ('sopen', 'sclose'):
            self.blocking_rec = rec
            old = scmod.Event
            scmod.Event = self.PumpEvent
            try:
                if k == 'sopen':
                    saved = self.scf._link_uri
                    self.fail_in_connect = op[1] == 3
                    if op[1] not in (1, 3):
                        self.scf._link_uri = 'bogus://nothing' if op[1] == 0 else 'sim://not-registered'
                    try:
                        sess.call(self.scf.open_link)
                        self.lines[-1][1].append('open-returned')
                    except Blocked:
                        self.blocked = 'open'
                    except Exception as e:
                        self.lines[-1][1].append('open-already-open' if str(e) == 'Link already open' else 'open-raised')
                    finally:
                        self.scf._link_uri = saved
                        self.fail_in_connect = False
                else:
                    try:
                        sess.call(self.scf.close_link)
                        self.lines[-1][1].append('close-returned')
                    except Blocked:
                        self.blocked = 'close'
            finally:
                scmod.Event = old
        else:
            raise ValueError(op)
        # the state is reported as it is when the op itself has finished (before any later op runs): a blocking
        # call records it when it starts waiting; see _snap
        if rec[2] is None:
            rec[2] = self._state()

    def run(self, script):
        self.script = list(script)
        self.pos = 0
        while self._next_op():
            if self.blocked:
                break
        out = []
        for op, outs, state in self.lines:
            out.append('ok %s %s' % (','.join(outs) if outs else '-', state))
        out.append('ok waiting=%s' % (self.blocked or 'none'))
        return self.executed, out


def op_line(op):
    """driver argument of open / sopen: 0 no driver, 2 driver raises (both = `missing` in the model), 1 ok,
    3 the link fails during connect()"""
    if op[0] in ('open', 'sopen'):
        return '%s %d' % (op[0], op[1] if op[1] in (0, 1, 3) else 0)
    return ' '.join(str(x) for x in op)


# ---- Python twin of Spec/C02.lean (WF automaton); cross-checked against the Lean one on every trace --------
CONNECTED_PH = ('con', 'ful')


class WFTwin:
    def __init__(self):
        self.ph, self.expect, self.sync, self.sync_wait = 'idle', [], False, False
        self.ok = True
        self.why = None

    def _advance(self, o):
        if o == 'connection_requested':
            self.ph = 'req'
        elif o == 'connection_failed':
            self.ph = 'idle'
        elif o == 'link_established':
            self.ph = 'est'
        elif o == 'connected':
            self.ph = 'con'
        elif o == 'fully_connected':
            self.ph = 'ful'
        elif o == 'disconnected':
            self.ph, self.sync = 'idle', False
        elif o == 'open-returned':
            self.sync_wait = False
        elif o == 'open-raised':
            self.sync_wait, self.sync = False, False

    def _free(self, o):
        return {'connection_failed': self.ph == 'req', 'link_established': self.ph == 'req', 'connected': self.ph == 'est',
                'fully_connected': self.ph == 'con', 'open-returned': self.sync_wait and self.ph in CONNECTED_PH,
                'open-raised': self.sync_wait and self.ph == 'idle'}.get(o, False)

    def _fail(self, why):
        if self.ok:
            self.ok, self.why = False, why

    def out(self, o):
        if not self.ok:
            return
        if o == 'CLOSE-CALLED':
            self.expect = ['disconnected'] + self.expect
        elif o == 'LINK-ERROR':
            if self.ph == 'idle':
                self._fail('link error reported while no attempt is in progress')
            elif self.ph == 'req':
                self.expect = ['connection_failed'] + self.expect
            else:
                self.expect = ['disconnected', 'connection_lost'] + self.expect
        elif self.expect:
            if o == self.expect[0]:
                self.expect = self.expect[1:]
                self._advance(o)
            else:
                self._fail('%s where %s is owed' % (o, self.expect[0]))
        elif self._free(o):
            self._advance(o)
        else:
            self._fail('%s not allowed in phase %s' % (o, self.ph))

    def op(self, op):
        if not self.ok:
            return
        if self.expect:
            return self._fail('operation %s while %s is still owed' % (op[0], self.expect[0]))
        k = op[0]
        if k == 'open':
            if self.ph != 'idle':
                return self._fail('open while an attempt is in progress')
            self.expect, self.sync = ['connection_requested'], False
        elif k == 'sopen':
            if self.ph == 'idle':
                self.expect, self.sync, self.sync_wait = ['connection_requested'], True, True
            elif self.sync and self.ph in CONNECTED_PH:
                self.expect = ['open-already-open']
            else:
                self._fail('sync open while an attempt is in progress')
        elif k == 'close':
            self.expect = ['disconnected']
        elif k == 'sclose':
            self.expect = ['disconnected', 'close-returned'] if self.sync and self.ph in CONNECTED_PH else ['close-returned']

    def verdict(self):
        if not self.ok:
            return 'rejected'
        return 'owing' if self.expect else 'ok'


def wf_check(executed, out_lines):
    """run the twin over a recorded trace; returns (verdict, reason, index of the offending op)"""
    w = WFTwin()
    for i, (op, line) in enumerate(zip(executed, out_lines)):
        w.op(op)
        outs = line.split(' ')[1]
        for o in ([] if outs == '-' else outs.split(',')):
            w.out(o)
        if not w.ok:
            return 'rejected', w.why, i
    return w.verdict(), w.why, len(executed)


# ---- case generation -------------------------------------------------------------------------------------
def pump(n):
    return [('deliver',), ('work',)] * n


def handshake_len(dev):
    """packets from the device until fully_connected (upper bound used for sizing scripts)"""
    magic, nlog, nmem, ext = dev
    return 2 + 2 + nlog + 1 + nmem + 1 + len(ext) + sum(1 for b in ext if b) + len(ext) + 2


def gen_m1_cases(ctx):
    rng = ctx.rng
    thorough = ctx.tier == 'thorough'
    cases = []     # (name, dev, script)
    # (0) the corpus: minimised witnesses / past disagreements, always first
    import glob
    import json
    import os
    for f in sorted(glob.glob(os.path.join(os.path.dirname(os.path.dirname(os.path.abspath(__file__))), 'corpus', 'c02', '*.json'))):
        c = json.load(open(f))
        d = c['dev']
        cases.append(('corpus', (bool(d[0]), d[1], d[2], tuple(bool(b) for b in d[3])), [tuple(o) for o in c['script']]))
    devs = [(True, 2, 1, (True, False)), (True, 0, 0, ()), (False, 1, 0, (False,)), (True, 1, 2, (True, True, False))]
    if thorough:
        devs += [(True, 3, 3, (False, True, False, True)), (False, 0, 2, (False, False)), (True, 5, 1, (True,) * 3)]
    # (1) fault after the k-th pump step for EVERY k of the handshake, from the driver's thread / the sending
    #     thread, plain and blocking open; then a second attempt on the same object; (2) close at every k
    for dev in devs:
        n = handshake_len(dev)
        for k in range(0, n + 2):
            for fault in ('err', 'arm', 'close', 'sclose'):
                for opener in ('open', 'sopen'):
                    if fault == 'sclose' and opener == 'open':
                        continue
                    if not thorough and opener == 'open' and k % 2 == 1 and dev != devs[0]:
                        continue
                    pre = []
                    for i in range(k):
                        pre += [('deliver',)] if i % 3 else [('deliver',), ('work',)]
                    pre = pump(k)
                    script = [(opener, 1)] + pre + [(fault,)] + pump(2) + [(opener, 1)] + pump(n) + [('close',), ('status',)]
                    cases.append(('fault-at-k', dev, [o for o in script if o[0] != 'status']))
    # (2a) close / link error from INSIDE a callback of the incoming thread during the dispatch of the k-th packet, for
    #      EVERY k (sub-packet granularity: after the dispatcher's snapshot, before the fetchers' callbacks)
    for dev in (devs if thorough else devs[:1] + devs[3:4]):
        n = handshake_len(dev)
        for k in range(0, n + 1):
            for pos in ('a', 'p'):
                for act in ('close', 'err'):
                    for opener in ('open', 'sopen'):
                        if not thorough and opener == 'sopen' and k % 2 == 0 and act == 'err':
                            continue
                        cases.append(('in-callback', dev, [(opener, 1)] + pump(k) + [('dact', pos, act)] + pump(2) +
                                      [(opener, 1)] + pump(n) + [('close',)]))
                        if k % 3 == 0 or thorough:
                            # the same position on a LATER connection of the object (the re-registered first-packet callback
                            # then runs after the application's all-packet callback)
                            cases.append(('in-callback-2nd', dev, [(opener, 1)] + pump(1 + k % 4) + [('close',), (opener, 1)] + pump(k) +
                                          [('dact', pos, act)] + pump(2) + [(opener, 1)] + pump(n) + [('close',)]))
    # (2c) extra packets from the device / network at EVERY point of the handshake: an unsolicited value-updated
    #      notification or a duplicated / late read reply, for every parameter id (and one beyond the table)
    for dev in (devs if thorough else devs[:1] + devs[3:4]):
        if not dev[0]:
            continue
        n = handshake_len(dev)
        for k in range(0, n + 1):
            for what in ('upd', 'dup'):
                for pid in range(len(dev[3]) + 1):
                    if not thorough and what == 'dup' and (k + pid) % 2:
                        continue
                    ending = session_endings()[(k + pid) % len(session_endings())][1]
                    cases.append(('extra-packet', dev, [('open', 1)] + pump(k) + [('inj', what, pid)] + pump(n) +
                                  [('inj', 'upd', pid)] + ending + [('sopen', 1)] + pump(max(0, k - 2)) + [('inj', what, pid)] + pump(n) + [('sclose',)]))
    # (2b) fault INSIDE open_link (the error callback runs while get_link_driver()/connect() has not returned), plain and
    #      blocking, followed by: retry at once / retry after close / a stale error report / a second in-connect failure
    for dev in devs[:3]:
        n = handshake_len(dev)
        for opener in ('open', 'sopen'):
            for tail in ([], [('close',)], [('deliver',), ('work',), ('close',)], [(opener, 3)], [('sclose',)], [(opener, 0)]):
                cases.append(('fault-in-open', dev, [(opener, 3)] + tail + [(opener, 1)] + pump(n) + [('close',)]))
            for k in (1, 3, n):       # after an earlier (partial) connection on the same object
                cases.append(('fault-in-open', dev, [(opener, 1)] + pump(k) + [('close',), (opener, 3), (opener, 1)] + pump(n) + [('sclose',), ('close',)]))
    # (3) no usable driver / driver raising, then a good attempt
    for dev in devs[:2]:
        for opener in ('open', 'sopen'):
            for bad in (0, 2):
                cases.append(('no-driver', dev, [(opener, bad), (opener, 1)] + pump(handshake_len(dev)) + [('sclose',), ('close',)]))
    # (4) random connect / disconnect histories
    weights = [('deliver', 30), ('work', 12), ('err', 3), ('arm', 3), ('close', 4), ('open', 6), ('sopen', 6), ('sclose', 3), ('dact', 4), ('inj', 8)]
    bag = [k for k, w in weights for _ in range(w)]
    for _ in range(1500 if thorough else 250):
        dev = (rng.random() < 0.8, rng.choice([0, 1, 2, 4]), rng.choice([0, 1, 3]), tuple(rng.random() < 0.4 for _ in range(rng.choice([0, 1, 2, 3, 5]))))
        script = []
        for _ in range(rng.choice([10, 30, 80, 160])):
            k = rng.choice(bag)
            if k == 'dact':
                script.append(('dact', rng.choice('ap'), rng.choice(['close', 'err'])))
                continue
            if k == 'inj':
                script.append(('inj', rng.choice(['upd', 'upd', 'dup']), rng.randrange(len(dev[3]) + 1)))
                continue
            script.append((k, 1 if rng.random() < 0.8 else rng.choice([0, 2, 3, 3])) if k in ('open', 'sopen') else (k,))
        cases.append(('history', dev, script))
    return cases


def run_m1_case(dev, script, strict_usage=True):
    r = M1Real(dev)
    r.strict_usage = strict_usage
    executed, out = r.run(script)
    return r, executed, out


def correspond_m2(ctx):
    """M2: for every scenario the real threads run under the virtual scheduler on several schedules; the failure kinds
    observed must be allowed by the verdict of the Lean thread model built from the regenerated repair flags
    (model says no death / goal always reachable  =>  no run may show a dead thread / a hang / a leaked lock)."""
    seeds = 40 if ctx.tier == 'thorough' else 3
    found = run_m2(ctx, seeds, count=ctx.count)
    modelled = [sc for sc in M2_SCENARIOS if sc[3] is not None]
    replies = ctx.lean(DRIVER, ['m2 ' + sc[3] for sc in modelled])
    for (name, base, kind, model_sc), rep in zip(modelled, replies):
        kinds = found[name]
        ctx.case({'m2': name, 'model': model_sc, 'schedules': seeds}, ('m2', name, ctx.seed))
        real_death = 'thread-death' in kinds
        real_stuck = bool(kinds & {'hang', 'lock-leak', 'not-disconnected', 'reconnect'})      # 'late-callback' (D23) is outside M2
        m_death, m_stuck = 'death=1' in rep, 'stuck=1' in rep
        ctx.count('m2-model:' + rep.split(' ', 2)[2] if rep.startswith('ok') else 'm2-model:bad')
        if not rep.startswith('ok') or (real_death and not (m_death or m_stuck)) or (real_stuck and not (m_stuck or m_death)):
            ctx.disagree('m2-' + name, {'scenario': name, 'model_scenario': model_sc}, rep, 'observed: ' + ','.join(sorted(kinds)) or '-')
        if 'blocking-under-send-lock' in kinds and not (m_death or m_stuck):
            ctx.disagree('m2-' + name, {'scenario': name, 'conformance': 'no blocking operation while _send_lock is held'}, rep, 'observed a blocking operation under _send_lock')


def correspond(ctx):
    correspond_m2(ctx)
    cases = gen_m1_cases(ctx)
    lines, runs = [], []
    for name, dev, script in cases:
        r, executed, out = run_m1_case(dev, script)
        verdict, why, _ = wf_check(executed, out[:-1])
        out[-1] += ' wf=' + verdict
        runs.append((name, dev, executed, out))
        lines += [dev_line(dev)] + [op_line(o) for o in executed] + ['status']
    replies = ctx.lean(DRIVER, lines)
    pos = 0
    for name, dev, executed, out in runs:
        n = len(executed) + 2
        rep = replies[pos:pos + n]
        pos += n
        model = rep[1:]
        ctx.count('m1:' + name)
        for o in executed:
            ctx.count('op:' + o[0])
        for l in out:
            for o in l.split(' ')[1].split(','):
                if o not in ('-',) and not o.startswith('waiting'):
                    ctx.count('out:' + o)
        ctx.count('m1-final:' + out[-1][3:])
        ctx.case({'m1': name, 'dev': dev_line(dev), 'ops': len(executed)}, (name, dev, tuple(executed)))
        if model != out:
            i = next((j for j in range(min(len(model), len(out))) if model[j] != out[j]), min(len(model), len(out)))
            ctx.disagree('m1-' + name, {'dev': dev_line(dev), 'ops': [op_line(o) for o in executed[:i + 1]]},
                         model[i] if i < len(model) else '(missing)', out[i] if i < len(out) else '(missing)')


# ======================================================================================================
# Failing-input search: the property itself, evaluated on the real code's observable behaviour
# ======================================================================================================
M2_KEYS = {
    # (scenario, kind) -> finding key
    ('sender-upd', 'hang'): 'D2-error-callback-under-send-lock', ('sender-upd', 'lock-leak'): 'D2-error-callback-under-send-lock',
    ('sender-upd', 'not-disconnected'): 'D2-error-callback-under-send-lock',
    ('sender-ping', 'thread-death'): 'D2-error-callback-under-send-lock', ('sender-ping', 'hang'): 'D2-error-callback-under-send-lock',
    ('sender-ping', 'lock-leak'): 'D2-error-callback-under-send-lock', ('sender-ping', 'not-disconnected'): 'D2-error-callback-under-send-lock',
    ('sender-userMem', 'hang'): 'D22-memory-lock-reentered-by-disconnect', ('sender-disp', 'reconnect'): 'D21-stale-fetcher-after-aborted-attempt',
}


def m2_key(name, kind, what):
    if kind == 'blocking-under-send-lock':
        return 'D2-error-callback-under-send-lock'
    if kind == 'late-callback':
        return 'D23-callback-after-end-of-attempt-race'
    if kind == 'thread-death':
        if 'AttributeError' in what or 'incoming packet thread' in what:
            return 'D3-dispatcher-dies-on-link-none'
        if 'parameter thread' in what or 'Thread-2' in what:
            return 'D4-param-thread-double-release'
        if name == 'sender-ping':
            return 'D2-error-callback-under-send-lock'
    return M2_KEYS.get((name, kind), 'm2-%s-%s' % (name, kind))


def search_m2(ctx):
    def witness(name, kind, what, inp):
        ctx.witness(m2_key(name, kind, what), 'real threads under the virtual scheduler, scenario %s: %s' % (name, what), inp)
    run_m2(ctx, 40 if ctx.tier == 'thorough' else 3, witness=witness)


def session_endings():
    """every way a session on the object can end (the next `open` is only executed when no live link is left)"""
    return [('close', [('close',)]),
            ('driver-error', [('err',)]),
            ('sender-error', [('arm',), ('close',)]),              # close_link's own set-point fails: error fan-out, then close's
            ('sender-error-in-dispatch', [('arm',)] + pump(3) + [('err',)]),
            ('error-in-callback', [('dact', 'p', 'err'), ('err',)]),
            ('close-in-callback', [('dact', 'a', 'close'), ('close',)])]


def search(ctx):
    search_m2(ctx)
    rng = ctx.rng
    dev = (True, 2, 1, (True, False))
    n = handshake_len(dev)
    # S1 on fault positions and histories
    scripts = []
    for k in range(0, n + 2):
        for fault in ('err', 'arm', 'close'):
            for opener in ('open', 'sopen'):
                scripts.append((dev, [(opener, 1)] + pump(k) + [(fault,)] + pump(2) + [(opener, 1)] + pump(n) + [('close',)], (opener, k, fault)))
    for dv in (dev, (True, 1, 0, (False, False)), (True, 0, 0, ())):
        for k in range(0, handshake_len(dv) + 1):
            for pos in ('a', 'p'):
                for act in ('close', 'err'):
                    scripts.append((dv, [('open', 1)] + pump(k) + [('dact', pos, act)] + pump(2) + [('open', 1)] + pump(handshake_len(dv)) + [('close',)],
                                    ('open', k, 'in-callback-%s-%s' % (pos, act))))
                    if k < 4:
                        scripts.append((dv, [('open', 1), ('deliver',), ('close',), ('open', 1)] + pump(k) + [('dact', pos, act)] + pump(2) +
                                        [('open', 1)] + pump(handshake_len(dv)) + [('close',)], ('open', k + 2, 'in-callback-2nd-%s-%s' % (pos, act))))
    for dv in (dev, (True, 1, 0, (False, False, False)), (True, 0, 1, (True, True))):
        m = handshake_len(dv)
        for k in range(0, m + 1):
            for what in ('upd', 'dup'):
                for pid in range(len(dv[3]) + 1):
                    scripts.append((dv, [('open', 1)] + pump(k) + [('inj', what, pid)] + pump(m) + [('inj', what, pid), ('close',)],
                                    ('open', k, 'extra-packet-%s' % what)))
    # histories: a first session that got to `progress` and ENDED IN EVERY POSSIBLE WAY, then a second attempt on the same
    # object during which an extra packet arrives at every point
    thorough = ctx.tier == 'thorough'
    for dv in ((True, 1, 0, (False, False, False)), (True, 0, 1, (True, True))):
        m = handshake_len(dv)
        for pname, prog in (('mid', pump(m // 2)), ('full', pump(m))) + ((('early', pump(2)),) if thorough else ()):
            for ename, ending in session_endings():
                for k in range(0, m + 1):
                    for pid in ((0, len(dv[3]) - 1, len(dv[3])) if thorough else (0, len(dv[3]) - 1)):
                        scripts.append((dv, [('open', 1)] + prog + ending + [('open', 1)] + pump(k) + [('inj', 'upd', pid)] + pump(m) + [('close',)],
                                        ('open', k, 'extra-packet-upd-after-%s-%s' % (pname, ename))))
    for opener in ('open', 'sopen'):
        for tail in ([], [('close',)], [(opener, 3)]):
            scripts.append((dev, [(opener, 3)] + tail + [(opener, 1)] + pump(n) + [('close',)], (opener, 0, 'inside-open-link')))
        scripts.append((dev, [(opener, 1), ('err',), (opener, 1)] + pump(n) + [('close',)], (opener, 0, 'before-first-packet')))
    for (d, script, tag) in scripts:
        r, executed, out = run_m1_case(d, script, strict_usage=False)
        verdict, why, i = wf_check(executed, out[:-1])
        waiting = out[-1].split('waiting=')[1]
        opener, k, fault = tag
        for (ev, nlog, npar, nval, missing, isconn) in r.snapshots:
            if ev in ('fully_connected', 'all_updated') and (missing or npar != len(d[3]) or not isconn):
                ctx.witness('fully-connected-with-missing-values',
                            '%s delivered while %s (param TOC %d/%d entries, connected=%s)' % (
                                ev, ('no value for ' + ','.join(missing[:4])) if missing else 'the parameter TOC is incomplete', npar, len(d[3]), isconn),
                            {'dev': dev_line(d), 'ops': [op_line(o) for o in executed]}, fault_position=k, fault=fault)
                continue
            if ev == 'all_updated':
                continue
            if ev == 'connected' and fault.startswith('extra-packet') and r.ext_pending_at_connected:
                ctx.witness('connected-before-extended-types',
                            'connected delivered while the extended type of parameter(s) %s had not been received' % r.ext_pending_at_connected,
                            {'dev': dev_line(d), 'ops': [op_line(o) for o in executed]}, fault_position=k, fault=fault)
            if (nlog, npar) != (d[1], len(d[3])) or (ev == 'fully_connected' and nval != len(d[3])):
                ctx.witness(('callback-after-end-of-attempt-' + fault) if fault.startswith('in-callback') else
                            'D21-stale-fetcher-after-aborted-attempt' if k > 0 else 'tables-incomplete-at-connected',
                            '%s signalled with log=%d/%d param=%d/%d values=%d' % (ev, nlog, d[1], npar, len(d[3]), nval),
                            {'dev': dev_line(d), 'ops': [op_line(o) for o in executed]}, fault_position=k, fault=fault)
        for j, line in enumerate(out[:-1]):
            parts = line.split(' ')
            outs = [] if parts[1] == '-' else parts[1].split(',')
            if 'disconnected' in outs and 'connected' not in outs[outs.index('disconnected'):] and ('conn=1' in parts or 'open=1' in parts):
                ctx.witness('still-connected-after-disconnected',
                            'after `disconnected` was delivered the object still reports %s' % ' '.join(x for x in parts[2:] if x in ('conn=1', 'open=1')),
                            {'dev': dev_line(d), 'ops': [op_line(o) for o in executed[:j + 1]]}, fault_position=k, fault=fault)
                break
        if waiting != 'none':
            ctx.witness(('sync-open-blocks-fault-%s' % fault if fault in ('inside-open-link', 'before-first-packet') else
                         'D1-sync-open-blocks-after-link-loss') if waiting == 'open' else 'sync-close-blocks',
                        'SyncCrazyflie.%s_link never returns: the attempt ended (link lost/closed) before `connected`' % waiting,
                        {'dev': dev_line(d), 'ops': [op_line(o) for o in executed]}, fault_position=k, fault=fault)
        elif verdict != 'ok':
            stale = fault != 'close' or True
            key = 'D21-stale-fetcher-after-aborted-attempt' if i > 2 * k + 2 and stale else 'trace-not-well-formed'
            if fault in ('inside-open-link', 'before-first-packet') and i <= 2:
                key = 'trace-not-well-formed-fault-' + fault
            if fault.startswith('extra-packet'):
                key = 'fully-connected-with-missing-values' if 'fully_connected' in str(why) else 'trace-not-well-formed-' + fault
            if fault.startswith('in-callback') and i <= 2 * k + 4:
                key = 'callback-after-end-of-attempt-' + fault
                if 'link_established' in str(why):
                    key = 'D26-link-established-after-in-callback-close'
            ctx.witness(key, 'callback trace violates the lifecycle: ' + str(why),
                        {'dev': dev_line(d), 'ops': [op_line(o) for o in executed[:i + 1]]}, fault_position=k, fault=fault)


# ======================================================================================================
# Layer M2: the real threads under the virtual scheduler (harness/vsched)
# ======================================================================================================
HORIZON = 3.0          # virtual seconds the user thread waits after the fault before it inspects the object


def _vlink_class(cfg, vsched):
    """fake CRTP driver living in virtual time (blocks only through the shim queue)"""
    from cflib.crtp.crtpdriver import CRTPDriver
    from cflib.crtp.crtpstack import CRTPPacket
    from cflib.crtp.exceptions import WrongUriType

    class VLink(CRTPDriver):
        def __init__(self):
            CRTPDriver.__init__(self)
            self.q = vsched.queue.Queue()
            self.closed = False
            self.error_cb = None
            self.needs_resending = False

        def connect(self, uri, stat_cb, error_cb):
            if not uri.startswith('vsim://'):
                raise WrongUriType()
            self.error_cb = error_cb
            cfg['links'].append(self)
            how = cfg.get('connect_fault')
            if how and not cfg.get('_failed'):
                # the link fails while connect() is still running: reported synchronously by the driver, or by the
                # driver's own thread (which may run before or after connect() returns, depending on the schedule)
                cfg['_failed'] = True

                def report():
                    vsched.emit('LINK-ERROR', 'driver-in-connect')
                    self.closed = True
                    error_cb('link failed during connect()')
                if how == 'sync':
                    report()
                else:
                    t = vsched.threading.Thread(target=report, name='driver')
                    t.daemon = True
                    t.start()
                    vsched.time.sleep(0.01)

        def send_packet(self, pk):
            vsched.emit('tx', pk.port, pk.channel, bytes(pk.data).hex())
            pred = cfg.get('fail_pred')
            if pred is not None and not cfg.get('_failed') and not self.closed and pred(pk):
                cfg['_failed'] = True
                vsched.emit('LINK-ERROR', 'sender')
                self.error_cb('simulated error reported while sending')
                return
            if self.closed:
                return
            for rp in cfg['device'](pk.port, pk.channel, bytes(pk.data)):
                self.q.put(rp)

        def receive_packet(self, wait=0):
            try:
                if wait == 0:
                    p = self.q.get(False)
                elif wait < 0:
                    p = self.q.get(True)
                else:
                    p = self.q.get(True, wait)
            except vsched.queue.Empty:
                return None
            if p is None:
                return None
            return CRTPPacket(((p[0] & 0xF) << 4) | (p[1] & 3), bytearray(p[2]))

        def close(self):
            self.closed = True
            vsched.emit('link-close')

        def get_name(self):
            return 'vsim'

        def get_status(self):
            return 'ok'

        def scan_interface(self, address=None):
            return []
    return VLink


FAIL_PREDS = {
    # which transmission the driver refuses (-> error callback from the sending thread)
    'upd': lambda pk: pk.port == 2 and pk.channel == 1 and bytes(pk.data)[:2] == b'\x01\x00',    # 2nd parameter read (_ParamUpdater thread)
    'disp': lambda pk: pk.port == 2 and pk.channel == 0 and bytes(pk.data)[:1] == b'\x02',        # a param TOC item request (dispatcher thread)
    'ping': lambda pk: pk.port == 15 and pk.channel == 0,                                          # latency ping (ping thread)
    'userMem': lambda pk: pk.port == 4 and pk.channel == 2,                                        # memory write chunk (user thread)
    'setpoint': lambda pk: pk.port == 3,                                                           # close_link's set-point (user thread)
}


def m2_main(cfg, vsched):
    """the scenario body run as the controlled main thread; builds ALL state itself (fresh per schedule)"""
    def main():
        import logging
        logging.disable(logging.CRITICAL)
        import cflib.crtp
        from cflib.crazyflie import Crazyflie
        from cflib.crazyflie.syncCrazyflie import SyncCrazyflie
        from harness.sim import crazyflie_device as sim
        dev = sim.CrazyflieDevice(protocol_version=5, log_toc=[sim.LogVar('a', 'b', 'float', 1.0)],
                                  param_toc=[sim.ParamVar('g', 'p0', 'uint8_t', 1), sim.ParamVar('g', 'p1', 'uint8_t', 2),
                                             sim.ParamVar('g', 'p2', 'uint16_t', 3)],
                                  mems=[sim.Mem(0, data=bytes(64))])
        cfg['device'] = dev.handle
        cfg['links'] = []
        cfg.pop('_failed', None)
        cfg['_faulted'] = cfg.get('fault') is not None or bool(cfg.get('connect_fault'))
        cfg['_in_connect'] = bool(cfg.get('connect_fault'))
        if cfg.get('fault') in FAIL_PREDS:
            cfg['fail_pred'] = FAIL_PREDS[cfg['fault']]
        cflib.crtp.CLASSES[:] = [_vlink_class(cfg, vsched)]
        cf = Crazyflie(rw_cache=None)
        cfg['cf'] = cf
        if not cfg.get('latency', True):
            cf.link_statistics.start = lambda: None
        evs = []
        for n in ('connection_requested', 'link_established', 'connected', 'fully_connected', 'disconnected', 'connection_lost',
                  'connection_failed', 'disconnected_link_error'):
            getattr(cf, n).add_callback(lambda *a, _n=n: (evs.append(_n), vsched.emit('cb', _n)))
        reached = vsched.threading.Event()
        getattr(cf, cfg.get('when', 'fully_connected')).add_callback(lambda *a: reached.set())
        for n in ('connection_failed', 'connection_lost'):
            getattr(cf, n).add_callback(lambda *a: reached.set())
        if cfg.get('fault') == 'driver':
            def drv():
                if cfg.get('driver_when') == 'early':
                    while not cfg['links']:
                        vsched.time.sleep(0.001)
                else:
                    reached.wait(HORIZON)
                link = cfg['links'][-1]
                if not link.closed:
                    vsched.emit('LINK-ERROR', 'driver')
                    link.error_cb('too many packets lost')
            t = vsched.threading.Thread(target=drv, name='driver')
            t.daemon = True
            t.start()
        out = {'events': evs}
        if cfg.get('sync'):
            scf = SyncCrazyflie('vsim://x', cf=cf)
            try:
                scf.open_link()
                evs.append('open-returned')
            except Exception:
                evs.append('open-raised')
        else:
            cf.open_link('vsim://x')
            reached.wait(HORIZON)
        user = cfg.get('user', 'idle')
        if user in ('memWrite', 'memWriteClose') and cf.mem.mems:
            vsched.emit('user', 'mem-write')
            cf.mem.write(cf.mem.mems[0], 0, bytes([1, 2, 3]))
            vsched.emit('user', 'mem-write-returned')
        if user in ('close', 'memWriteClose'):
            vsched.emit('user', 'close')
            (scf.close_link if cfg.get('sync') and cfg.get('sync_close') else cf.close_link)()
            vsched.emit('user', 'close-returned')
        vsched.time.sleep(HORIZON)
        # inspection at the horizon (deterministic: virtual time)
        out['state'] = cf.state
        out['link_none'] = cf.link is None
        out['incoming_alive'] = cf.incoming.is_alive()
        out['updater_alive'] = cf.param.param_updater.is_alive()
        out['send_lock_free'] = not cf._send_lock.locked()
        ping = cf.link_statistics.latency._ping_thread_instance
        out['ping_stopped'] = ping is None or not ping.is_alive()
        if cfg.get('reconnect', True) and out['send_lock_free'] and out['incoming_alive']:
            n0 = len(evs)
            done = vsched.threading.Event()
            cf.fully_connected.add_callback(lambda *a: done.set())
            cfg['fail_pred'] = None
            cfg['fault'] = None
            cfg['connect_fault'] = None
            cf.link_statistics.start = lambda: None
            cf.open_link('vsim://x')
            done.wait(HORIZON)
            out['second'] = evs[n0:]
            cf.close_link()
        return out
    return main


def m2_policy(core, kind, seed, cfg):
    """scheduling policies: seeded random, or 'starve': keep the ping thread out until the fault has happened, then let
    it run first (drives the real threads into the window the Lean counterexample schedule describes)"""
    import random

    class Starve(core.Policy):
        def begin(self, run):
            self.rng = random.Random(seed)

        def choose(self, options, current, run):
            real = [o for o in options if o != core.TIME_JUMP]
            starved = [o for o in real if run.threads[o].name == cfg.get('_ping_name', 'Thread-3')]
            others = [o for o in real if o not in starved]
            pool = (starved or others) if cfg.get('_failed') else (others or starved)
            return self.rng.choice(pool) if pool else options[0]
    if kind == 'starve':
        return Starve()
    return core.Random(seed)


def m2_verdict(res, cfg):
    """property verdict for one run: list of (key, description)"""
    bad = []
    for name, exc in res.deaths:
        bad.append(('thread-death', '%s died: %s' % (name, type(exc).__name__)))
    v = res.value if isinstance(res.value, dict) else None
    if res.outcome in ('step-limit', 'deadlock') or v is None:
        last = {}
        for t in res.trace:
            if t[1] not in ('emit', 'clock'):
                last[res.thread_names.get(t[0], t[0])] = '%s %s' % (t[1], t[2])
        bad.append(('hang', 'run did not finish (%s); last operations: %s' % (res.outcome, sorted(last.items()))))
        return bad
    evs = v['events']
    first = evs[:len(evs) - len(v.get('second', []))]      # the attempt under test (without the reconnect probe)
    faulted = cfg.get('_faulted', cfg.get('fault') is not None)
    if faulted or cfg.get('user') in ('close', 'memWriteClose'):
        if v['state'] != 0 or (not v['link_none'] and not cfg.get('_in_connect')):
            bad.append(('not-disconnected', 'state=%s link_none=%s at the horizon' % (v['state'], v['link_none'])))
        if 'disconnected' not in first and 'connection_failed' not in first:
            bad.append(('hang', 'neither disconnected nor connection_failed was signalled within the horizon: ' + ','.join(first)))
        if not v['ping_stopped']:
            bad.append(('hang', 'latency ping thread still alive after the disconnect'))
    if not v['incoming_alive']:
        bad.append(('thread-death', 'incoming packet thread is dead'))
    if not v['updater_alive']:
        bad.append(('thread-death', 'parameter thread is dead'))
    if not v['send_lock_free']:
        bad.append(('lock-leak', '_send_lock still held at the horizon'))
    ends = [i for i, e in enumerate(first) if e in ('connection_failed', 'disconnected')]
    if ends and any(e in ('link_established', 'connected', 'fully_connected') for e in first[ends[0] + 1:]):
        bad.append(('late-callback', 'callback of the attempt delivered after its end: ' + ','.join(first)))
    if 'second' in v and v['second'] != ['connection_requested', 'link_established', 'connected', 'fully_connected']:
        bad.append(('reconnect', 'second attempt on the same object: ' + ','.join(v['second'])))
    return bad


def lock_conformance(res, cfg):
    """structural facts the M2 model of the REPAIRED code relies on, checked on the recorded sync trace:
    a thread that holds `_send_lock` announces no other blocking operation (acquire / join) before it releases it"""
    cf = cfg.get('cf')
    if cf is None:
        return []
    try:
        s_label = cf._send_lock._label
    except AttributeError:
        return []
    holder, bad = None, []
    for tid, kind, label, info in res.trace:
        if kind == 'acquire' and label == s_label:
            holder = tid
        elif kind == 'release' and label == s_label:
            holder = None
        elif holder is not None and tid == holder and kind in ('acquire', 'join'):
            bad.append('%s %s while holding _send_lock' % (kind, label))
    return bad


M2_SCENARIOS = [
    # (name, cfg, policy kind, model scenario for Driver/C02 `m2`)
    ('sender-upd', {'fault': 'upd'}, 'starve', 'upd idle -'),
    ('sender-disp', {'fault': 'disp', 'when': 'link_established'}, 'random', 'disp idle -'),
    ('sender-ping', {'fault': 'ping'}, 'random', 'ping idle 3'),
    ('sender-userMem', {'fault': 'userMem', 'user': 'memWrite'}, 'random', 'userMem memWrite -'),
    ('driver', {'fault': 'driver'}, 'random', 'radio idle 3'),
    ('driver-early', {'fault': 'driver', 'driver_when': 'early', 'when': 'link_established'}, 'random', 'radio idle 3'),
    ('close', {'user': 'close'}, 'random', 'none close 1'),
    ('close-early', {'user': 'close', 'when': 'connected'}, 'random', 'none close 3'),
    ('driver-close', {'fault': 'driver', 'user': 'close'}, 'random', 'radio close -'),
    ('sync-driver-early', {'fault': 'driver', 'driver_when': 'early', 'sync': True, 'when': 'link_established'}, 'random', 'radio idle 3'),
    # the link fails INSIDE open_link (no M2 model scenario: property verdict only)
    ('driver-in-connect-sync', {'connect_fault': 'sync', 'when': 'link_established'}, 'random', None),
    ('driver-in-connect-thread', {'connect_fault': 'thread', 'when': 'link_established'}, 'random', None),
    ('sync-driver-in-connect-thread', {'connect_fault': 'thread', 'sync': True, 'when': 'link_established'}, 'random', None),
]
M2_TRACE_POINTS = [('run', 'receive_packet(1)')]


def run_m2(ctx, seeds, witness=None, count=None):
    """run every M2 scenario under `seeds` schedules each; returns {scenario: set of failure kinds}"""
    from harness import vsched
    from harness.vsched import core
    found = {}
    with vsched.Session(step_limit=2500, trace_points=M2_TRACE_POINTS) as s:
        for name, base, kind, model_sc in M2_SCENARIOS:
            kinds = set()
            for i in range(seeds):
                cfg = dict(base)
                seed = ctx.rng.randrange(2 ** 31)
                res = s.run(m2_main(cfg, vsched), policy=m2_policy(core, kind, seed, cfg))
                bad = m2_verdict(res, cfg)
                conf = lock_conformance(res, cfg)
                if count:
                    count('m2:' + name)
                    count('m2-outcome:' + (bad[0][0] if bad else 'ok'))
                for k, what in bad:
                    kinds.add(k)
                    if witness:
                        witness(name, k, what, {'scenario': name, 'cfg': {a: b for a, b in base.items()}, 'policy': kind, 'seed': seed,
                                                'choices': list(res.choices)[:400]})
                if conf:
                    kinds.add('blocking-under-send-lock')
                    if witness:
                        witness(name, 'blocking-under-send-lock', conf[0], {'scenario': name, 'policy': kind, 'seed': seed})
            found[name] = kinds
        if ctx.tier == 'thorough':
            # preemption-bounded depth-first exploration of two small scenarios (every schedule with <= 1 preemption, capped)
            for name, base in (('close-early', {'user': 'close', 'when': 'connected', 'reconnect': False}),
                               ('driver', {'fault': 'driver', 'reconnect': False})):
                cfg = dict(base)
                ex = s.explore(m2_main(cfg, vsched), max_preemptions=1, max_runs=250)
                n = 0
                for res in ex:
                    n += 1
                    for k, what in m2_verdict(res, cfg):
                        found[name].add(k)
                        if witness:
                            witness(name, k, what, {'scenario': name, 'policy': 'dfs', 'choices': list(res.choices)[:400]})
                if count:
                    count('m2-dfs:' + name, n)
    return found

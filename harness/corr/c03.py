"""C03 - downloaded log and parameter tables of contents equal the device tables.

Tie A: command ids, struct formats, index-byte expressions, type tables and type-byte masks of
toc.py / log.py / param.py are re-extracted into Gen/C03.lean; Props/C03 pins the few expression texts the
hand-written model additionally relies on.
Tie B: (1) the real TocFetcher / LogTocElement / ParamTocElement / _ExtendedTypeFetcher / Toc objects are
driven packet by packet with generated and adversarially re-ordered byte strings and compared with the
Lean model (Driver/C03.lean); (2) the real Crazyflie object is taken to `connected` against the simulated
device (harness/sim) for generated tables and reply policies and the resulting tables + request sequence
are compared with the model's run of the same delivery schedule.
"""
import ast
import collections

from harness.lib import extract as X
from harness.lib.common import ExtractError, exc_enum, hexs

PID = 'C03'
LEAN_TARGETS = ['CfVerif.Props.C03']
PROPS_MODULES = ['CfVerif.Props.C03']
DRIVER = 'Driver/C03.lean'
REQUIRED_THEOREMS = ['CfVerif.C03.' + t for t in (
    'log_element_decoded', 'param_element_decoded', 'fetched_eq_device', 'log_fetched_eq_device', 'param_fetched_eq_device',
    'stale_info_ignored', 'stale_item_ignored', 'fetch_completes', 'toc_eq_device_table', 'lookup_agree', 'complete_name_arity',
    'persistent_marks_eq_device', 'ext_phase_completes', 'param_table_when_connected', 'no_extended_no_queries',
    'setup_started_once', 'setup_started_once_live_counterexample', 'log_fetcher_started_once', 'version_is_devices',
    'disconnect_unregisters', 'aborted_download_is_silent', 'stale_fetchers_do_not_interfere', 'undisconnected_fetcher_interferes',
    'ext_disconnect_aborts', 'gen_disconnect', 'notification_ignored_by_ext_fetcher', 'lookups_agree_after_any_history', 'history_before_install_irrelevant',
    'downloaded_table_wf', 'cache_miss_is_download', 'cache_hit_installs', 'gen_toc_object',
    'gen_platform_reports_once', 'gen_type_tables', 'gen_log_reset_guard', 'gen_v2_threshold')]
TRUSTED = ['harness/corr/c03.py extractor + correspondence', 'harness/sim/crazyflie_device.py (simulated device, link, sync session) and its Lean twin Spec/C03',
           "Python str.decode('ISO-8859-1') is a bijection bytes <-> code points < 256 (names are compared as byte strings)",
           'dict keeps insertion order and overwrites in place; struct.unpack as modelled in Base/Struct']
ASSUMPTIONS = ['what TocCache.fetch returns for a CRC is C11; here: a cached dictionary is well-formed (written from a downloaded table)',
               'a worker iteration of _ExtendedTypeFetcher.run that is in flight while the link is lost is not modelled (C02)',
               'one download per port and connection: replies of a previous session do not reach the fetcher (the link queue is per connection)',
               'replies are genuine device replies (possibly duplicated, stale, delayed); forged packets are only used in the correspondence',
               'UTF-8 validity of the link-source reply is not modelled']
RULE = ('cases = (a) every type byte x well-formed/malformed naming parts for both decoders, (b) real TocFetcher/_ExtendedTypeFetcher/Toc '
        'sessions driven packet by packet with awaited/stale/duplicated/off-channel/malformed packets for table sizes 0,1,2,3,7,254..258,300,random, '
        'both generations, followed by every lookup path, (c) PlatformService packet scripts, (d) the real Crazyflie object taken to `connected` '
        'against the simulated device under scripted and random reply policies with needs_resending on/off; non-trivial = distinct inputs; a session '
        'counts when it contains a stale/duplicated/malformed delivery or has a boundary size')


# ------------------------------------------------------------------------------------------------------
# Tie A
# ------------------------------------------------------------------------------------------------------
def _assign_map(node):
    return {ast.unparse(n.targets[0]): n.value for n in ast.walk(node) if isinstance(n, ast.Assign) and len(n.targets) == 1}


def _types_table(cls, width):
    """the `types = {code: (ctype, fmt[, size])}` dict of a TocElement class, in source order"""
    for n in cls.body:
        if isinstance(n, ast.Assign) and len(n.targets) == 1 and ast.unparse(n.targets[0]) == 'types':
            try:
                d = ast.literal_eval(n.value)
            except Exception as e:
                raise ExtractError('types table of %s is not a literal: %s' % (cls.name, e))
            rows = []
            for k, v in d.items():
                X.expect(isinstance(k, int) and isinstance(v, tuple) and len(v) == width and
                         isinstance(v[0], str) and isinstance(v[1], str), 'unexpected row in %s.types: %r' % (cls.name, (k, v)))
                rows.append((k,) + v)
            X.expect(len(rows) == len(set(r[0] for r in rows)), 'duplicate key in %s.types' % cls.name)
            return rows
    raise ExtractError('no types table in ' + cls.name)


def _mask_of(e, var):
    """`<var> & <const>` -> const"""
    X.expect(isinstance(e, ast.BinOp) and isinstance(e.op, ast.BitAnd) and ast.unparse(e.left) == var
             and isinstance(e.right, ast.Constant) and isinstance(e.right.value, int),
             'expected `%s & <const>`, got %s' % (var, ast.unparse(e)))
    return e.right.value


def _ne0_mask(e, var):
    """`(<var> & m) != 0` -> m"""
    X.expect(isinstance(e, ast.Compare) and len(e.ops) == 1 and isinstance(e.ops[0], ast.NotEq)
             and ast.unparse(e.comparators[0]) == '0', 'expected `(%s & m) != 0`, got %s' % (var, ast.unparse(e)))
    return _mask_of(e.left, var)


def extract(ctx):
    g = X.GenFile(PID, ['cflib/crazyflie/toc.py', 'cflib/crazyflie/log.py', 'cflib/crazyflie/param.py'])
    # ---- toc.py ---------------------------------------------------------------------------------------
    toc = X.parse('cflib/crazyflie/toc.py')
    consts = X.int_assigns(ast.Module(body=[n for n in toc.body if isinstance(n, ast.Assign)], type_ignores=[]))
    for name in ('TOC_CHANNEL', 'CMD_TOC_ELEMENT', 'CMD_TOC_INFO', 'CMD_TOC_ITEM_V2', 'CMD_TOC_INFO_V2'):
        X.expect(name in consts, 'toc.py: constant %s missing' % name)
        g.nat('toc' + ''.join(p.capitalize() for p in name.lower().split('_')), consts[name])
    cb = X.find(toc, 'TocFetcher._new_packet_cb')
    sc = X.struct_calls(cb)
    X.expect([c['fn'] for c in sc] == ['unpack'] * 3 and all(c['fmt'] for c in sc), 'TocFetcher._new_packet_cb: expected three struct.unpack calls')
    g.string('infoFmtV2', sc[0]['fmt'])
    g.string('infoFmtV1', sc[1]['fmt'])
    g.string('identFmtV2', sc[2]['fmt'])
    # slices are normalised to numbers (payload[:6] == payload[0:6]); the model takes/drops these counts
    takes = [_slice_bounds(c['args'][0] if c['args'] else '', 'payload') for c in sc]
    X.expect(all(t is not None and t[0] == 0 and t[1] is not None for t in takes), 'TocFetcher._new_packet_cb: unpack arguments are not payload[:n]')
    g.nat('infoTakeV2', takes[0][1])
    g.nat('infoTakeV1', takes[1][1])
    g.nat('identTakeV2', takes[2][1])
    g.strings('cbCompares', X.compares(cb))
    am = _assign_map(cb)
    for k in ('chan', 'payload', 'ident'):
        X.expect(k in am, 'TocFetcher._new_packet_cb: assignment to %s missing' % k)
    g.string('cbChan', ast.unparse(am['chan']))
    pl = _slice_bounds(ast.unparse(am['payload']), 'packet.data')
    X.expect(pl is not None and pl[1] is None, 'TocFetcher._new_packet_cb: payload is not packet.data[n:]')
    g.nat('payloadDrop', pl[0])
    idents = sorted((n.lineno, ast.unparse(n.value)) for n in ast.walk(cb) if isinstance(n, ast.Assign)
                    and ast.unparse(n.targets[0]) == 'ident')
    idn = sorted((n.lineno, n.value) for n in ast.walk(cb) if isinstance(n, ast.Assign) and ast.unparse(n.targets[0]) == 'ident')
    X.expect(len(idn) == 2, 'TocFetcher._new_packet_cb: expected two assignments to ident')
    shapes = []
    for _, v in idn:
        if isinstance(v, ast.Subscript) and isinstance(v.value, ast.Call) and ast.unparse(v.value.func) == 'struct.unpack':
            shapes.append('struct.unpack(...)[%s]' % ast.unparse(v.slice))
        else:
            shapes.append(ast.unparse(v))
    g.strings('cbIdentExprs', shapes)
    adds = sorted((n.lineno, n.col_offset, [ast.unparse(a) for a in n.args]) for n in ast.walk(cb)
                  if isinstance(n, ast.Call) and ast.unparse(n.func) == 'self.element_class')
    X.expect(len(adds) == 2, 'TocFetcher._new_packet_cb: expected two element_class(...) calls')
    for (ln, col, args), nm in zip(adds, ('elemDropV2', 'elemDropV1')):
        X.expect(len(args) == 2 and args[0] == 'ident', 'element_class(...) arguments changed: %r' % (args,))
        sl = _slice_bounds(args[1], 'payload')
        X.expect(sl is not None and sl[1] is None, 'element_class(...) data argument is not payload[n:]')
        g.nat(nm, sl[0])
    aug = [ast.unparse(n) for n in ast.walk(cb) if isinstance(n, ast.AugAssign)]
    g.strings('cbAugAssigns', aug)
    # _request_toc_element: data tuples and the index byte expressions
    rq = X.find(toc, 'TocFetcher._request_toc_element')
    datas = sorted((n.lineno, n.value) for n in ast.walk(rq) if isinstance(n, ast.Assign) and ast.unparse(n.targets[0]) == 'pk.data')
    X.expect(len(datas) == 2 and all(isinstance(v, ast.Tuple) for _, v in datas), '_request_toc_element: expected two `pk.data = (...)` tuples')
    v2t, v1t = datas[0][1], datas[1][1]
    X.expect(len(v2t.elts) == 3 and len(v1t.elts) == 2, '_request_toc_element: tuple arity changed')
    g.strings('reqTupleV2', [ast.unparse(e) for e in v2t.elts])
    g.strings('reqTupleV1', [ast.unparse(e) for e in v1t.elts])
    g.raw('def idxLo (index : Nat) : Nat := ' + X.expr_to_lean(v2t.elts[1], {'index': 'index'}))
    g.raw('def idxHi (index : Nat) : Nat := ' + X.expr_to_lean(v2t.elts[2], {'index': 'index'}))
    st = X.find(toc, 'TocFetcher.start')
    sm = _assign_map(st)
    X.expect('self._useV2' in sm, 'TocFetcher.start: _useV2 assignment missing')
    uv = sm['self._useV2']
    X.expect(isinstance(uv, ast.Compare) and isinstance(uv.ops[0], ast.GtE) and isinstance(uv.comparators[0], ast.Constant),
             'TocFetcher.start: expected `<version> >= <const>`: ' + ast.unparse(uv))
    g.nat('v2MinProtocol', uv.comparators[0].value)
    g.string('useV2Expr', ast.unparse(uv))
    sdatas = sorted((n.lineno, ast.unparse(n.value)) for n in ast.walk(st) if isinstance(n, ast.Assign) and ast.unparse(n.targets[0]) == 'pk.data')
    g.strings('startTuples', [s for _, s in sdatas])
    # abort on disconnect (fix D21): what start() registers, what _disconnected and _toc_fetch_finished remove
    def _stmts(fn):
        return [ast.unparse(n) for n in fn.body if not (isinstance(n, ast.Expr) and isinstance(n.value, ast.Constant))]

    def _calls(fn, words):
        return [ast.unparse(n.value) for n in ast.walk(fn) if isinstance(n, ast.Expr) and isinstance(n.value, ast.Call)
                and any(w in ast.unparse(n.value.func) for w in words)]
    g.strings('tocStartRegs', sorted(_calls(st, ('add_port_callback', 'add_callback'))))
    X.expect(any(isinstance(n, ast.FunctionDef) and n.name == '_disconnected' for n in X.find(toc, 'TocFetcher').body),
             'TocFetcher._disconnected missing (fix D21 not in this tree)')
    g.strings('tocDisconnectedBody', sorted(_stmts(X.find(toc, 'TocFetcher._disconnected'))))
    g.strings('tocFinishedRemovals', sorted(_calls(X.find(toc, 'TocFetcher._toc_fetch_finished'), ('remove_port_callback', 'remove_callback'))))
    # Toc as an object: its attributes, who assigns them, and how a cached table is installed
    tcls = X.find(toc, 'Toc')
    attrs, lookup_writes = set(), []
    for fn in [n for n in tcls.body if isinstance(n, ast.FunctionDef)]:
        for n in ast.walk(fn):
            tgts = n.targets if isinstance(n, ast.Assign) else [n.target] if isinstance(n, (ast.AugAssign, ast.AnnAssign)) else []
            for tg in tgts:
                for sub in ast.walk(tg):
                    if isinstance(sub, ast.Attribute) and isinstance(sub.value, ast.Name) and sub.value.id == 'self':
                        attrs.add('self.' + sub.attr)
                        if fn.name.startswith('get_'):
                            lookup_writes.append('%s: %s' % (fn.name, ast.unparse(n)))
    g.strings('tocAttrs', sorted(attrs))
    g.strings('tocLookupWrites', lookup_writes)
    g.strings('tocClearBody', [ast.unparse(n) for n in X.find(tcls, 'clear').body if not (isinstance(n, ast.Expr) and isinstance(n.value, ast.Constant))])
    g.strings('cacheFetch', [ast.unparse(n) for n in ast.walk(cb) if isinstance(n, ast.Assign) and ast.unparse(n.targets[0]) == 'cache_data'])
    g.strings('cacheInstall', [ast.unparse(n) for n in ast.walk(cb) if isinstance(n, ast.Assign) and ast.unparse(n.value) == 'cache_data'])
    g.strings('cacheTests', [ast.unparse(n.test) for n in ast.walk(cb) if isinstance(n, ast.If) and 'cache_data' in ast.unparse(n.test)])
    # Toc lookups
    t = X.find(toc, 'Toc')
    gi = X.find(t, 'get_element_id')
    splits = [ast.unparse(n) for n in ast.walk(gi) if isinstance(n, ast.Call) and ast.unparse(n.func).endswith('.split')]
    g.strings('tocSplitCalls', splits)
    g.strings('tocByIdCompares', X.compares(X.find(t, 'get_element_by_id')))
    bc = X.find(t, 'get_element_by_complete_name')
    g.strings('tocByCompleteHandlers', [ast.unparse(h.type) if h.type else '' for n in ast.walk(bc) if isinstance(n, ast.Try) for h in n.handlers])
    # ---- log.py: LogTocElement ------------------------------------------------------------------------
    log = X.parse('cflib/crazyflie/log.py')
    le = X.find(log, 'LogTocElement')
    rows = _types_table(le, 3)
    g.raw('def logTypes : List (Nat × String × String × Nat) := [' +
          ', '.join('(%d, %s, %s, %d)' % (k, X.lstr(c), X.lstr(f), s) for (k, c, f, s) in rows) + ']')
    li = X.find(le, '__init__')
    lm = _assign_map(li)
    for k in ('naming', 'zt', 'self.group', 'self.name', 'self.ctype', 'self.pytype', 'self.access'):
        X.expect(k in lm, 'LogTocElement.__init__: assignment to %s missing' % k)
    g.string('logNaming', ast.unparse(lm['naming']))
    g.string('logZt', ast.unparse(lm['zt']))
    g.string('logGroupExpr', ast.unparse(lm['self.group']))
    g.string('logNameExpr', ast.unparse(lm['self.name']))
    g.string('logCtypeExpr', ast.unparse(lm['self.ctype']))
    g.string('logPytypeExpr', ast.unparse(lm['self.pytype']))
    g.nat('logAccessMask', _mask_of(lm['self.access'], 'data[0]'))
    for fn, idx in (('get_cstring_from_id', 0), ('get_unpack_string_from_id', 1), ('get_size_from_id', 2)):
        f = X.find(le, fn)
        rets = [ast.unparse(n.value) for n in ast.walk(f) if isinstance(n, ast.Return) and n.value is not None]
        X.expect(rets == ['LogTocElement.types[ident][%d]' % idx], 'LogTocElement.%s: unexpected return %r' % (fn, rets))
    # Log._new_packet_cb: the guard that starts the download once per refresh (`if not self.toc:` in the reset branch)
    lcb = X.find(log, 'Log._new_packet_cb')
    guards = []
    for n in ast.walk(lcb):
        if isinstance(n, ast.If) and 'CMD_RESET_LOGGING' in ast.unparse(n.test):
            for m in n.body:
                if isinstance(m, ast.If) and any(isinstance(c, ast.Call) and ast.unparse(c.func) == 'TocFetcher' for c in ast.walk(m)):
                    guards.append(ast.unparse(m.test))
    X.expect(len(guards) == 1, 'Log._new_packet_cb: expected one guarded TocFetcher(...) creation in the CMD_RESET_LOGGING branch')
    g.string('logResetGuard', guards[0])
    lrt = X.find(log, 'Log.refresh_toc')
    g.strings('logRefreshTocAssign', [ast.unparse(n) for n in ast.walk(lrt) if isinstance(n, ast.Assign) and ast.unparse(n.targets[0]) == 'self.toc'])
    # ---- param.py: ParamTocElement, _ExtendedTypeFetcher, refresh_toc ---------------------------------------
    par = X.parse('cflib/crazyflie/param.py')
    pe = X.find(par, 'ParamTocElement')
    rows = _types_table(pe, 2)
    g.raw('def paramTypes : List (Nat × String × String) := [' +
          ', '.join('(%d, %s, %s)' % (k, X.lstr(c), X.lstr(f)) for (k, c, f) in rows) + ']')
    pc = X.int_assigns(ast.Module(body=[n for n in pe.body if isinstance(n, ast.Assign)], type_ignores=[]))
    for name in ('RW_ACCESS', 'RO_ACCESS', 'EXTENDED_PERSISTENT'):
        X.expect(name in pc, 'ParamTocElement.%s missing' % name)
    g.nat('paramRwAccess', pc['RW_ACCESS'])
    g.nat('paramRoAccess', pc['RO_ACCESS'])
    g.nat('paramExtendedPersistent', pc['EXTENDED_PERSISTENT'])
    pi = X.find(pe, '__init__')
    pm = _assign_map(pi)
    for k in ('self.group', 'self.name', 'metadata', 'self.extended', 'self.ctype', 'self.pytype'):
        X.expect(k in pm, 'ParamTocElement.__init__: assignment to %s missing' % k)
    g.string('paramGroupExpr', ast.unparse(pm['self.group']))
    g.string('paramNameExpr', ast.unparse(pm['self.name']))
    strs = sorted((n.lineno, ast.unparse(n.value)) for n in ast.walk(pi) if isinstance(n, ast.Assign) and ast.unparse(n.targets[0]) == 'strs')
    g.strings('paramStrsExprs', [s for _, s in strs])
    g.nat('paramExtendedMask', _ne0_mask(pm['self.extended'], 'metadata'))
    ct = pm['self.ctype']
    X.expect(isinstance(ct, ast.Subscript) and isinstance(ct.value, ast.Subscript) and ast.unparse(ct.value.value) == 'self.types'
             and ast.unparse(ct.slice) == '0', 'ParamTocElement: ctype expression changed: ' + ast.unparse(ct))
    g.nat('paramTypeMask', _mask_of(ct.value.slice, 'metadata'))
    g.string('paramCtypeExpr', ast.unparse(ct))
    g.string('paramPytypeExpr', ast.unparse(pm['self.pytype']))
    ro_ifs = [n for n in ast.walk(pi) if isinstance(n, ast.If) and 'metadata &' in ast.unparse(n.test)]
    X.expect(len(ro_ifs) == 1, 'ParamTocElement.__init__: expected one `if (metadata & m) != 0` for access')
    g.nat('paramRoMask', _ne0_mask(ro_ifs[0].test, 'metadata'))
    g.strings('paramAccessAssigns', [ast.unparse(n) for n in ro_ifs[0].body + ro_ifs[0].orelse])
    g.strings('paramInitDefaults', sorted(ast.unparse(n) for n in pi.body if isinstance(n, ast.Assign)))
    pconst = X.int_assigns(ast.Module(body=[n for n in par.body if isinstance(n, ast.Assign)], type_ignores=[]))
    for name in ('MISC_CHANNEL', 'MISC_GET_EXTENDED_TYPE', 'TOC_CHANNEL'):
        X.expect(name in pconst, 'param.py: constant %s missing' % name)
    g.nat('miscChannel', pconst['MISC_CHANNEL'])
    g.nat('miscGetExtendedType', pconst['MISC_GET_EXTENDED_TYPE'])
    ef = X.find(par, '_ExtendedTypeFetcher')
    ecb = X.find(ef, '_new_packet_cb')
    sc = X.struct_calls(ecb)
    X.expect(len(sc) == 1 and sc[0]['fn'] == 'unpack' and sc[0]['fmt'], '_ExtendedTypeFetcher._new_packet_cb: expected one struct.unpack')
    g.string('extIdFmt', sc[0]['fmt'])
    g.strings('extIdArgs', sc[0]['args'])
    g.strings('extCbCompares', X.compares(ecb))
    outer = [n for n in ecb.body if isinstance(n, ast.If)]
    X.expect(len(outer) == 1, '_ExtendedTypeFetcher._new_packet_cb: expected one top-level if')
    g.string('extCbGuard', ast.unparse(outer[0].test))
    em = _assign_map(ecb)
    X.expect('extended_type' in em, '_ExtendedTypeFetcher._new_packet_cb: extended_type assignment missing')
    g.string('extTypeExpr', ast.unparse(em['extended_type']))
    g.strings('extCbAug', [ast.unparse(n) for n in ast.walk(ecb) if isinstance(n, ast.AugAssign)])
    g.strings('extCbMark', [ast.unparse(n) for n in ast.walk(ecb) if isinstance(n, ast.Call) and ast.unparse(n.func).endswith('mark_persistent')])
    er = X.find(ef, 'request_extended_types')
    sc = X.struct_calls(er)
    X.expect(len(sc) == 1 and sc[0]['fn'] == 'pack' and sc[0]['fmt'], 'request_extended_types: expected one struct.pack')
    g.string('extReqFmt', sc[0]['fmt'])
    g.strings('extReqArgs', sc[0]['args'])
    g.strings('extReqCount', [ast.unparse(n) for n in ast.walk(er) if isinstance(n, ast.Assign) and ast.unparse(n.targets[0]) == 'self._count'])
    run = X.find(ef, 'run')
    sc = X.struct_calls(run)
    X.expect(len(sc) == 1 and sc[0]['fmt'], '_ExtendedTypeFetcher.run: expected one struct.unpack')
    g.string('extRunFmt', sc[0]['fmt'])
    g.strings('extRunArgs', sc[0]['args'])
    g.strings('extInitRegs', sorted(_calls(X.find(ef, '__init__'), ('add_port_callback', 'add_callback'))))
    X.expect(any(isinstance(n, ast.FunctionDef) and n.name == '_disconnected' for n in ef.body),
             '_ExtendedTypeFetcher._disconnected missing (fix D21 not in this tree)')
    g.strings('extDisconnectedBody', _stmts(X.find(ef, '_disconnected')))
    g.strings('extCloseRemovals', sorted(_calls(X.find(ef, '_close'), ('remove_port_callback', 'remove_callback'))))
    rt = X.find(par, 'Param.refresh_toc')
    g.strings('refreshCompares', X.compares(rt))
    g.strings('refreshIfTests', [ast.unparse(n.test) for n in ast.walk(rt) if isinstance(n, ast.If)])
    # ---- platformservice.py: the step that starts the download ----------------------------------------------
    plat = X.parse('cflib/crazyflie/platformservice.py')
    pconst = X.int_assigns(ast.Module(body=[n for n in plat.body if isinstance(n, ast.Assign)], type_ignores=[]))
    for name in ('VERSION_COMMAND', 'VERSION_GET_PROTOCOL', 'LINKSERVICE_SOURCE'):
        X.expect(name in pconst, 'platformservice.py: constant %s missing' % name)
        g.nat('plat' + ''.join(p.capitalize() for p in name.lower().split('_')), pconst[name])
    ps = X.find(plat, 'PlatformService')
    crt, pcb = X.find(ps, '_crt_service_callback'), X.find(ps, '_platform_callback')
    g.strings('platCrtCompares', X.compares(crt))
    g.strings('platCbCompares', X.compares(pcb))
    ver = [ast.unparse(n.value) for n in ast.walk(pcb) if isinstance(n, ast.Assign) and ast.unparse(n.targets[0]) == 'self._protocolVersion']
    g.strings('platVersionExprs', ver)
    g.raw('def platReportsOnce : Bool := ' + ('true' if _reports_once(ps) else 'false'))
    return {'C03.lean': g.render()}


def _slice_bounds(src, base):
    """'base[a:b]' -> (a or 0, b or None) for integer literals; None if `src` is not such a slice"""
    try:
        e = ast.parse(src, mode='eval').body
    except SyntaxError:
        return None
    if not (isinstance(e, ast.Subscript) and ast.unparse(e.value) == base and isinstance(e.slice, ast.Slice) and e.slice.step is None):
        return None
    out = []
    for b in (e.slice.lower, e.slice.upper):
        if b is None:
            out.append(None)
        elif isinstance(b, ast.Constant) and isinstance(b.value, int) and b.value >= 0:
            out.append(b.value)
        else:
            return None
    return (out[0] or 0, out[1])


def _reports_once(cls):
    """True iff every call of the stored continuation (`self._callback`, directly or through a local alias) happens in
    a function that first clears `self._callback` (so a further copy of a reply cannot continue the setup again)."""
    calls = 0
    for fn in [n for n in cls.body if isinstance(n, ast.FunctionDef)]:
        aliases = {'self._callback'}
        for n in ast.walk(fn):
            if isinstance(n, ast.Assign) and ast.unparse(n.value) == 'self._callback':
                aliases |= {ast.unparse(t) for t in n.targets}
            if isinstance(n, ast.Assign) and isinstance(n.value, ast.Tuple):      # a, self._callback = self._callback, None
                for t, v in zip(n.targets[0].elts if isinstance(n.targets[0], ast.Tuple) else [], n.value.elts):
                    if ast.unparse(v) == 'self._callback':
                        aliases.add(ast.unparse(t))
        clears = [n.lineno for n in ast.walk(fn) if isinstance(n, ast.Assign) and any(
            (ast.unparse(t) == 'self._callback' and ast.unparse(n.value) == 'None') or
            (isinstance(t, ast.Tuple) and isinstance(n.value, ast.Tuple) and any(
                ast.unparse(tt) == 'self._callback' and ast.unparse(vv) == 'None' for tt, vv in zip(t.elts, n.value.elts)))
            for t in n.targets)]
        for n in ast.walk(fn):
            if isinstance(n, ast.Call) and ast.unparse(n.func) in aliases:
                calls += 1
                if not any(ln <= n.lineno for ln in clears):
                    return False
    return calls > 0


# ------------------------------------------------------------------------------------------------------
# real-code drivers (micro level): the real TocFetcher / element classes / Toc / _ExtendedTypeFetcher driven
# packet by packet through `Log.refresh_toc` / `Param.refresh_toc` with a stub Crazyflie at the boundary
# ------------------------------------------------------------------------------------------------------
def _quiet():
    import logging
    logging.disable(logging.CRITICAL)


def _lat(b):
    return bytes(b).decode('ISO-8859-1')


def show_elem(e):
    return '%s/%s/%d/%s/%s/%d/%d/%d' % (hexs(e.group.encode('ISO-8859-1')), hexs(e.name.encode('ISO-8859-1')), e.ident, e.ctype,
                                         e.pytype or '_', e.access, 1 if getattr(e, 'extended', False) else 0,
                                         1 if getattr(e, 'persistent', False) else 0)


def show_toc(toc):
    out = [show_elem(toc.toc[g][n]) for g in toc.toc for n in toc.toc[g]]
    return 'ok ' + (' '.join(out) if out else '-')


def real_decode(kind, ident, data):
    _quiet()
    from cflib.crazyflie.log import LogTocElement
    from cflib.crazyflie.param import ParamTocElement
    from cflib.crazyflie.toc import Toc
    cls = LogTocElement if kind == 'dlog' else ParamTocElement
    try:
        t = Toc()
        t.add_element(cls(ident, bytearray(data)))
        return show_toc(t)
    except Exception as e:
        return 'err ' + exc_enum(e)


class StubCF:
    """the Crazyflie object as seen by TocFetcher / _ExtendedTypeFetcher: platform version, port callbacks, the real
    `disconnected` Caller, send_packet"""

    def __init__(self, version):
        from cflib.utils.callbacks import Caller
        self.platform = self
        self.version = version
        self.cbs = []
        self.sent = []
        self.link = True
        self.disconnected = Caller()
        self._sim_sync_session = self       # harness/sim: worker threads register here instead of starting
        self.workers = []

    def get_protocol_version(self):
        return self.version

    def add_port_callback(self, port, cb):
        self.cbs.append((port, cb))

    def remove_port_callback(self, port, cb):
        # like _IncomingPacketHandler.remove_header_callback: removing a callback that is not registered is a no-op
        if (port, cb) in self.cbs:
            self.cbs.remove((port, cb))

    def send_packet(self, pk, expected_reply=(), resend=False, timeout=0.2):
        self.sent.append(((pk.header >> 4) & 0xF, pk.header & 3, bytes(pk.data), tuple(expected_reply)))

    def _register_worker(self, w):
        self.workers.append(w)


class RealFetch:
    """real downloads driven from outside on ONE set of objects (stub Crazyflie, Log / Param): kind 'log' | 'param'.
    `restart()` begins a new download on the same objects (as a reconnect does)."""

    def __init__(self, kind, v2, cache_dir=None):
        _quiet()
        from harness.sim import crazyflie_device as sim
        sim.install()
        from cflib.crazyflie.log import Log
        from cflib.crazyflie.param import Param
        self.kind, self.v2 = kind, v2
        self.cache_dir = cache_dir
        self.cf = StubCF(4 if v2 else 3)
        self.done = 0
        self.port = 5 if kind == 'log' else 2
        if kind == 'log':
            self.owner = Log.__new__(Log)
            self.owner.cf = self.cf
            self.owner.log_blocks = []
            self.owner.toc = None
        else:
            self.owner = Param.__new__(Param)
            self.owner.cf = self.cf
        self.restart()

    def restart(self):
        from cflib.crazyflie.toc import Toc, TocFetcher
        from cflib.crazyflie.toccache import TocCache
        before = [cb for (p, cb) in self.cf.cbs]
        self.done_base = self.done
        self.workers_base = len(self.cf.workers)
        n0 = len(self.cf.sent)
        if self.kind == 'log':
            self.owner.refresh_toc(self._finished, TocCache(rw_cache=self.cache_dir))
            self.owner._new_packet_cb(self._pk(1, b'\x05\x00\x00'))       # the reset reply starts the fetcher
        else:
            self.owner.toc = Toc()                 # Param._connection_requested / _disconnected
            self.owner.refresh_toc(self._finished, TocCache(rw_cache=self.cache_dir))
        regs = [cb for (p, cb) in self.cf.cbs if p == self.port and cb not in before and isinstance(cb.__self__, TocFetcher)]
        assert len(regs) == 1
        self.fetcher = regs[0].__self__
        self.cb = regs[0]
        self.start_req = [d for (p, c, d, _) in self.cf.sent[n0:] if p == self.port and c == 0]
        self.nsent = len(self.cf.sent)
        return 'ok ' + ','.join(hexs(d) for d in self.start_req)

    def _finished(self):
        self.done += 1

    def _pk(self, chan, data):
        from cflib.crtp.crtpstack import CRTPPacket
        return CRTPPacket(((self.port & 0xF) << 4) | (chan & 3), bytearray(data))

    @property
    def toc(self):
        return self.owner.toc

    def registered(self):
        return (self.port, self.cb) in self.cf.cbs

    def _dispatch(self, cls, chan, data):
        """offer the packet to every registered callback of objects of class `cls` on the port, like the dispatcher
        (an exception in one callback does not stop the others); returns the exception of the CURRENT object, if any"""
        err = None
        for (p, cb) in list(self.cf.cbs):
            if p == self.port and isinstance(getattr(cb, '__self__', None), cls):
                try:
                    cb(self._pk(chan, data))
                except Exception as e:
                    if cb.__self__ is self.fetcher or (self.cf.workers and cb.__self__ is self.cf.workers[-1]):
                        err = e
        return err

    def _state(self):
        f = self.fetcher
        if self.registered():
            return 'info' if f.state == 'GET_TOC_INFO' else 'element'
        return 'done' if self._tocdone else 'aborted'

    def fpkt(self, chan, data):
        from cflib.crazyflie.toc import TocFetcher
        f = self.fetcher
        fin0 = self._tocdone
        err = self._dispatch(TocFetcher, chan, data)
        new = self.cf.sent[self.nsent:]
        self.nsent = len(self.cf.sent)
        if err is not None:
            return 'err ' + exc_enum(err)
        sends = [d for (p, c, d, _) in new if p == self.port and c == 0]
        return 'ok sends=%s finished=%d st=%s req=%d nbr=%d crc=%d' % (
            ','.join(hexs(d) for d in sends) if sends else '-', self._tocdone - fin0, self._state(), f.requested_index or 0,
            f.nbr_of_items or 0, f._crc)

    def fdisc(self):
        self.cf.disconnected.call('sim://stub')
        f = self.fetcher
        reg = self.registered() or f._disconnected in self.cf.disconnected.callbacks
        self.nsent = len(self.cf.sent)
        return 'ok st=%s registered=%d' % (self._state(), 1 if reg else 0)

    @property
    def _tocdone(self):
        """did the current TocFetcher's finished callback run (for param: refresh_done, observable through its effects)"""
        if self.kind == 'log':
            return self.done - self.done_base
        return 1 if (self.done > self.done_base or len(self.cf.workers) > self.workers_base) else 0

    # ---- extended types (param only) ----
    def _w(self):
        return self.cf.workers[-1] if len(self.cf.workers) > self.workers_base else None

    def _xactive(self, w):
        return (self.port, w._new_packet_cb) in self.cf.cbs or w._disconnected in self.cf.disconnected.callbacks

    def _xshow(self, w):
        ids = [struct_id(pk.data) for pk in list(w.request_queue.queue)]
        return 'ok count=%d done=%d locked=%d req=%d queue=%s active=%d' % (
            w._count, self.done - self.done_base, 1 if w._lock.locked() else 0, w._req_param,
            ','.join(map(str, ids)) if ids else '-', 1 if self._xactive(w) else 0)

    def xstart(self):
        w = self._w()
        if w is None:
            return 'ok none' if self.done - self.done_base == 1 else 'err no-callback'
        ids = [struct_id(pk.data) for pk in list(w.request_queue.queue)]
        return 'ok queue=%s count=%d' % (','.join(map(str, ids)) if ids else '-', w._count)

    def xworker(self):
        from harness.sim import crazyflie_device as sim
        w = self._w()
        if not sim.worker_ready(w):
            return 'ok idle'
        n = len(self.cf.sent)
        sim.step_worker(w)
        new = self.cf.sent[n:]
        self.nsent = len(self.cf.sent)
        return 'ok ' + ','.join(hexs(d) for (_, _, d, _) in new)

    def xpkt(self, chan, data):
        from cflib.crazyflie.param import _ExtendedTypeFetcher
        w = self._w()
        err = self._dispatch(_ExtendedTypeFetcher, chan, data)
        if err is not None:
            return 'err ' + exc_enum(err)
        return self._xshow(w)

    def xdisc(self):
        self.cf.disconnected.call('sim://stub')
        return self._xshow(self._w())


def struct_id(data):
    return data[1] | data[2] << 8


def real_lookup(toc, op, args):
    try:
        if op == 'get':
            e = toc.get_element(_lat(args[0]), _lat(args[1]))
        elif op == 'byid':
            e = toc.get_element_by_id(args[0])
        else:
            e = toc.get_element_by_complete_name(_lat(args[0]))
    except Exception as ex:
        return 'err ' + exc_enum(ex)
    return 'ok none' if e is None else 'ok ' + show_elem(e)


# ------------------------------------------------------------------------------------------------------
# generators
# ------------------------------------------------------------------------------------------------------
LOG_CODES = [1, 2, 3, 4, 5, 6, 7, 8]
PARAM_CODES = [0x08, 0x09, 0x0A, 0x0B, 0x00, 0x01, 0x02, 0x03, 0x05, 0x06, 0x07]
IDENT_CHARS = b'abcdefghijklmnopqrstuvwxyzABCDEFGHIJKLMNOPQRSTUVWXYZ0123456789_'


def gen_name(rng, n, rich=False):
    if rich:   # any non-NUL byte (ISO-8859-1), occasionally a dot
        return bytes(rng.choice([rng.randrange(1, 256), 46, rng.choice(IDENT_CHARS)]) for _ in range(n))
    return bytes(rng.choice(IDENT_CHARS) for _ in range(n))


def gen_table(rng, kind, n, v2, rich=False, p_ext=0.4):
    """n entries with pairwise distinct (group, name); lengths up to the packet limit; all type codes"""
    from harness.sim import crazyflie_device as sim
    budget = sim.name_budget(v2)
    items, seen = [], set()
    groups = []
    while len(items) < n:
        if groups and rng.random() < 0.7:
            g = rng.choice(groups)
        else:
            g = gen_name(rng, rng.choice([0, 1, 1, 2, 3, 5, 8, budget - 1, budget]) if rich or rng.random() < 0.2 else rng.randrange(1, 9), rich)
            groups.append(g)
        room = budget - len(g)
        ln = rng.choice([0, 1, room, room, max(0, room - 1)]) if rng.random() < 0.25 else rng.randrange(0, room + 1)
        nm = gen_name(rng, min(ln, room), rich)
        if (g, nm) in seen:
            if len(g) == budget and len(seen) > 200:
                groups.remove(g) if g in groups else None
            continue
        seen.add((g, nm))
        i = len(items)
        if kind == 'log':
            code = LOG_CODES[i % 8] if i < 8 else rng.choice(LOG_CODES)
            items.append(sim.LogVar(_lat(g), _lat(nm), sim.LOG_TYPE_NAME[code], value=i % 100))
        else:
            code = PARAM_CODES[i % 11] if i < 11 else rng.choice(PARAM_CODES)
            ext = rng.random() < p_ext
            items.append(sim.ParamVar(_lat(g), _lat(nm), sim.PARAM_TYPE_NAME[code], value=i % 100, readonly=rng.random() < 0.3,
                                      extended=ext, persistent=ext and rng.random() < 0.6))
            if rich and rng.random() < 0.3:     # free bits of the type byte (0x20, 0x80)
                items[-1].raw_type = items[-1].type_byte | rng.choice([0x20, 0x80, 0xA0])
    return items


def make_dev(rng, nlog, npar, v2, rich=False, **kw):
    from harness.sim import crazyflie_device as sim
    return sim.CrazyflieDevice(protocol_version=rng.choice([4, 5, 10]) if v2 else rng.choice([0, 1, 3]),
                               log_toc=gen_table(rng, 'log', nlog, v2, rich),
                               param_toc=gen_table(rng, 'param', npar, v2, rich, p_ext=0.4 if npar < 5000 else 0.02),
                               mems=[sim.Mem(0, data=bytes(16))], **kw)


def gen_toc_history(rng, unique=True):
    """a history of operations on one Toc object: lookups on the empty table, add_element, clear(), snapshots and direct
    assignment of the dictionary (what TocFetcher does on a cache hit), lookups at every point.
    -> [('add', kind, ident, data) | ('clear',) | ('snap',) | ('install', k) | ('get', g, n) | ('byid', i) | ('bycn', s) | ('dump',)]"""
    kind = rng.choice(['log', 'param'])
    n = rng.choice([0, 1, 2, 3, 5, 8, 13])
    items = gen_table(rng, kind, max(n, 1), True, rich=rng.random() < 0.3)
    from harness.sim import crazyflie_device as sim
    ops = []
    nsnaps = 0
    present = []

    def lookups(k):
        for _ in range(k):
            x = rng.random()
            it = rng.choice(items)
            g, nm = it.group.encode('ISO-8859-1'), it.name.encode('ISO-8859-1')
            if x < 0.4:
                ops.append(('byid', rng.choice([0, 1, rng.randrange(0, len(items) + 2)])))
            elif x < 0.7:
                ops.append(('get', g, nm))
            else:
                ops.append(('bycn', g + b'.' + nm))
    lookups(rng.randrange(0, 3))                       # on the still empty table
    for step in range(rng.randrange(2, 14)):
        x = rng.random()
        if x < 0.5:
            i = rng.randrange(len(items))
            ident = i if unique else rng.choice([i, i, rng.randrange(len(items))])
            ops.append(('add', kind, ident, sim.item_bytes(items[i])))
        elif x < 0.58:
            ops.append(('clear',))
        elif x < 0.75:
            ops.append(('snap',))
            nsnaps += 1
        elif nsnaps:
            ops.append(('install', rng.randrange(nsnaps)))
        lookups(rng.randrange(0, 3))
        if rng.random() < 0.3:
            ops.append(('dump',))
    ops.append(('dump',))
    return ops


class RealTocHistory:
    """the same history on a real Toc object"""

    def __init__(self):
        _quiet()
        from cflib.crazyflie.toc import Toc
        self.toc = Toc()
        self.snaps = []

    def apply(self, op):
        from cflib.crazyflie.log import LogTocElement
        from cflib.crazyflie.param import ParamTocElement
        if op[0] == 'add':
            try:
                self.toc.add_element((LogTocElement if op[1] == 'log' else ParamTocElement)(op[2], bytearray(op[3])))
                return 'ok'
            except Exception as e:
                return 'err ' + exc_enum(e)
        if op[0] == 'clear':
            self.toc.clear()
            return 'ok'
        if op[0] == 'snap':
            self.snaps.append({g: dict(m) for g, m in self.toc.toc.items()})
            return 'ok %d' % (len(self.snaps) - 1)
        if op[0] == 'install':
            self.toc.toc = {g: dict(m) for g, m in self.snaps[op[1]].items()}      # TocFetcher: self.toc.toc = cache_data
            return 'ok'
        if op[0] == 'dump':
            return show_toc(self.toc)
        return real_lookup(self.toc, op[0], list(op[1:]))


def history_line(op):
    if op[0] == 'add':
        return 't add %s %d %s' % (op[1], op[2], hexs(op[3]))
    if op[0] in ('clear', 'snap'):
        return 't ' + op[0]
    if op[0] == 'install':
        return 't install %d' % op[1]
    if op[0] == 'dump':
        return 'toc'
    if op[0] == 'byid':
        return 'byid %d' % op[1]
    if op[0] == 'get':
        return 'get %s %s' % (hexs(op[1]), hexs(op[2]))
    return 'bycn %s' % hexs(op[1])


def toc_history_cases(ctx):
    """Tie B for the Toc object: random histories (incl. duplicate keys / idents) on the real object vs the model"""
    rng = ctx.rng
    lines, reals, marks = [], [], []
    for k in range(60 if ctx.tier == 'quick' else 1500):
        ops = gen_toc_history(rng, unique=rng.random() < 0.6)
        r = RealTocHistory()
        marks.append((len(lines), ops))
        lines.append('t new')
        reals.append('ok')
        for op in ops:
            lines.append(history_line(op))
            reals.append(r.apply(op))
            ctx.count('tocop:' + op[0])
    replies = ctx.lean(DRIVER, lines)
    for (a, ops) in marks:
        ctx.case({'op': 'toc-history', 'ops': [o[0] for o in ops][:30]}, ('toc-history', tuple(history_line(o) for o in ops)))
        for j in range(a, a + len(ops) + 1):
            if replies[j] != reals[j]:
                ctx.disagree('toc-history', {'line': lines[j][:200], 'prefix': lines[max(a, j - 8):j]}, replies[j][:300], reals[j][:300])
                break


def toc_object_property(toc):
    """the property's last clause evaluated on a real Toc object against its own dictionary content: every stored element is
    found under its (group, name); when the idents are pairwise different it is also found under its index and (dot-free
    names) under its complete name; idents not in the table find nothing.  -> None | description"""
    content = [(g, n, toc.toc[g][n]) for g in toc.toc for n in toc.toc[g]]
    idents = [e.ident for (_, _, e) in content]
    unique = len(idents) == len(set(idents))
    for (g, n, e) in content:
        if toc.get_element(g, n) is not e:
            return 'get_element(%r, %r) does not return the stored element' % (g, n)
        if unique and toc.get_element_by_id(e.ident) is not e:
            return 'get_element_by_id(%d) does not return the element stored under (%r, %r)' % (e.ident, g, n)
        if unique and '.' not in g and '.' not in n and (toc.get_element_by_complete_name(g + '.' + n) is not e
                                                         or toc.get_element_id(g + '.' + n) != e.ident):
            return 'lookup by complete name %r.%r disagrees with lookup by (group, name)' % (g, n)
    for i in (0, 1, 2, 255, 256, 65535):
        if i not in idents and toc.get_element_by_id(i) is not None:
            return 'get_element_by_id(%d) returns an element although no stored element has that index' % i
    return None


def toc_history_search(ctx):
    """spec twin: after EVERY step of a history (lookups on the empty table, adds, clear, installs by direct assignment) the
    lookups on the real object agree with each other and with the dictionary"""
    rng = ctx.rng
    for k in range(150 if ctx.tier == 'quick' else 3000):
        ops = gen_toc_history(rng, unique=True)
        r = RealTocHistory()
        for j, op in enumerate(ops):
            r.apply(op)
            bad = toc_object_property(r.toc)
            ctx.count('search:toc-history-step')
            if bad:
                hist = [history_line(o) for o in ops[:j + 1]]
                ctx.witness('toc-object-lookups-disagree', 'after a history of Toc operations: ' + bad,
                            {'mode': 'toc-history', 'history': hist})
                break


def replay_toc_history(hist):
    r = RealTocHistory()
    for line in hist:
        w = line.split(' ')
        if w[0] == 't' and w[1] == 'add':
            r.apply(('add', w[2], int(w[3]), bytes.fromhex(w[4]) if w[4] != '-' else b''))
        elif w[0] == 't' and w[1] == 'install':
            r.apply(('install', int(w[2])))
        elif w[0] == 't':
            r.apply((w[1],))
        elif w[0] == 'byid':
            r.apply(('byid', int(w[1])))
        elif w[0] == 'get':
            r.apply(('get',) + tuple(bytes.fromhex(x) if x != '-' else b'' for x in w[1:3]))
        elif w[0] == 'bycn':
            r.apply(('bycn', bytes.fromhex(w[1]) if w[1] != '-' else b''))
        bad = toc_object_property(r.toc)
        if bad:
            return ('toc-object-lookups-disagree', bad, {})
    return None


def decoder_cases(ctx):
    rng = ctx.rng
    cases = []
    for kind in ('dlog', 'dparam'):
        for t in range(256):       # every type byte with a well-formed and a random naming part
            g, n = gen_name(rng, rng.randrange(0, 6)), gen_name(rng, rng.randrange(0, 8))
            cases.append((kind, rng.randrange(0, 70000), bytes([t]) + g + b'\0' + n + b'\0', 'wf'))
        shapes = 400 if ctx.tier == 'quick' else 30000
        for _ in range(shapes):
            t = rng.choice(LOG_CODES if kind == 'dlog' else PARAM_CODES + [0x18, 0x48, 0x58, 0x46]) if rng.random() < 0.8 else rng.randrange(256)
            shape = rng.choice(['wf', 'nonul', 'onenul', 'manynul', 'empty', 'typeonly', 'garbage', 'rich', 'long'])
            if shape == 'empty':
                data = b''
            elif shape == 'typeonly':
                data = bytes([t])
            elif shape == 'nonul':
                data = bytes([t]) + gen_name(rng, rng.randrange(0, 9), True).replace(b'\0', b'x')
            elif shape == 'onenul':
                data = bytes([t]) + gen_name(rng, rng.randrange(0, 5)) + b'\0' + gen_name(rng, rng.randrange(0, 5))
            elif shape == 'manynul':
                data = bytes([t]) + b'\0'.join(gen_name(rng, rng.randrange(0, 4)) for _ in range(rng.randrange(3, 6)))
            elif shape == 'garbage':
                data = bytes(rng.randrange(256) for _ in range(rng.randrange(1, 30)))
            elif shape == 'rich':
                data = bytes([t]) + gen_name(rng, rng.randrange(0, 12), True) + b'\0' + gen_name(rng, rng.randrange(0, 12), True) + b'\0'
            elif shape == 'long':
                k = rng.randrange(0, 25)
                data = bytes([t]) + gen_name(rng, k) + b'\0' + gen_name(rng, 24 - k) + b'\0'
            else:
                data = bytes([t]) + gen_name(rng, rng.randrange(0, 9)) + b'\0' + gen_name(rng, rng.randrange(0, 9)) + b'\0'
            cases.append((kind, rng.randrange(0, 70000), data, shape))
    return cases


class Script:
    """one micro session: the lines for the Lean driver and the thunks producing the real replies, in lock step"""

    def __init__(self):
        self.lines = []
        self.thunks = []
        self.desc = []

    def add(self, line, thunk, desc=None):
        self.lines.append(line)
        self.thunks.append(thunk)
        self.desc.append(desc or line[:120])


def fetch_session(ctx, sc, kind, v2, n, malformed, rich, disconnect=False, cache=False):
    """adversarial delivery schedule against one table; returns summary for counting"""
    rng = ctx.rng
    from harness.sim import crazyflie_device as sim
    items = gen_table(rng, kind, n, v2, rich)
    dev = sim.CrazyflieDevice(protocol_version=4 if v2 else 3, **({'log_toc': items} if kind == 'log' else {'param_toc': items}))
    port = 5 if kind == 'log' else 2
    holder = {}
    stats = collections.Counter()

    def cache_line():
        import tempfile
        if cache:
            holder['dir'] = tempfile.mkdtemp(prefix='c03micro-')
        return 'ok'
    sc.add('cacheon' if cache else 'cacheoff', cache_line)

    def probe():
        """a lookup on the table holder in the middle of whatever is going on"""
        x = rng.random()
        if x < 0.4 or not items:
            i = rng.choice([0, 1, max(0, n - 1), rng.randrange(0, n + 2)])
            sc.add('byid %d' % i, lambda a=i: real_lookup(holder['r'].toc, 'byid', [a]))
        else:
            it = rng.choice(items)
            g, nm = it.group.encode('ISO-8859-1'), it.name.encode('ISO-8859-1')
            if x < 0.7:
                sc.add('get %s %s' % (hexs(g), hexs(nm)), lambda a=g, b=nm: real_lookup(holder['r'].toc, 'get', [a, b]))
            else:
                sc.add('bycn %s' % hexs(g + b'.' + nm), lambda a=g + b'.' + nm: real_lookup(holder['r'].toc, 'bycn', [a]))
        stats['probe'] += 1

    def download(first, abort_at):
        """one download (start .. finished | aborted by a disconnect at step `abort_at`); returns (state, pool)"""
        if first:
            def start():
                holder['r'] = RealFetch(kind, v2, cache_dir=holder.get('dir'))
                return 'ok ' + ','.join(hexs(d) for d in holder['r'].start_req)
        else:
            def start():
                return holder['r'].restart()
        sc.add('fstart %s %d' % (kind, 1 if v2 else 0), start, {'op': 'fstart', 'kind': kind, 'v2': v2, 'n': n, 'first': first})
        pool = [d for (_, _, d) in dev.handle(port, 0, bytes([3 if v2 else 1]))]
        # The schedule is generated against the device alone (the oracle knows which reply is awaited), so the
        # same packet sequence can be handed to model and code.
        awaited = 0          # index in pool of the newest reply
        nreq = 0             # next item to be requested by a correct fetcher
        state = 'info'
        steps = 0
        limit = 4 * n + 40
        hit = cache and not first and holder.get('cached') and n > 0
        if rng.random() < 0.5:
            probe()                                   # before anything arrived: the table is still empty
        while state != 'done' and steps < limit:
            if rng.random() < 0.08:
                probe()
            if abort_at is not None and steps == abort_at:
                sc.add('fdisc', lambda: holder['r'].fdisc())
                stats['disconnect'] += 1
                return 'aborted', pool
            steps += 1
            x = rng.random()
            if x < 0.55 or steps > limit - n - 5:
                pkt, chan, kindp = pool[awaited], 0, 'awaited'
            elif x < 0.80 and pool:
                pkt, chan, kindp = pool[rng.randrange(len(pool))], 0, 'stale'
            elif x < 0.90 or not malformed:
                pkt, chan, kindp = bytes(rng.randrange(256) for _ in range(rng.randrange(0, 12))), rng.choice([1, 2, 3]), 'other'
            else:
                base = pool[rng.randrange(len(pool))]
                m = rng.choice(['trunc', 'forged', 'junk', 'empty'])
                if m == 'trunc':
                    pkt = base[:rng.randrange(0, len(base))]
                elif m == 'forged':      # right index, other content
                    pkt = (bytes([2, nreq & 0xFF, nreq >> 8]) if v2 else bytes([0, nreq & 0xFF])) + bytes([rng.randrange(16)]) + gen_name(rng, 2) + b'\0' + gen_name(rng, 3) + b'\0'
                elif m == 'junk':
                    pkt = bytes(rng.randrange(256) for _ in range(rng.randrange(1, 30)))
                else:
                    pkt = b''
                chan, kindp = 0, 'malformed'
            stats[kindp] += 1
            sc.add('fpkt %d %s' % (chan, hexs(pkt)), lambda c=chan, p=pkt: holder['r'].fpkt(c, p))
            if kindp == 'malformed':
                # the oracle cannot predict what a malformed packet does; the remaining schedule only needs *some*
                # replies, correctness is judged by model == code
                continue
            if kindp == 'awaited':
                if state == 'info' and hit:
                    state = 'done'                    # the cached table is installed, nothing is requested
                    stats['cache-hit'] += 1
                elif state == 'info':
                    state = 'element' if n > 0 else 'done'
                    if n > 0:
                        pool += [d for (_, _, d) in dev.handle(port, 0, bytes([2, 0, 0]) if v2 else bytes([0, 0]))]
                        awaited = len(pool) - 1
                else:
                    nreq += 1
                    if nreq < n:
                        pool += [d for (_, _, d) in dev.handle(port, 0, bytes([2, nreq & 0xFF, nreq >> 8]) if v2 else bytes([0, nreq]))]
                        awaited = len(pool) - 1
                    else:
                        state = 'done'
        if state == 'done' and not malformed:
            holder['cached'] = True
        return state, pool

    abort_at = rng.randrange(0, min(2 * n + 3, 40)) if disconnect else None
    state, pool = download(True, abort_at)
    if state == 'aborted':
        # replies of the lost session still arrive, a second disconnect happens: the aborted fetcher must stay inert
        for _ in range(rng.randrange(1, 5)):
            pkt = pool[rng.randrange(len(pool))]
            sc.add('fpkt 0 %s' % hexs(pkt), lambda p=pkt: holder['r'].fpkt(0, p))
        if rng.random() < 0.3:
            sc.add('fdisc', lambda: holder['r'].fdisc())
        sc.add('toc', lambda: show_toc(holder['r'].toc))
        # a new download on the same objects (reconnect) must behave as from the start
        state, pool = download(False, None)
        stats['restart'] += 1
    if cache and state == 'done' and not malformed:
        # a later connection with the cache present: lookups on the fresh, still empty table, then the cache hit
        sc.add('toc', lambda: show_toc(holder['r'].toc))
        state, pool = download(False, None)
    # a few deliveries after the end (callback removed)
    for _ in range(rng.randrange(0, 3)):
        pkt = pool[rng.randrange(len(pool))]
        sc.add('fpkt 0 %s' % hexs(pkt), lambda p=pkt: holder['r'].fpkt(0, p))
    sc.add('toc', lambda: show_toc(holder['r'].toc))
    # lookups: every access path, hits and misses, dotted names, arity errors
    probes = []
    for it in rng.sample(items, min(len(items), 6)):
        g, nm = it.group.encode('ISO-8859-1'), it.name.encode('ISO-8859-1')
        probes += [('get', g, nm), ('bycn', g + b'.' + nm), ('get', nm, g)]
    for i in [0, 1, n - 1, n, 255, 256, 257, rng.randrange(0, n + 2)]:
        if i >= 0:
            probes.append(('byid', i))
    probes += [('bycn', b'nodot'), ('bycn', b'a.b.c'), ('bycn', b'.'), ('bycn', b''), ('get', b'', b''), ('bycn', gen_name(rng, 3) + b'.' + gen_name(rng, 3))]
    for p in probes:
        if p[0] == 'byid':
            sc.add('byid %d' % p[1], lambda a=p[1]: real_lookup(holder['r'].toc, 'byid', [a]))
        elif p[0] == 'get':
            sc.add('get %s %s' % (hexs(p[1]), hexs(p[2])), lambda a=p[1], b=p[2]: real_lookup(holder['r'].toc, 'get', [a, b]))
        else:
            sc.add('bycn %s' % hexs(p[1]), lambda a=p[1]: real_lookup(holder['r'].toc, 'bycn', [a]))
    if kind == 'param' and state == 'done' and not malformed:
        ext_session(ctx, sc, holder, dev, items, stats)

    def cleanup():
        import shutil
        if holder.get('dir'):
            shutil.rmtree(holder['dir'], ignore_errors=True)
        return 'ok'
    sc.add('cacheoff', cleanup)
    return stats, state


def ext_session(ctx, sc, holder, dev, items, stats):
    """after a finished param download: the extended-type queries under an adversarial schedule"""
    rng = ctx.rng
    sc.add('xstart', lambda: holder['r'].xstart())
    ext_ids = None
    # the oracle needs the request order = iteration order of the real dict; take it from the device table
    # grouped by first occurrence of the group (dict insertion order)
    order = []
    for it in items:
        if it.group not in order:
            order.append(it.group)
    ext_ids = [i for g in order for i, it in enumerate(items) if it.group == g and it.type_byte & 0x10]
    if not ext_ids:
        return
    pool = []
    pending = list(ext_ids)
    outstanding = None
    steps = 0
    xabort = rng.randrange(0, 2 * len(ext_ids) + 2) if rng.random() < 0.25 else None
    while (pending or outstanding is not None) and steps < 6 * len(ext_ids) + 30:
        if xabort is not None and steps == xabort:
            # the link is lost in the extended-type phase: afterwards replies, worker iterations and a further
            # disconnect must leave the object alone
            sc.add('xdisc', lambda: holder['r'].xdisc())
            stats['xdisconnect'] += 1
            for _ in range(rng.randrange(1, 5)):
                if pool and rng.random() < 0.6:
                    pkt = pool[rng.randrange(len(pool))]
                    sc.add('xpkt 3 %s' % hexs(pkt), lambda p=pkt: holder['r'].xpkt(3, p))
                elif rng.random() < 0.5:
                    sc.add('xworker', lambda: holder['r'].xworker())
                else:
                    sc.add('xdisc', lambda: holder['r'].xdisc())
            break
        steps += 1
        x = rng.random()
        if outstanding is None and (x < 0.6 or not pool):
            sc.add('xworker', lambda: holder['r'].xworker())
            outstanding = pending.pop(0)
            pool += [d for (_, _, d) in dev.handle(2, 3, bytes([2, outstanding & 0xFF, outstanding >> 8]))]
            stats['xworker'] += 1
        elif x < 0.5 and outstanding is not None:
            pkt = pool[-1]
            sc.add('xpkt 3 %s' % hexs(pkt), lambda p=pkt: holder['r'].xpkt(3, p))
            outstanding = None
            stats['xawaited'] += 1
        elif x < 0.75 and pool:
            pkt = pool[rng.randrange(len(pool))]
            if outstanding is not None and pkt == pool[-1]:
                outstanding = None
            sc.add('xpkt 3 %s' % hexs(pkt), lambda p=pkt: holder['r'].xpkt(3, p))
            stats['xstale'] += 1
        elif x < 0.85:
            sc.add('xworker', lambda: holder['r'].xworker())     # usually not enabled: must be idle on both sides
            if outstanding is None and pending:
                outstanding = pending.pop(0)
                pool += [d for (_, _, d) in dev.handle(2, 3, bytes([2, outstanding & 0xFF, outstanding >> 8]))]
            stats['xworker-extra'] += 1
        elif x < 0.93:
            chan = rng.choice([0, 1, 2])
            pkt = bytes(rng.randrange(256) for _ in range(rng.randrange(0, 8)))
            sc.add('xpkt %d %s' % (chan, hexs(pkt)), lambda c=chan, p=pkt: holder['r'].xpkt(c, p))
            stats['xother'] += 1
        else:
            # short / foreign misc packets, incl. an unsolicited value-updated notification for the awaited id
            cur = outstanding if outstanding is not None else rng.randrange(0, len(items) + 1)
            pkt = rng.choice([b'', b'\x02', bytes([2, cur & 0xFF]), bytes([2, cur & 0xFF, cur >> 8]),
                              bytes([1, cur & 0xFF, cur >> 8, rng.choice([0, 1, 7])]), bytes([6, cur & 0xFF, cur >> 8, 0, 0])])
            # (fix D29: none of these is an extended-type answer, the query stays outstanding)
            sc.add('xpkt 3 %s' % hexs(pkt), lambda p=pkt: holder['r'].xpkt(3, p))
            stats['xforeign'] += 1
    sc.add('toc', lambda: show_toc(holder['r'].toc))


SIZES_QUICK = [0, 1, 2, 3, 7, 254, 255, 256, 257, 258, 300]


def correspond(ctx):
    from harness.sim import crazyflie_device as sim
    assert sim.self_test()
    rng = ctx.rng
    # ---- decoders ----
    cases = decoder_cases(ctx)
    replies = ctx.lean(DRIVER, ['%s %d %s' % (k, i, hexs(d)) for (k, i, d, _) in cases])
    for (k, i, d, shape), model in zip(cases, replies):
        real = real_decode(k, i, d)
        ctx.count('op:' + k)
        ctx.count('%s:%s' % (k, real.split(' ')[0] + (':' + real.split(' ')[1] if real.startswith('err') else '')))
        ctx.case({'op': k, 'ident': i, 'data': d.hex(), 'shape': shape}, (k, d))
        if real != model:
            ctx.disagree(k, '%s %d %s' % (k, i, d.hex()), model[:300], real[:300])
    # ---- fetch sessions (micro) ----
    sc = Script()
    sessions = []
    sizes = list(SIZES_QUICK)
    nrand = 6 if ctx.tier == 'quick' else 150
    plan = []
    for kind in ('log', 'param'):
        for v2 in (True, False):
            for n in sizes:
                if not v2 and n > 255:
                    continue
                plan.append((kind, v2, n, False, False))
            for _ in range(nrand):
                plan.append((kind, v2, rng.randrange(0, 40), rng.random() < 0.5, rng.random() < 0.5))
            plan.append((kind, v2, rng.choice([254, 255] if not v2 else [256, 257, 300]), True, True))
    if ctx.tier == 'thorough':
        plan += [('log', True, 1000, False, False), ('param', True, 700, False, True)]
    for (kind, v2, n, malformed, rich) in plan:
        start = len(sc.lines)
        stats, state = fetch_session(ctx, sc, kind, v2, n, malformed, rich, disconnect=(n not in SIZES_QUICK or n in (2, 3, 7)) and rng.random() < 0.45,
                                     cache=rng.random() < 0.4)
        sessions.append((start, len(sc.lines), kind, v2, n, malformed, rich, stats, state))
    replies = ctx.lean(DRIVER, sc.lines)
    for (a, b, kind, v2, n, malformed, rich, stats, state) in sessions:
        ok = True
        for j in range(a, b):
            real = sc.thunks[j]()
            ctx.count('op:' + sc.lines[j].split(' ')[0])
            if real.startswith('err'):
                ctx.count('err:' + real.split(' ')[1])
            if 'finished=1' in real:
                ctx.count('finished')
            if real != replies[j]:
                ok = False
                ctx.disagree('fetch-session', {'kind': kind, 'v2': v2, 'n': n, 'line': sc.lines[j][:200], 'at': j - a,
                                               'prefix': sc.lines[max(a, j - 6):j]}, replies[j][:400], real[:400])
                break
        for k, v in stats.items():
            ctx.count('deliver:' + k, v)
        ctx.count('session:%s:%s' % (kind, 'v2' if v2 else 'v1'))
        ctx.case({'op': 'fetch-session', 'kind': kind, 'v2': v2, 'n': n, 'malformed': malformed, 'rich': rich, 'lines': b - a},
                 ('sess', kind, v2, n, malformed, rich, b - a) if (stats['stale'] or stats['malformed'] or n in (0, 255, 256, 257)) else None)
    toc_history_cases(ctx)
    platform_cases(ctx)
    connection_runs(ctx)


def platform_cases(ctx):
    """PlatformService driven packet by packet (both the repaired and the unrepaired behaviour are in the model;
    the one the working tree has is selected by the extractor's platReportsOnce)"""
    rng = ctx.rng
    _quiet()
    from cflib.crazyflie.platformservice import PlatformService
    from cflib.crtp.crtpstack import CRTPPacket
    guarded = _reports_once(X.find(X.parse('cflib/crazyflie/platformservice.py'), 'PlatformService'))
    magic = b'Bitcraze Crazyflie'
    lines, reals = [], []
    for trial in range(60 if ctx.tier == 'quick' else 3000):
        cf = StubCF(0)
        ps = PlatformService(cf)
        started = [0]
        ps.fetch_platform_informations(lambda: started.__setitem__(0, started[0] + 1))
        lines.append('plat start %d' % (1 if guarded else 0))
        reals.append('ok')
        base = len(cf.sent)
        for _ in range(rng.randrange(1, 9)):
            kind = rng.choice(['src', 'src', 'ver', 'ver', 'ver', 'old', 'short', 'other', 'fw'])
            if kind == 'src':
                port, chan, data = 15, 1, magic + bytes(rng.choice(b' abc') for _ in range(rng.randrange(0, 4)))
            elif kind == 'old':
                port, chan, data = 15, 1, bytes(rng.choice(b'Bitcraze Crazyflie xyz') for _ in range(rng.randrange(0, 20)))
            elif kind == 'ver':
                port, chan, data = 13, 1, bytes([0, rng.choice([0, 1, 3, 4, 5, 10, 255])]) + bytes(rng.randrange(256) for _ in range(rng.randrange(0, 3)))
            elif kind == 'short':
                port, chan, data = 13, 1, rng.choice([b'', b'\x00'])
            elif kind == 'fw':
                port, chan, data = 13, 1, b'\x01' + bytes(rng.randrange(256) for _ in range(rng.randrange(0, 5)))
            else:
                port, chan, data = rng.choice([13, 15]), rng.choice([0, 2, 3]), bytes(rng.randrange(256) for _ in range(rng.randrange(0, 5)))
            lines.append('plat pkt %d %d %s' % (port, chan, hexs(data)))
            pk = CRTPPacket(((port & 0xF) << 4) | chan, bytearray(data))
            try:
                for (p, cb) in list(cf.cbs):
                    if p == port:
                        cb(pk)
                reals.append('ok version=%d started=%d queries=%d' % (ps.get_protocol_version(), started[0],
                                                                      len([1 for (p, c, d, _) in cf.sent[base:] if (p, c) == (13, 1)])))
            except Exception as e:
                reals.append('err ' + exc_enum(e))
            ctx.count('plat:' + kind)
    replies = ctx.lean(DRIVER, lines)
    for i, (l, m, r) in enumerate(zip(lines, replies, reals)):
        if l.startswith('plat start'):
            ctx.case({'op': 'platform-session', 'guarded': guarded}, ('plat', i))
        if m != r:
            ctx.disagree('platform', {'line': l, 'prefix': lines[max(0, i - 5):i]}, m, r)
            break


def event_log(s, port):
    """[('pkt', chan, data) | ('worker',)] on `port` up to the moment `connected` fired (see connect_recorded)"""
    out = []
    di = 0
    for kind in s._trace_cut:
        if kind == 'packet':
            p, c, d = s.link.delivered[di]
            di += 1
            if p == port:
                out.append(('pkt', c, d))
        elif kind == 'worker' and port == 2:
            out.append(('worker',))
    return out


def connect_recorded(s, until='connected', **kw):
    """s.connect() that also records the step trace up to (and including) the step in which `until` fired"""
    cut = {}

    def on(*a):
        cut.setdefault('n', len(s.trace))
    getattr(s.cf, until).add_callback(on)
    ok = s.connect(until, **kw)
    s._trace_cut = s.trace[:cut['n']] + ['packet'] if 'n' in cut else list(s.trace)
    return ok


def uniq(seq):
    out = []
    for x in seq:
        if x not in out:
            out.append(x)
    return out


POLICIES = ['none', 'dup2', 'dup3', 'delay', 'dup-delay', 'drop-some', 'random', 'random-drop']


def make_policy(rng, name, ports=(2, 4, 5)):
    from harness.sim import crazyflie_device as sim
    R = sim.Rule
    if name == 'none':
        return sim.ReplyPolicy()
    if name == 'dup2':
        return sim.ReplyPolicy([R('dup', 2, port=p) for p in ports])
    if name == 'dup3':
        return sim.ReplyPolicy([R('dup', 3, port=p) for p in ports])
    if name == 'delay':
        return sim.ReplyPolicy([R('delay', rng.randrange(1, 4), port=p, nth=rng.randrange(0, 3)) for p in ports])
    if name == 'dup-delay':
        def hook(link, req, replies, _rng=rng):
            return [(_rng.randrange(1, 5), r) for r in replies if r[0] in ports and _rng.random() < 0.5]
        return sim.ReplyPolicy(hook=hook)
    if name == 'drop-some':     # needs_resending must be on: every third TOC reply is lost once
        return sim.ReplyPolicy([R('drop', port=p, chan=0, nth=rng.randrange(0, 3), times=1) for p in (2, 5)] +
                               [R('drop', port=2, chan=3, nth=0, times=1)])
    if name == 'random':
        return sim.RandomPolicy(rng, p_dup=0.3, p_delay=0.2, p_drop=0.0, p_stale=0.3, ports=list(ports))
    return sim.RandomPolicy(rng, p_dup=0.2, p_delay=0.15, p_drop=0.12, p_stale=0.25, ports=list(ports))


def connection_plan(ctx):
    rng = ctx.rng
    plan = []
    big = [(0, 0), (1, 1), (2, 2), (255, 254), (254, 255)] if ctx.tier == 'quick' else [(0, 0), (1, 1), (2, 2), (254, 254), (255, 255)]
    for v2 in (True, False):
        for (nl, npar) in big:
            plan.append((v2, nl, npar, rng.choice(POLICIES), True))
        for _ in range(10 if ctx.tier == 'quick' else 250):
            pol = rng.choice(POLICIES)
            plan.append((v2, rng.randrange(0, 30), rng.randrange(0, 30), pol, True if 'drop' in pol else rng.random() < 0.5))
    v2big = [(256, 257), (257, 256), (258, 300), (300, 258)] if ctx.tier == 'quick' else [(256, 256), (257, 257), (258, 258), (300, 300), (700, 1000)]
    for (nl, npar) in v2big:
        pol = rng.choice(POLICIES)
        plan.append((True, nl, npar, pol, True))
    return plan


class EarlyInjector:
    """wraps a reply policy: additionally, at random exchanges from the very first one on, packets arrive that make the
    library look parameters up while the tables are not (yet) there: the unsolicited value-updated notification (2:3
    `01 id16 value`, current generation only) and late answers to reads / writes of an earlier session (2:1, 2:2).
    plain_only: only parameters without the extended flag (before fix D29 a notification for an extended parameter during
    the extended-type phase was taken as the answer to the query)"""

    def __init__(self, base, dev, rng, p=0.2, plain_only=False):
        self.base, self.dev, self.rng, self.p, self.plain_only = base, dev, rng, p, plain_only
        self.injected = 0

    def route(self, link, request, replies):
        out = self.base.route(link, request, replies)
        dev, rng = self.dev, self.rng
        ids = [i for i, v in enumerate(dev.param_toc) if v.ctype != 'FP16' and not (self.plain_only and v.type_byte & 0x10)]
        if ids and rng.random() < self.p:
            i = rng.choice(ids)
            ib = bytes([i & 0xFF, i >> 8]) if dev.v2 else bytes([i & 0xFF])
            kinds = ['stale-read', 'stale-write'] + (['updated', 'updated'] if dev.v2 else [])
            k = rng.choice(kinds)
            if k == 'updated':
                pkt = dev.param_updated(i)
            elif k == 'stale-read':
                pkt = (2, 1, ib + (b'\0' if dev.v2 else b'') + dev.param_value_bytes(i))
            else:
                pkt = (2, 2, ib + dev.param_value_bytes(i))
            out.append((rng.randrange(0, 3), pkt))
            self.injected += 1
        return out


def emit_session(ctx, s, dev, desc, lines, checks):
    """append the model replay of one connected session (log port, param port) and what the real objects ended with"""
    rng = ctx.rng
    usev2 = dev.v2
    for kind, port, toc, items in (('log', 5, s.cf.log.toc, dev.log_toc), ('param', 2, s.cf.param.toc, dev.param_toc)):
        a = len(lines)
        lines.append(('fstart log %d' if kind == 'log' else 'pstart %d') % (1 if usev2 else 0))
        for ev in event_log(s, port):
            if kind == 'log':
                lines.append('fpkt %d %s' % (ev[1], hexs(ev[2])))
            else:
                lines.append('pworker' if ev[0] == 'worker' else 'ppkt %d %s' % (ev[1], hexs(ev[2])))
        lines.append('toc')
        b = len(lines)
        # every lookup path on the real table as it is when `connected` fires
        probes = []
        for i in sorted(set([0, len(items) - 1, len(items)] + [rng.randrange(0, len(items) + 1) for _ in range(3)])):
            if i >= 0:
                probes.append(('byid %d' % i, real_lookup(toc, 'byid', [i])))
        for it in rng.sample(items, min(3, len(items))):
            g, nm = it.group.encode('ISO-8859-1'), it.name.encode('ISO-8859-1')
            probes.append(('get %s %s' % (hexs(g), hexs(nm)), real_lookup(toc, 'get', [g, nm])))
            probes.append(('bycn %s' % hexs(g + b'.' + nm), real_lookup(toc, 'bycn', [g + b'.' + nm])))
        lines += [p[0] for p in probes]
        real_sends = uniq([d for (p, c, d) in s.link.sent if p == port and c in ((0,) if kind == 'log' else (0, 3))])
        checks.append((kind, a, b, desc, show_toc(toc), real_sends, [p[1] for p in probes]))


def connection_runs(ctx):
    """Tie B at connection level: the real Crazyflie object against the simulated device; the packets that reached
    ports 5 and 2 (and the extended-type worker steps) are replayed into the Lean model; tables, lookups, request
    sequence and the moment `connected` fires must agree.  With `cache`: a first connection fills a cache directory, the
    connection under test then finds its tables in the cache while early packets make the library look parameters up
    before the table is installed."""
    from harness.sim import crazyflie_device as sim
    import random
    import shutil
    import tempfile
    rng = ctx.rng
    lines, checks = [], []
    for (v2, nl, npar, polname, nr) in connection_plan(ctx):
        dev = make_dev(rng, nl, npar, v2, rich=rng.random() < 0.3)
        cache = rng.random() < 0.35
        desc = {'op': 'connect', 'v2': v2, 'nlog': nl, 'nparam': npar, 'policy': polname, 'needs_resending': nr, 'cache': cache}
        tmp = tempfile.mkdtemp(prefix='c03conn-') if cache else None
        try:
            lines.append('cacheon' if cache else 'cacheoff')
            pol = make_policy(random.Random(rng.getrandbits(32)), polname)
            if cache:
                first = sim.SyncSession(dev, rw_cache=tmp)
                if not connect_recorded(first):
                    ctx.disagree('connect', desc, 'model: connected', 'real: the cache-filling connection did not connect')
                    continue
                emit_session(ctx, first, dev, dict(desc, phase='fill-cache'), lines, checks)
                same_object = rng.random() < 0.5
                desc['same_object'] = same_object
                pol = EarlyInjector(pol, dev, random.Random(rng.getrandbits(32)), plain_only=False)
                if same_object:      # reconnect of the same Crazyflie object
                    first.close()
                    first.run(max_steps=1000)
                    first.cfg.policy = pol
                    first.cfg.needs_resending = nr
                    first.trace.clear()
                    s = first
                    n0 = len(s.events)
                    cut = {}
                    s.cf.connected.add_callback(lambda *a: cut.setdefault('n', len(s.trace)))
                    s.open()
                    ok = s.run(until=lambda: 'connected' in s.events[n0:]) == 'until'
                    s._trace_cut = s.trace[:cut['n']] + ['packet'] if 'n' in cut else list(s.trace)
                else:
                    first.close()
                    s = sim.SyncSession(dev, needs_resending=nr, policy=pol, rw_cache=tmp)
                    ok = connect_recorded(s)
                ctx.count('connect:cache-hit-session')
                ctx.count('connect:early-packets', pol.injected)
            else:
                s = sim.SyncSession(dev, needs_resending=nr, policy=pol)
                ok = connect_recorded(s)
            ctx.count('connect:' + polname)
            ctx.count('connect:' + ('v2' if v2 else 'v1'))
            for k, v in collections.Counter(s.trace).items():
                ctx.count('step:' + k, v)
            if not ok:
                ctx.disagree('connect', desc, 'model: connected after the awaited replies', 'real: not connected; events=%s' % s.events)
                continue
            ctx.case(desc, ('connect', v2, nl, npar, polname, nr, cache, len(s.link.delivered)))
            emit_session(ctx, s, dev, desc, lines, checks)
            s.close()
        finally:
            if tmp:
                shutil.rmtree(tmp, ignore_errors=True)
    replies = ctx.lean(DRIVER, lines)
    for (kind, a, b, desc, real_toc, real_sends, real_probes) in checks:
        rep = replies[a:b]
        model_probes = replies[b:b + len(real_probes)]
        sends = [rep[0].split(' ')[1]]
        finished = 0
        connected_at = None
        bad = None
        for j, r in enumerate(rep[1:-1]):
            if not r.startswith('ok '):
                if r.startswith('err'):
                    continue
                bad = r
                break
            f = dict(x.split('=', 1) for x in r.split(' ')[1:] if '=' in x)
            if f.get('sends', '-') != '-':
                sends += f['sends'].split(',')
            if kind == 'log':
                finished += int(f.get('finished', 0))
            elif connected_at is None and f.get('connected') == '1':
                connected_at = j
        model_sends = uniq(sends)
        real_hex = [hexs(d) for d in real_sends]
        if kind == 'param':
            # requests the library sent after `connected` (parameter value reads) are not part of the download
            real_hex = real_hex[:len(model_sends)] if real_hex[:len(model_sends)] == model_sends else real_hex
        if bad is not None:
            ctx.disagree('connect-' + kind, desc, bad, 'driver rejected a line')
        elif rep[-1] != real_toc:
            ctx.disagree('connect-%s-table' % kind, desc, rep[-1][:400], real_toc[:400])
        elif model_probes != real_probes:
            j = [x != y for x, y in zip(model_probes, real_probes)].index(True)
            ctx.disagree('connect-%s-lookup' % kind, dict(desc, lookup=lines[b + j][:120]), model_probes[j][:300], real_probes[j][:300])
        elif model_sends != real_hex:
            ctx.disagree('connect-%s-requests' % kind, desc, ','.join(model_sends)[:400], ','.join(real_hex)[:400])
        elif kind == 'log' and finished != 1:
            ctx.disagree('connect-log-finished', desc, 'finished=%d' % finished, 'finished once')
        elif kind == 'param' and connected_at != len(rep) - 3:
            ctx.disagree('connect-param-connected', desc, 'model connected at event %s of %d' % (connected_at, len(rep) - 2),
                         'real: connected fired in the last recorded event')


# ------------------------------------------------------------------------------------------------------
# failing-input search: the property itself, evaluated on the real Crazyflie object with the simulated
# device as the oracle ("the device's tables"), under duplicating / delaying / replaying networks
# ------------------------------------------------------------------------------------------------------
def property_holds(s, dev):
    """-> None if the property holds on this connected session, else (key, what, details)"""
    from harness.sim import crazyflie_device as sim
    t = s.tables()
    if t['log'] != sim.expected_log_toc(dev):
        return ('log-table', 'log TOC differs from the device table when connected is signalled',
                {'got': len(t['log'] or []), 'want': len(dev.log_toc)})
    if t['param'] != sim.expected_param_toc(dev):
        return ('param-table', 'parameter TOC (incl. persistence markers) differs from the device table when connected is signalled',
                {'got': len(t['param'] or []), 'want': len(dev.param_toc)})
    for toc, items in ((s.cf.log.toc, dev.log_toc), (s.cf.param.toc, dev.param_toc)):
        n = len(items)
        # get_element_by_id is linear: on big tables check the boundaries and an evenly spread sample
        idx = range(n) if n <= 600 else sorted(set(list(range(0, 300)) + list(range(n - 300, n)) + list(range(0, n, max(1, n // 400))) +
                                                   [i for i in (254, 255, 256, 257, 4095, 4096, 4097, 32767, 32768, 65534) if i < n]))
        for i in idx:
            v = items[i]
            e = toc.get_element(v.group, v.name)
            if e is None or toc.get_element_by_id(i) is not e:
                return ('lookup', 'lookup by (group, name) and by index disagree', {'index': i})
            if '.' not in v.group and '.' not in v.name:
                if toc.get_element_by_complete_name(v.group + '.' + v.name) is not e or toc.get_element_id(v.group + '.' + v.name) != i:
                    return ('lookup', 'lookup by complete name disagrees with lookup by (group, name)', {'index': i})
    return None


def run_trial(t):
    """one self-contained search trial (also the replay entry point).  t: {'v2','nlog','nparam','needs_resending','mode',
    'seed', optional 'rules': [[action, n, port, chan], ...], 'rich'} -> None | (key, what, detail)"""
    from harness.sim import crazyflie_device as sim
    import random
    mode = t.get('mode', 'rules')
    if mode == 'toc-history':
        return replay_toc_history(t['history'])
    rr = random.Random(t['seed'])
    dev = make_dev(rr, t['nlog'], t['nparam'], t['v2'], rich=t.get('rich', False))
    if mode == 'all-ports':
        pol = sim.RandomPolicy(random.Random(t['seed'] + 1), p_dup=0.25, p_delay=0.2, p_drop=0.0, p_stale=0.3)
        if t.get('notify'):      # + value-updated notifications / late answers for ANY parameter at any time of the setup
            pol = EarlyInjector(pol, dev, random.Random(t['seed'] + 2), p=0.35, plain_only=False)
    elif mode == 'toc-ports-drop':
        pol = sim.RandomPolicy(random.Random(t['seed'] + 1), p_dup=0.2, p_delay=0.15, p_drop=0.1, p_stale=0.25, ports=[2, 5])
    else:
        pol = sim.ReplyPolicy([sim.Rule(a, n, port=po, chan=ch) for (a, n, po, ch) in t.get('rules', [])])
    if mode == 'reconnect':
        return reconnect_trial(t, dev)
    if mode == 'cache':
        return cache_trial(t, dev)
    s = sim.SyncSession(dev, needs_resending=t['needs_resending'], policy=pol)
    ok = s.connect('connected', max_steps=200000 + 40 * (t['nlog'] + t['nparam']))
    bad = property_holds(s, dev) if ok else ('no-connect', 'connected never signalled', {'events': s.events})
    if bad:
        nver = len([1 for (p, c, d) in s.link.delivered if (p, c) == (13, 1) and d[:1] == b'\x00']) + \
            len([1 for (p, c, d) in s.link.delivered if (p, c) == (15, 1) and not d.startswith(b'Bitcraze Crazyflie')])
        repaired = _reports_once(X.find(X.parse('cflib/crazyflie/platformservice.py'), 'PlatformService'))
        key = 'setup-restarted-by-duplicate-platform-reply' if nver > 1 and not repaired else bad[0]
        bad = (key, bad[1], dict(bad[2], first_log_entries=[(v.group, v.name, v.ctype) for v in dev.log_toc[:5]],
                                 first_param_entries=[(v.group, v.name, v.ctype, v.type_byte) for v in dev.param_toc[:5]]))
    s.close()
    return bad


def reconnect_trial(t, dev):
    """the first connection is cut after `cut` exchanged packets (link error from the driver, or close_link()), then the
    SAME Crazyflie object connects again: the tables must be the device's, `connected` must fire once, and every TOC / extended
    type request of the second session must go out once (the fetchers of the lost session must not react)."""
    from harness.sim import crazyflie_device as sim
    how = t.get('how', 'error')
    s = sim.SyncSession(dev, needs_resending=False, fail_after=t['cut'] if how == 'error' else None)
    s.open()
    if how == 'error':
        s.run(max_steps=100000)
    else:
        s.run(until=lambda: s.link.exchanged >= t['cut'], max_steps=100000)
        s.close()
        s.run(max_steps=1000)
    first = list(s.events)
    s.cfg.fail_after = None
    n0 = len(s.events)
    s.open()
    ok = s.run(until=lambda: 'connected' in s.events[n0:], max_steps=200000) == 'until'
    s.run(until=lambda: False, max_steps=50, idle=('workers',))       # whatever is still queued right after `connected`
    second = s.events[n0:]
    bad = None
    if not ok:
        bad = ('no-connect', 'connected never signalled after reconnecting', {'first': first, 'second': second})
    else:
        bad = property_holds(s, dev)
        sent = [(p, c, d) for (p, c, d) in s.link.sent if (p, c) in ((5, 0), (2, 0)) or ((p, c) == (2, 3) and d[:1] == b'\x02')]
        if bad is None and second.count('connected') != 1:
            bad = ('reconnect', '`connected` signalled %d times after reconnecting' % second.count('connected'), {'events': second})
        if bad is None and len(sent) != len(set(sent)):
            dup = sorted({x for x in sent if sent.count(x) > 1})[:3]
            bad = ('reconnect', 'a fetcher of the lost session answers replies of the new one: requests sent twice',
                   {'duplicated_requests': ['%d:%d:%s' % (p, c, d.hex()) for (p, c, d) in dup]})
    s.close()
    return bad


def cache_trial(t, dev):
    """the tables are in the cache (filled by an earlier, undisturbed connection); the connection under test - a new
    Crazyflie object or the same one reconnecting - receives early packets (unsolicited value-updated notifications, late
    answers of the earlier session) from its first exchange on, under a duplicating / delaying network"""
    from harness.sim import crazyflie_device as sim
    import random
    import shutil
    import tempfile
    tmp = tempfile.mkdtemp(prefix='c03cache-')
    try:
        first = sim.SyncSession(dev, rw_cache=tmp)
        if not first.connect('connected', max_steps=200000):
            return ('no-connect', 'connected never signalled (cache-filling connection)', {'events': first.events})
        if t.get('to_full'):
            first.run(until='fully_connected', max_steps=200000)       # parameter reads of the first session happened
        base = sim.RandomPolicy(random.Random(t['seed'] + 1), p_dup=0.2, p_delay=0.15, p_drop=0.0, p_stale=0.2) \
            if t.get('adversary') else sim.ReplyPolicy()
        pol = EarlyInjector(base, dev, random.Random(t['seed'] + 2), p=t.get('p_early', 0.3), plain_only=False)
        if t.get('same_object'):
            first.close()
            first.run(max_steps=1000)
            first.cfg.policy = pol
            s = first
            n0 = len(s.events)
            s.open()
            ok = s.run(until=lambda: 'connected' in s.events[n0:], max_steps=200000) == 'until'
        else:
            first.close()
            s = sim.SyncSession(dev, policy=pol, rw_cache=tmp)
            ok = s.connect('connected', max_steps=200000)
        hits = len([1 for (p, c, d) in s.link.sent if p in (2, 5) and c == 0]) <= 2
        bad = property_holds(s, dev) if ok else ('no-connect', 'connected never signalled with the tables in the cache', {'events': s.events})
        if bad:
            bad = (bad[0], bad[1] + ' (TOC cache present, early packets: %d)' % pol.injected, dict(bad[2], cache_hit=hits))
        s.close()
        return bad
    finally:
        shutil.rmtree(tmp, ignore_errors=True)


def corpus_trials():
    import glob
    import json
    import os
    out = []
    for f in sorted(glob.glob(os.path.join(os.path.dirname(os.path.dirname(os.path.abspath(__file__))), 'corpus', 'c03', '*.json'))):
        for t in json.load(open(f)):
            out.append((os.path.basename(f), t))
    return out


def replay(ctx, rp):
    """./check C03 --replay <file>: re-run the recorded witness on the current tree; True = it STILL FAILS"""
    t = (rp.get('witness') or {}).get('input')
    if not isinstance(t, dict) or ('seed' not in t and t.get('mode') != 'toc-history'):
        print('replay file has no self-contained trial (broken obligations only): run ./check C03')
        return bool(rp.get('broken'))
    bad = run_trial(t)
    print('trial:', t)
    print('result:', 'property holds' if bad is None else bad)
    return bad is not None


def search(ctx):
    from harness.sim import crazyflie_device as sim
    import random
    rng = ctx.rng
    # (1) corpus first: past witnesses (D31: duplicated protocol-version / link-source reply; seeded M1: duplicated
    #     item replies in the legacy generation)
    for name, t in corpus_trials():
        bad = run_trial(t)
        ctx.count('search:corpus')
        if bad:
            ctx.witness(bad[0], bad[1] + ' [corpus %s]' % name, t, detail=bad[2])
    # (1a) reconnect after a connection lost / closed at every point of the setup of a small device (fix D21)
    small = {'v2': True, 'nlog': 3, 'nparam': 4, 'needs_resending': False, 'mode': 'reconnect', 'seed': 5}
    for cut in range(1, 40 if ctx.tier == 'quick' else 60):
        for how in ('error', 'close'):
            t = dict(small, cut=cut, how=how, v2=(cut % 3 != 0))
            ctx.count('search:reconnect')
            bad = run_trial(t)
            if bad:
                ctx.witness('reconnect-' + bad[0], bad[1], t, detail=bad[2])
    for _ in range(20 if ctx.tier == 'quick' else 300):
        t = {'v2': rng.random() < 0.6, 'nlog': rng.randrange(0, 30), 'nparam': rng.randrange(0, 30), 'needs_resending': False,
             'mode': 'reconnect', 'seed': rng.getrandbits(32), 'cut': rng.randrange(1, 90), 'how': rng.choice(['error', 'close'])}
        ctx.count('search:reconnect')
        bad = run_trial(t)
        if bad:
            ctx.witness('reconnect-' + bad[0], bad[1], t, detail=bad[2])
    # (1c) the Toc object itself, after every step of random histories (spec twin of lookups_agree_after_any_history)
    toc_history_search(ctx)
    # (1d) tables installed from the cache while early packets make the library look parameters up
    for k in range(40 if ctx.tier == 'quick' else 600):
        t = {'v2': rng.random() < 0.6, 'nlog': rng.randrange(0, 12), 'nparam': rng.randrange(1, 14), 'needs_resending': False,
             'mode': 'cache', 'seed': rng.getrandbits(32), 'same_object': rng.random() < 0.5, 'adversary': rng.random() < 0.5,
             'p_early': rng.choice([0.15, 0.3, 0.6]), 'to_full': rng.random() < 0.3, 'rich': rng.random() < 0.3}
        ctx.count('search:cache-early')
        bad = run_trial(t)
        if bad:
            ctx.witness('cache-' + bad[0], bad[1], t, detail=bad[2])
    # (1b) cache-present sanity path (cache semantics proper are C11): a table cached by an earlier connection is
    # reused only for the same CRC; a foreign table whose file name merely ends with the same hex digits is not
    import os
    import shutil
    import tempfile
    for v2 in (True, False):
        tmp = tempfile.mkdtemp(prefix='c03cache-')
        try:
            rr = random.Random(11)
            other = make_dev(rr, 4, 3, v2, log_crc=0xDEADBEEF, param_crc=0x12345678)
            s = sim.SyncSession(other, rw_cache=tmp)
            s.connect('connected', max_steps=20000)
            s.close()
            names = sorted(os.listdir(tmp))
            for crcs, label in (((0x0000BEEF, 0x00345678), 'suffix-collision'), ((0xDEADBEEF, 0x12345678), 'same-crc-same-table')):
                dev = make_dev(random.Random(11 if label.startswith('same') else 12), 4 if label.startswith('same') else 5, 3, v2,
                               log_crc=crcs[0], param_crc=crcs[1])
                s = sim.SyncSession(dev, rw_cache=tmp)
                ok = s.connect('connected', max_steps=20000)
                bad = property_holds(s, dev) if ok else ('no-connect', 'connected never signalled', {'events': s.events})
                ctx.count('search:cache-' + label)
                if bad:
                    ctx.witness('cache-' + label, bad[1] + ' with a TOC cache present (%s)' % label,
                                {'v2': v2, 'cache_files_before': names, 'log_crc': '%08X' % crcs[0], 'param_crc': '%08X' % crcs[1]}, detail=bad[2])
                nreq = len([1 for (p, c, d) in s.link.sent if p in (2, 5) and c == 0])
                if label.startswith('same') and ok and nreq != 2:
                    ctx.note('cache hit expected for an unchanged device but %d TOC requests were sent' % nreq)
                s.close()
        finally:
            shutil.rmtree(tmp, ignore_errors=True)
    # (2) generated tables x adversarial networks on every port (no loss on the ports that have no retry)
    sizes = [(0, 0), (1, 0), (0, 1), (2, 2), (255, 3), (3, 255), (256, 2), (2, 256), (257, 257), (258, 1), (300, 300)]
    trials = [(v2, nl, npar) for v2 in (True, False) for (nl, npar) in sizes if v2 or max(nl, npar) <= 255]
    trials += [(rng.random() < 0.5, rng.randrange(0, 40), rng.randrange(0, 40)) for _ in range(60 if ctx.tier == 'quick' else 2500)]
    # the high index byte: tables beyond 4096 entries (quick) and the largest addressable tables (thorough)
    trials += [(True, 4099, 1), (True, 1, 4100)] if ctx.tier == 'quick' else [(True, 65535, 2), (True, 2, 65535), (True, 4099, 4100)]
    for (v2, nl, npar) in trials:
        mode = rng.choice(['all-ports', 'all-ports', 'toc-ports-drop']) if max(nl, npar) < 1000 else 'all-ports'
        t = {'v2': v2, 'nlog': nl, 'nparam': npar, 'needs_resending': True if mode == 'toc-ports-drop' else rng.random() < 0.6,
             'mode': mode, 'seed': rng.getrandbits(32), 'rich': rng.random() < 0.4, 'notify': mode == 'all-ports' and rng.random() < 0.5}
        ctx.count('search:' + mode + ('+notify' if t['notify'] else ''))
        bad = run_trial(t)
        if bad:
            ctx.witness(bad[0], bad[1], t, detail=bad[2])

"""C04 - parameter writes and reads are typed correctly and never cross-attributed.

Tie A: channel / misc-command constants, errno.ENOENT, the ParamTocElement type table, every struct format and
argument text of set_value / request_param_update / the misc requests / _param_updated, the lock-pattern and
release-pattern slices of _ParamUpdater, the comparison texts of the reply handlers, the way misc replies are
routed to requests (FIFO of pending requests = repaired code; one-shot port callbacks matching on the command
byte only = D5) and the dispatcher's iteration discipline are re-extracted into Gen/C04.lean.
Tie B: the REAL Crazyflie/Param/_ParamUpdater/_IncomingPacketHandler code, connected to the simulated
Crazyflie (harness/sim) and driven one atomic step at a time, against the Lean model (Driver/C04.lean).
"""
import ast

from harness.lib import extract as X
from harness.lib.common import ExtractError

PID = 'C04'
LEAN_TARGETS = ['CfVerif.Props.C04']
PROPS_MODULES = ['CfVerif.Props.C04']
DRIVER = 'Driver/C04.lean'
REQUIRED_THEOREMS = ['CfVerif.C04.' + t for t in (
    'gen_misc_routing', 'gen_channels', 'gen_misc_commands', 'gen_type_table', 'gen_set_value', 'gen_updater', 'gen_param_updated',
    'gen_requests', 'gen_handlers', 'read_roundtrip_sys', 'float_overflow_raises',
    'set_value_wire_int', 'refused_without_tx', 'out_of_range_raises', 'set_value_raise_unchanged',
    'set_roundtrip', 'set_roundtrip_int', 'fanout_each_once', 'registrations_nodup',
    'one_outstanding_fifo', 'reply_attribution_partial', 'reply_attribution_counterexample',
    'reply_attribution_duplicates_counterexample', 'open_lock_discipline', 'unmatched_reply_ignored',
    'stale_reply_ignored_when_idle', 'reply_for_other_request_ignored', 'update_callbacks_once_per_answer',
    'stale_same_id_counterexample', 'gen_retry_guard', 'retransmit_only_outstanding', 'gen_handler_unregisters',
    'handler_done_on_every_reply', 'answered_requests_have_no_handler', 'no_handler_no_delivery',
    'gen_callback_before_unregister', 'nested_delivery_is_flat', 'nested_fifo_and_attribution',
    'live_dispatch_reentrant_counterexample', 'gen_session_state', 'reconnect_forgets_previous_connections',
    'next_connection_starts_idle', 'every_connection_fifo')]
TRUSTED = ['harness/corr/c04.py extractor + correspondence + spec twin; harness/sim/crazyflie_device.py (session stepping, link) and harness/vsched',
           'environment model: the firmware parameter server of DESIGN Appendix D (Spec/C04 Dev = harness/sim CrazyflieDevice port 2, cross-checked on every transmitted request)',
           "CPython: struct pack/unpack as modelled in Base/Struct; int(str) on ASCII input; float(str) (passed to the model as an oracle, only reached for "
           "string values of float-typed parameters); str()/float() round trip of numbers; the binary64->binary32 rounding of struct.pack('<f') is modelled "
           '(f64ToF32) and compared bit for bit against CPython, not proved against IEEE 754',
           'queue.Queue is FIFO and put/get are atomic; Lock.acquire/release as modelled (one holder); list(self.cb) is an atomic copy',
           'atomicity: an API call, updater get, updater acquire+transmit, and the dispatch of one received packet are single steps of the model']
ASSUMPTIONS = ['the 60 s wall-clock wait of set_value/get_value before the first full fetch is outside the model (Out.blocked)',
               'FP16 parameters (pytype \'\') are outside the property; the model follows the code (struct.error) and the harness keeps them out of connected tables',
               'misc callbacks may re-enter the API (scripts of API calls, Sys.runS); update callbacks and the immediate refusal callback of '
               'persistent_store(<unknown>) stay inert; the nested theorems assume no callback raises (a raising nested call leaves the handler '
               'registered: modelled and compared, outside the theorem)',
               'link loss, close() and reconnection (queue drain, forced lock release) belong to C02/C10 and are not modelled',
               'duplicated / late / forged packets: covered by the open-system theorems (EvX.inject: lock discipline, FIFO, ignored when idle or when '
               'another index is outstanding, one fan-out per accepted answer); the closed-system theorems (Answers, attribution, round trip) assume '
               'the device answers each request once; a stale answer with the SAME index as the outstanding request is accepted (finding D5c)',
               'the retransmission path of Crazyflie.send_packet is modelled as far as it decides what param packets reach the wire (SysR: patterns, '
               'split timers, _check_for_answers); cancellation of timers on close / link error / reconnect is C10; threading.Timer: cancel() has no '
               'effect once the timer thread woke up (C10 FakeTimer semantics)',
               'the port callback left behind by _ExtendedTypeFetcher after connection (C03) is unregistered by the harness; TOC download itself is C03',
               'reply_attribution is PARTIAL: side condition DistinctAlong (finding D5b)']
RULE = ('cases = request lines of scenarios, each on a fresh simulated Crazyflie (2-10 parameters over all 10 numeric types, V2 and legacy protocol, RO / '
        'persistent / stored mixes) to which the REAL Crazyflie connects through the real TOC download; then random API calls (set_value with boundary, '
        '+-1 outside, huge, float incl. +-0/inf/nan/subnormal/tie patterns, strings, bool, None; get_value; request_param_update; the four misc calls '
        'with and without callback, unknown / malformed names; add/remove update callbacks), single steps of the real _ParamUpdater.run and '
        '_IncomingPacketHandler.run bodies in random order (reply delays), firmware-side changes with notifications, malformed packets, bursts of 1-5 '
        'outstanding misc requests with duplicates; plus direct binary64->binary32 conversion cases.  distinct = distinct (op, observation) pairs; '
        'non-trivial = the step produced an observation (transmission, callback, exception, release)')

PARAM = 'cflib/crazyflie/param.py'
CF = 'cflib/crazyflie/__init__.py'


# ---- Tie A ---------------------------------------------------------------------------------------------
def _lbool(b):
    return 'true' if b else 'false'


def _slices(node):
    """source text of every subscript under node, in source order"""
    res = [(n.lineno, n.col_offset, ast.unparse(n)) for n in ast.walk(node) if isinstance(n, ast.Subscript)]
    return [s for _, _, s in sorted(res)]


def _calls(node, prefix):
    """source text of every call whose function text starts with prefix, in source order"""
    res = [(n.lineno, n.col_offset, ast.unparse(n)) for n in ast.walk(node)
           if isinstance(n, ast.Call) and ast.unparse(n.func).startswith(prefix)]
    return [s for _, _, s in sorted(res)]


def _raises(node):
    res = [(n.lineno, n.col_offset, ast.unparse(n.exc.func) if isinstance(n.exc, ast.Call) else ast.unparse(n.exc))
           for n in ast.walk(node) if isinstance(n, ast.Raise) and n.exc is not None]
    return [s for _, _, s in sorted(res)]


def _assigned(node, target):
    """source text of the values assigned to `target` under node, in source order"""
    res = [(n.lineno, n.col_offset, ast.unparse(n.value)) for n in ast.walk(node)
           if isinstance(n, ast.Assign) and len(n.targets) == 1 and ast.unparse(n.targets[0]) == target]
    return [s for _, _, s in sorted(res)]


def _nested(fn, name):
    for n in ast.walk(fn):
        if isinstance(n, ast.FunctionDef) and n.name == name and n is not fn:
            return n
    raise ExtractError('%s: nested function %s not found' % (fn.name, name))


def _slice_len(text, where):
    """'pk.data[:3]' -> 3"""
    try:
        e = ast.parse(text, mode='eval').body
        assert isinstance(e, ast.Subscript) and ast.unparse(e.value) == 'pk.data' and isinstance(e.slice, ast.Slice)
        assert e.slice.lower is None and e.slice.step is None
        v = ast.literal_eval(e.slice.upper)
        assert isinstance(v, int) and v >= 0
        return v
    except Exception:
        raise ExtractError('%s: expected pk.data[:<n>], got %s' % (where, text))


def _iter_is_snapshot(it, base, where):
    s = ast.unparse(it)
    if s == base:
        return False
    if s in ('list(%s)' % base, 'tuple(%s)' % base, '%s[:]' % base, '%s.copy()' % base):
        return True
    raise ExtractError('%s: iteration source %r is neither %s nor a recognised copy of it' % (where, s, base))


def _unregister_paths(fn, h):
    """lifecycle of a one-shot reply handler `h` (nested new_packet_cb of `fn`): inside the branch taken for a matching reply, is
    `self.cf.remove_port_callback(CRTPPort.PARAM, new_packet_cb)` executed on the path that ends with the early `return` of the
    ENOENT test, and on the path that runs to the end?  -> (enoent_path or None, end_path)"""
    ifs = [n for n in h.body if isinstance(n, ast.If)]
    X.expect(len(ifs) == 1 and not ifs[0].orelse and len(h.body) == 1, fn.name + ': handler is not a single `if <matching reply>:` block')

    def is_remove(st):
        return isinstance(st, ast.Expr) and isinstance(st.value, ast.Call) and ast.unparse(st.value.func) == 'self.cf.remove_port_callback' \
            and [ast.unparse(a) for a in st.value.args] == ['CRTPPort.PARAM', h.name]
    exits = {}
    after_cb = []          # for every remove_port_callback: was the caller's callback called before it on that path?

    def calls_callback(st):
        return any(isinstance(n, ast.Call) and ast.unparse(n.func) == 'callback' for n in ast.walk(st))

    def walk(stmts, removed, called=False):
        """-> removed-flag at fall-through, or None when every path returned"""
        for st in stmts:
            if is_remove(st):
                removed = True
                after_cb.append(called)
            elif isinstance(st, ast.Return):
                exits.setdefault('return', []).append(removed)
                return None
            elif isinstance(st, ast.If):
                a = walk(st.body, removed, called)
                if a is None and 'ENOENT' in ast.unparse(st.test):
                    exits['enoent'] = exits['return'].pop()
                b = walk(st.orelse, removed, called)
                called = called or calls_callback(st)
                if a is None and b is None:
                    return None
                removed = (a if b is None else b if a is None else (a and b))
            elif isinstance(st, (ast.For, ast.While, ast.Try, ast.With)):
                raise ExtractError(fn.name + ': handler contains a statement whose paths are not analysed: ' + ast.unparse(st)[:60])
            elif any(isinstance(n, ast.Return) for n in ast.walk(st)):
                raise ExtractError(fn.name + ': return in an unexpected place')
            elif calls_callback(st):
                called = True
        return removed
    end = walk(ifs[0].body, False)
    X.expect(not exits.get('return'), fn.name + ': handler has a return path that is not the ENOENT one')
    X.expect(end is not None, fn.name + ': handler never reaches its end')
    return exits.get('enoent'), end, after_cb


MISC_FUNCS = [('get_default_value', 'getDefault'), ('persistent_get_state', 'getState'),
              ('persistent_store', 'store'), ('persistent_clear', 'clear')]


def extract(ctx):
    import errno
    g = X.GenFile(PID, [PARAM, CF])
    tree = X.parse(PARAM)
    consts = X.int_assigns(ast.Module(body=[n for n in tree.body if isinstance(n, ast.Assign)], type_ignores=[]))
    for nm in ('TOC_CHANNEL', 'READ_CHANNEL', 'WRITE_CHANNEL', 'MISC_CHANNEL', 'MISC_SETBYNAME', 'MISC_VALUE_UPDATED',
               'MISC_GET_EXTENDED_TYPE', 'MISC_PERSISTENT_STORE', 'MISC_PERSISTENT_GET_STATE', 'MISC_PERSISTENT_CLEAR',
               'MISC_GET_DEFAULT_VALUE'):
        X.expect(nm in consts, 'constant %s not found in param.py' % nm)
        g.nat(nm, consts[nm])
    g.nat('ENOENT', errno.ENOENT)          # the code compares with errno.ENOENT of the running interpreter
    el = X.find(tree, 'ParamTocElement')
    ec = X.int_assigns(ast.Module(body=[n for n in el.body if isinstance(n, ast.Assign)], type_ignores=[]))
    for nm in ('RW_ACCESS', 'RO_ACCESS', 'EXTENDED_PERSISTENT'):
        X.expect(nm in ec, 'ParamTocElement.%s not found' % nm)
        g.nat(nm, ec[nm])
    types = None
    for n in el.body:
        if isinstance(n, ast.Assign) and ast.unparse(n.targets[0]) == 'types':
            types = ast.literal_eval(n.value)
    X.expect(isinstance(types, dict) and types, 'ParamTocElement.types is not a literal dict')
    codes = sorted(types)
    for c in codes:
        X.expect(isinstance(c, int) and 0 <= c < 16 and isinstance(types[c], tuple) and len(types[c]) == 2
                 and all(isinstance(s, str) for s in types[c]), 'ParamTocElement.types: unexpected entry %r' % (c,))
    g.nats('typeCodes', codes)
    g.strings('typeCtypes', [types[c][0] for c in codes])
    g.strings('typeFmts', [types[c][1] for c in codes])

    pa = X.find(tree, 'Param')
    # -- set_value
    sv = X.find(pa, 'set_value')
    sc = X.struct_calls(sv)
    X.expect(len(sc) == 3 and all(c['fn'] == 'pack' for c in sc), 'set_value: expected three struct.pack calls')
    g.string('setIdFmtV2', sc[0]['fmt'] or '?')
    g.string('setIdFmtV1', sc[1]['fmt'] or '?')
    g.strings('setPackArgs', ['%s|%s' % (c['fmt_src'], ','.join(c['args'])) for c in sc])
    # the if/elif/else chain: not element -> KeyError; RO -> AttributeError; else build + enqueue
    chain = [n for n in sv.body if isinstance(n, ast.If) and ast.unparse(n.test) == 'not element']
    X.expect(len(chain) == 1 and len(chain[0].orelse) == 1 and isinstance(chain[0].orelse[0], ast.If),
             'set_value: `if not element ... elif ... else` chain not found')
    c0, c1 = chain[0], chain[0].orelse[0]
    g.strings('setRefusalTests', [ast.unparse(c0.test), ast.unparse(c1.test)])
    g.strings('setRefusalRaises', [','.join(_raises(ast.Module(body=c0.body, type_ignores=[]))),
                                   ','.join(_raises(ast.Module(body=c1.body, type_ignores=[])))])
    g.strings('setRefusalSends', _calls(ast.Module(body=c0.body + c1.body, type_ignores=[]), 'self.param_updater.')
              + _calls(ast.Module(body=c0.body + c1.body, type_ignores=[]), 'self.cf.send_packet'))
    els = ast.Module(body=c1.orelse, type_ignores=[])
    g.strings('setElseUpdaterCalls', _calls(els, 'self.param_updater.'))
    last = c1.orelse[-1] if c1.orelse else None
    g.string('setLastStatement', ast.unparse(last) if last is not None else '')
    ifs = [n for n in c1.orelse if isinstance(n, ast.If)]
    X.expect(len(ifs) == 2, 'set_value: expected two `if`s (index width, conversion) in the else branch')
    conv = [ifs[1]]
    g.string('setFloatTest', ast.unparse(conv[0].test))
    g.strings('setConversions', [ast.unparse(s) for s in conv[0].body + conv[0].orelse])
    g.string('setLookup', ast.unparse([n for n in sv.body if isinstance(n, ast.Assign)][0]))
    g.strings('setHeader', _calls(els, 'pk.set_header'))
    g.string('setV2Test', ast.unparse(ifs[0].test))
    g.strings('setV2Branches', [';'.join(ast.unparse(s) for s in ifs[0].body), ';'.join(ast.unparse(s) for s in ifs[0].orelse)])
    # -- get_value
    gv = X.find(pa, 'get_value')
    g.strings('getValueBody', [ast.unparse(s) for s in gv.body if not isinstance(s, (ast.If, ast.Expr))])
    # -- request_param_update (Param + updater)
    rpu = X.find(pa, 'request_param_update')
    g.strings('requestUpdateCalls', _calls(rpu, 'self.'))
    up = X.find(tree, '_ParamUpdater')
    urpu = X.find(up, 'request_param_update')
    sc = X.struct_calls(urpu)
    X.expect(len(sc) == 2, '_ParamUpdater.request_param_update: expected two struct.pack calls')
    g.string('readIdFmtV2', sc[0]['fmt'] or '?')
    g.string('readIdFmtV1', sc[1]['fmt'] or '?')
    g.strings('readPackArgs', ['%s|%s' % (c['fmt_src'], ','.join(c['args'])) for c in sc])
    g.strings('readHeader', _calls(urpu, 'pk.set_header'))
    g.strings('readUseV2', [ast.unparse(n) for n in urpu.body if isinstance(n, ast.Assign) and ast.unparse(n.targets[0]) == 'self._useV2'])
    g.strings('readQueueCalls', _calls(urpu, 'self.request_queue.'))
    for nm in ('request_param_setvalue', 'send_param_misc'):
        g.strings(nm.replace('_', '') + 'Calls', _calls(X.find(up, nm), 'self.'))
    # -- updater thread
    run = X.find(up, 'run')
    g.strings('runCompares', X.compares(run))
    g.strings('runTests', [ast.unparse(n.test) for n in ast.walk(run) if isinstance(n, (ast.If, ast.While))])
    pats = _assigned(run, 'self._lock_pattern')
    X.expect(len(pats) == 3, '_ParamUpdater.run: expected three assignments to _lock_pattern')
    g.nat('patLenMisc', _slice_len(pats[0], 'run'))
    g.nat('patLenV2', _slice_len(pats[1], 'run'))
    g.nat('patLenV1', _slice_len(pats[2], 'run'))
    g.strings('runCalls', _calls(run, 'self.'))
    # -- updater packet callback
    cb = X.find(up, '_new_packet_cb')
    g.strings('cbCompares', X.compares(cb))
    # the comparisons the model depends on: the two conjuncts that are implied by the enclosing channel test are left out
    g.strings('cbComparesCore', [c for c in X.compares(cb) if c not in ('pk is not None', 'pk.channel != TOC_CHANNEL')])
    # `_lock_pattern` is disarmed when an answer is accepted (both on the read/write and on the misc path)
    g.strings('cbPatternAssigns', _assigned(cb, 'self._lock_pattern'))
    rel = _assigned(cb, 'release_pattern')
    X.expect(len(rel) == 3, '_ParamUpdater._new_packet_cb: expected three assignments to release_pattern')
    g.nat('relLenV2', _slice_len(rel[0], '_new_packet_cb'))
    g.nat('relLenV1', _slice_len(rel[1], '_new_packet_cb'))
    g.nat('relLenMisc', _slice_len(rel[2], '_new_packet_cb'))
    g.strings('cbStrip', _assigned(cb, 'pk.data'))
    g.strings('cbCalls', _calls(cb, 'self.'))
    g.strings('cbTryBodies', [';'.join(ast.unparse(s) for s in n.body) for n in ast.walk(cb) if isinstance(n, ast.Try)])
    # -- _param_updated
    pu = X.find(pa, '_param_updated')
    g.strings('updatedCompares', X.compares(pu))
    g.strings('updatedIdIndex', _assigned(pu, 'id_index'))
    sc = X.struct_calls(pu)
    g.strings('updatedUnpacks', ['%s|%s' % (c['fmt_src'], ','.join(c['args'])) for c in sc])
    g.strings('updatedVarId', _assigned(pu, 'var_id'))
    g.strings('updatedCalls', _calls(pu, 'self.param_update_callbacks') + _calls(pu, 'self.group_update_callbacks')
              + _calls(pu, 'self.all_update_callback') + _calls(pu, 'self.all_updated') + _calls(pu, 'self._initialized'))
    done = [n for n in ast.walk(pu) if isinstance(n, ast.If) and any(ast.unparse(b) == 'self.is_updated = True' for b in n.body)]
    X.expect(len(done) == 1, '_param_updated: the `all parameters updated` test was not found')
    t = done[0].test
    g.strings('updatedCompleteTest', [ast.unparse(v) for v in t.values] if isinstance(t, ast.BoolOp) and isinstance(t.op, ast.And) else [ast.unparse(t)])
    g.strings('updatedCompleteBody', [ast.unparse(b) for b in done[0].body])
    # -- what the objects keep between connections (the Param / _ParamUpdater objects outlive a connection, their Toc does not)
    def _self_attrs(node, stores_only):
        out = set()
        for n in ast.walk(node):
            if isinstance(n, ast.Attribute) and isinstance(n.value, ast.Name) and n.value.id == 'self':
                if not stores_only or isinstance(n.ctx, (ast.Store, ast.Del)):
                    out.add(n.attr)
        return sorted(out)

    def _self_calls(node):
        return sorted(set(ast.unparse(n.func) for n in ast.walk(node) if isinstance(n, ast.Call) and ast.unparse(n.func).startswith('self.')))
    g.strings('paramAttrs', _self_attrs(pa, True))
    g.strings('updatedElement', _assigned(pu, 'element'))
    g.strings('updatedReads', _self_attrs(pu, False))
    g.strings('updatedStores', _self_attrs(pu, True))
    cr, dc = X.find(pa, '_connection_requested'), X.find(pa, '_disconnected')
    g.strings('connReqStores', ['%s = %s' % (ast.unparse(n.targets[0]), ast.unparse(n.value)) for n in ast.walk(cr) if isinstance(n, ast.Assign)])
    g.strings('connReqCalls', _self_calls(cr))
    g.strings('disconnStores', ['%s = %s' % (ast.unparse(n.targets[0]), ast.unparse(n.value)) for n in ast.walk(dc) if isinstance(n, ast.Assign)])
    g.strings('disconnCalls', _self_calls(dc))
    g.strings('updaterAttrs', _self_attrs(up, True))
    uc = X.find(up, 'close')
    g.strings('updaterCloseStores', _self_attrs(uc, True))
    g.strings('updaterCloseCalls', _self_calls(uc))
    g.strings('updatedStore', _assigned(pu, 'self.values[element.group][element.name]'))
    g.strings('updatedValueStr', _assigned(pu, 'value_s'))
    # -- misc requests and reply handlers
    routing = None
    req_fmts = set()
    unreg_order = []
    for fn, short in MISC_FUNCS:
        f = X.find(pa, fn)
        h = _nested(f, 'new_packet_cb')
        adds = _calls(f, 'self.cf.add_port_callback')
        rems = _calls(h, 'self.cf.remove_port_callback')
        if adds:
            # one-shot port callbacks: does the handler also compare the parameter id?
            tests = [ast.unparse(n.test) for n in ast.walk(h) if isinstance(n, ast.If)]
            X.expect(tests and 'pk.data[0] ==' in tests[0], fn + ': one-shot handler does not test the command byte first')
            r = 1 if 'element.ident' in tests[0] else 0
            t0 = [n.test for n in ast.walk(h) if isinstance(n, ast.If)][0]
            g.strings(short + 'Match', [ast.unparse(v) for v in t0.values] if isinstance(t0, ast.BoolOp) and isinstance(t0.op, ast.And) else [ast.unparse(t0)])
            X.expect(len(rems) >= 1, fn + ': one-shot handler never unregisters itself')
            sends = _calls(f, 'self.param_updater.')
            X.expect(sends == ['self.param_updater.send_param_misc(pk)'], fn + ': unexpected request path ' + repr(sends))
            scf = [c for c in X.struct_calls(f) if c['fn'] == 'pack']
            X.expect(len(scf) == 1, fn + ': expected one struct.pack for the request')
            g.string(short + 'ReqFmt', scf[0]['fmt'] or '?')
            req_fmts.add(scf[0]['fmt'] or '?')
            g.strings(short + 'ReqArgs', scf[0]['args'])
            g.string(short + 'RegisterTest', ';'.join(ast.unparse(n.test) for n in f.body if isinstance(n, ast.If) and _calls(n, 'self.cf.add_port_callback')))
            en, end, after_cb = _unregister_paths(f, h)
            unreg_order += after_cb
            X.expect((en is None) == (short in ('store', 'clear')), fn + ': unexpected ENOENT early-return structure')
            g.raw('def %sEnoentUnreg : Bool := %s' % (short, _lbool(True if en is None else en)))
            g.raw('def %sEndUnreg : Bool := %s' % (short, _lbool(end)))
        else:
            r = 2
            sends = _calls(f, 'self._send_misc_request')
            X.expect(len(sends) == 1, fn + ': neither add_port_callback nor exactly one _send_misc_request call')
            call = ast.parse(sends[0], mode='eval').body
            X.expect(len(call.args) == 3 and ast.unparse(call.args[2]) == 'new_packet_cb', fn + ': unexpected _send_misc_request arguments')
            g.string(short + 'ReqFmt', '<BH')      # replaced below by the helper's format
            g.strings(short + 'ReqArgs', [ast.unparse(call.args[0]), ast.unparse(call.args[1])])
            g.string(short + 'RegisterTest', '')
            g.strings(short + 'Match', [])
            g.raw('def %sEnoentUnreg : Bool := true' % short)
            g.raw('def %sEndUnreg : Bool := true' % short)
        X.expect(routing is None or routing == r, 'the four misc functions route replies differently')
        routing = r
        g.strings(short + 'HandlerCompares', X.compares(h))
        g.strings(short + 'HandlerUnpacks', ['%s|%s' % (c['fmt_src'], ','.join(c['args'])) for c in X.struct_calls(h)])
        g.strings(short + 'HandlerCalls', _calls(h, 'callback'))
        g.strings(short + 'Guards', [ast.unparse(n.test) for n in f.body if isinstance(n, ast.If) and not _calls(n, 'self.cf.add_port_callback')])
        g.strings(short + 'GuardRaises', _raises(ast.Module(body=[n for n in f.body if isinstance(n, ast.If)], type_ignores=[])))
    g.nat('miscRouting', routing)
    # the caller's callback is called BEFORE the handler unregisters itself (an exception escaping the callback leaves it registered)
    X.expect(len(set(unreg_order)) <= 1, 'the reply handlers unregister on different sides of the user callback: %r' % unreg_order)
    g.raw('def unregAfterCallback : Bool := ' + _lbool(all(unreg_order)))
    if routing == 2:
        sm = X.find(pa, '_send_misc_request')
        scf = X.struct_calls(sm)
        X.expect(len(scf) == 1 and scf[0]['fn'] == 'pack', '_send_misc_request: expected one struct.pack')
        g.string('miscReqFmt', scf[0]['fmt'] or '?')
        g.strings('miscReqArgs', scf[0]['args'])
        params = [a.arg for a in sm.args.args][1:]
        g.strings('miscSendParams', params)
        withs = [n for n in sm.body if isinstance(n, ast.With)]
        X.expect(len(withs) == 1, '_send_misc_request: expected one `with <lock>:` block')
        g.strings('miscSendLocked', [ast.unparse(s) for s in withs[0].body])
        g.string('miscSendLock', ast.unparse(withs[0].items[0].context_expr))
        g.strings('miscSendHeader', _calls(sm, 'pk.set_header'))
        mr = X.find(pa, '_misc_reply_cb')
        g.strings('miscReplyCompares', X.compares(mr))
        g.strings('miscReplyCommand', _assigned(mr, 'command'))
        g.strings('miscReplyIdent', _assigned(mr, 'ident'))
        g.strings('miscReplyHandler', _assigned(mr, 'reply_handler'))
        loops = [n for n in ast.walk(mr) if isinstance(n, ast.For)]
        X.expect(len(loops) == 1, '_misc_reply_cb: expected one for loop')
        g.string('miscReplyLoop', ast.unparse(loops[0].iter))
        g.strings('miscReplyLoopBody', [ast.unparse(s) for s in loops[0].body[0].body] if isinstance(loops[0].body[0], ast.If) else [])
        g.strings('miscReplyCalls', _calls(mr, 'reply_handler'))
        init = X.find(pa, '__init__')
        g.strings('miscInit', _calls(init, 'self.cf.add_port_callback'))
        disc = X.find(pa, '_disconnected')
        g.strings('miscDisconnect', [ast.unparse(n) for n in ast.walk(disc) if isinstance(n, ast.Assign) and 'misc' in ast.unparse(n.targets[0])])
    else:
        X.expect(len(req_fmts) == 1, 'the four misc requests are packed with different formats: %r' % sorted(req_fmts))
        g.string('miscReqFmt', sorted(req_fmts)[0])
        for nm in ('miscReqArgs', 'miscSendParams', 'miscSendLocked', 'miscSendHeader', 'miscReplyCompares', 'miscReplyCommand',
                   'miscReplyIdent', 'miscReplyHandler', 'miscReplyLoopBody', 'miscReplyCalls', 'miscInit', 'miscDisconnect'):
            g.strings(nm, [])
        g.string('miscSendLock', '')
        g.string('miscReplyLoop', '')
    # -- order of the permanent PARAM port callbacks: the updater's first
    init = X.find(pa, '__init__')
    g.strings('paramInitOrder', [s for s in (ast.unparse(n.value) for n in ast.walk(init) if isinstance(n, (ast.Assign, ast.Expr)))
                                 if s.startswith('_ParamUpdater(') or s.startswith('self.cf.add_port_callback')])
    g.strings('updaterInitPortCb', _calls(X.find(up, '__init__'), 'self.cf.add_port_callback'))
    # -- the dispatcher's iteration discipline (decides who sees a reply with one-shot callbacks)
    cft = X.parse(CF)
    hrun = X.find(cft, '_IncomingPacketHandler.run')
    fors = [n for n in ast.walk(hrun) if isinstance(n, ast.For)]
    X.expect(len(fors) == 1 and isinstance(fors[0].iter, ast.GeneratorExp) and len(fors[0].iter.generators) == 1,
             '_IncomingPacketHandler.run: dispatch loop not found')
    g.raw('def dispatchSnapshot : Bool := ' + _lbool(_iter_is_snapshot(fors[0].iter.generators[0].iter, 'self.cb', 'run')))
    rh = X.find(cft, '_IncomingPacketHandler.remove_header_callback')
    fors = [n for n in ast.walk(rh) if isinstance(n, ast.For)]
    X.expect(len(fors) == 1, 'remove_header_callback: loop not found')
    g.raw('def removeSnapshot : Bool := ' + _lbool(_iter_is_snapshot(fors[0].iter, 'self.cb', 'remove_header_callback')))
    tries = [n for n in ast.walk(hrun) if isinstance(n, ast.Try)]
    X.expect(len(tries) == 1 and [ast.unparse(s) for s in tries[0].body] == ['cb.callback(pk)'] and len(tries[0].handlers) == 1
             and ast.unparse(tries[0].handlers[0].type) == 'Exception', 'run: port callback is no longer called inside try/except Exception')
    g.raw('def dispatchCatches : Bool := true')
    # -- the retransmission path of Crazyflie.send_packet (what a fired retry timer may put on the wire): the path analysis of
    #    the C10 package (imported, not copied) gives the conditions under which a packet is transmitted / a retry timer is armed
    from harness.corr import c10 as C10
    cls = X.find(cft, 'Crazyflie')
    sp = X.find(cls, 'send_packet')
    body = [st for st in sp.body if not (isinstance(st, ast.Expr) and isinstance(st.value, ast.Constant))]
    X.expect(body and isinstance(body[0], ast.If) and len(body[0].body) == 1 and isinstance(body[0].body[0], ast.Raise),
             'send_packet: expected the size check first')
    rest = C10._critical_section(cls, sp, body[1:], X.GenFile(PID, []))
    an = C10._Send(sp)
    an.fn_rest = rest
    an.happens(rest, 'collect')
    tx = an.happens(rest, 'tx')
    tvars = sorted({t[0] for t in an.timers} | {v for _, v, _ in an.registers})
    X.expect(len(tvars) == 1, 'send_packet: retry timers are bound to several variables: %s' % tvars)
    arm_t, arm_r, arm_s = (an.happens(rest, k + tvars[0]) for k in ('timer:', 'register:', 'start:'))
    X.expect(arm_t == arm_r == arm_s, 'send_packet: creating, registering and starting the retry timer no longer coincide')
    g.raw('set_option linter.unusedVariables false')
    g.raw('/-- send_packet (lo: link open, he: a reply is expected, rs: resend, nr: link.needs_resending, pe: the pattern is registered, '
          'ti: the registered timer IS the retry timer that asks): a new retry timer is created, registered for the pattern and started -/')
    g.raw('def sendArms (lo he rs nr pe ti : Bool) : Bool := ' + arm_t)
    g.raw('/-- ... the packet is handed to the link -/')
    g.raw('def sendTransmits (lo he rs nr pe ti : Bool) : Bool := ' + tx)
    for kind in ('fresh', 'resend'):
        keys = sorted({str(k) for k, _, kd in an.registers if kd == kind})
        X.expect(len(keys) == 1, 'send_packet: expected one registration of the retry timer on the %s path' % kind)
        g.string('retry' + kind.capitalize() + 'Pattern', keys[0])
    chk = X.find(cls, '_check_for_answers')
    g.strings('checkCompares', X.compares(chk))
    fin = [n for n in chk.body if isinstance(n, ast.If)][-1]
    g.strings('checkFinalBody', [ast.unparse(b) for b in fin.body])
    g.strings('updaterExpectedReply', [ast.unparse(k.value) for n in ast.walk(run) if isinstance(n, ast.Call) and ast.unparse(n.func) == 'self.cf.send_packet'
                                       for k in n.keywords if k.arg == 'expected_reply'])
    retry = X.find(cls, '_no_answer_do_retry')
    g.strings('retryCalls', _calls(retry, 'self.send_packet'))
    return {'C04.lean': g.render()}


# ---- the real code, driven one atomic step at a time -----------------------------------------------------
import contextlib
import io
import logging
import struct

from harness.lib.common import exc_enum, f32bits, f64bits, hexs

FW_FMT = {'uint8_t': '<B', 'uint16_t': '<H', 'uint32_t': '<I', 'uint64_t': '<Q', 'int8_t': '<b', 'int16_t': '<h',
          'int32_t': '<i', 'int64_t': '<q', 'float': '<f', 'double': '<d'}          # firmware types (not cflib's table)
FW_CODE = {'uint8_t': 0x08, 'uint16_t': 0x09, 'uint32_t': 0x0A, 'uint64_t': 0x0B, 'int8_t': 0x00, 'int16_t': 0x01,
           'int32_t': 0x02, 'int64_t': 0x03, 'float': 0x06, 'double': 0x07}
CTYPES = list(FW_FMT)


class WouldBlock(BaseException):
    """raised instead of blocking 60 s of wall clock in `_initialized.wait`"""


def source_variant():
    """(routing, snapshot) of the tree under test, as Gen/C04 sees it"""
    tree = X.parse(PARAM)
    pa = X.find(tree, 'Param')
    f = X.find(pa, 'get_default_value')
    if _calls(f, 'self.cf.add_port_callback'):
        h = _nested(f, 'new_packet_cb')
        tests = [ast.unparse(n.test) for n in ast.walk(h) if isinstance(n, ast.If)]
        routing = 1 if 'element.ident' in tests[0] else 0
    else:
        routing = 2
    hrun = X.find(X.parse(CF), '_IncomingPacketHandler.run')
    fors = [n for n in ast.walk(hrun) if isinstance(n, ast.For)]
    snap = _iter_is_snapshot(fors[0].iter.generators[0].iter, 'self.cb', 'run')
    return routing, snap


def is_nan_bits(b):
    if b < (1 << 32):
        return (b & 0x7F800000) == 0x7F800000 and (b & 0x7FFFFF) != 0
    return (b & 0x7FF0000000000000) == 0x7FF0000000000000 and (b & 0xFFFFFFFFFFFFF) != 0


def canon_tok(tok):
    """NaN payloads are not observable through str(): map every NaN value token to `fnan`"""
    import re

    def rep(m):
        return 'fnan' if is_nan_bits(int(m.group(1))) else m.group(0)
    return re.sub(r'(?<![0-9a-z])f(\d+)', rep, tok)


class _LogCatch(logging.Handler):
    def __init__(self, sink):
        logging.Handler.__init__(self, level=logging.ERROR)
        self.sink = sink

    def emit(self, record):
        try:
            msg = record.getMessage()
        except Exception:
            msg = str(record.msg)
        if 'Exception while doing callback' not in msg:
            return
        last = [l for l in msg.strip().split('\n') if l.strip()][-1]
        name = last.split(':')[0].strip()
        enum = {'struct.error': 'struct_error', 'IndexError': 'index_error', 'KeyError': 'key_error', 'ValueError': 'value_error',
                'TypeError': 'type_error', 'AttributeError': 'attribute_error', 'OverflowError': 'overflow',
                'ZeroDivisionError': 'zero_div', 'AssertionError': 'assertion'}.get(name, 'other')
        self.sink.append('cberr:' + enum)


class _LockProxy:
    """stands in for `_ParamUpdater.wait_lock`: same behaviour, but a successful release is logged in event order"""

    def __init__(self, lock, sink):
        self._l, self._sink = lock, sink

    def acquire(self, *a, **kw):
        return self._l.acquire(*a, **kw)

    def release(self):
        self._l.release()
        self._sink.append('rel')

    def locked(self):
        return self._l.locked()


class Real:
    """the real Crazyflie + Param connected to a simulated device, one atomic step per call.
    Every method returns the list of observation tokens of the step (same vocabulary as Driver/C04.lean)."""

    def __init__(self, dev, ids, routing, needs_resending=False):
        from harness.sim import crazyflie_device as S
        self.S = S
        self.dev = dev
        self.ids = ids
        self.routing = routing
        self.log = []
        self.s = S.SyncSession(dev, needs_resending=needs_resending)
        lg = logging.getLogger('cflib.crazyflie')
        lg.setLevel(logging.ERROR)
        lg.propagate = False
        for hd in list(lg.handlers):
            lg.removeHandler(hd)
        lg.addHandler(_LogCatch(self.log))
        ok = self.s.connect('connected')
        if not ok:
            raise RuntimeError('simulated connection did not reach `connected`: %r' % (self.s.events,))
        self.cf = self.s.cf
        self.param = self.cf.param
        self.upd = self.param.param_updater
        self.link = self.s.link
        self.in_cb = False
        self.scripts = {}
        self.cf.is_called_by_incoming_handler_thread = lambda: self.in_cb

        def no_wait(timeout=None):
            raise WouldBlock()
        self.param._initialized.wait = no_wait
        if hasattr(self.upd, 'wait_lock'):
            self.upd.wait_lock = _LockProxy(self.upd.wait_lock, self.log)
        self.param.all_updated.add_callback(lambda: self.log.append('allupd'))
        # the extended-type fetcher of the connection phase leaves its port callback registered for ever (C03's domain);
        # it raises on misc packets shorter than 3 bytes.  It is not part of the C04 model: unregister it.
        import cflib.crazyflie.param as pm
        self.cf.incoming.cb = [c for c in self.cf.incoming.cb
                               if not isinstance(getattr(c.callback, '__self__', None), pm._ExtendedTypeFetcher)]
        self.nsent = len(self.link.sent)

    def reconnect(self, dev2):
        """close_link, then open_link with the SAME Crazyflie object to ANOTHER device (e.g. another firmware build: other
        indices / types / protocol version).  Returns the tokens of the close step (disconnect: the updater's close())."""
        with contextlib.redirect_stdout(io.StringIO()):
            self.s.close()
        toks = self._flush()
        self.s.cfg.device = dev2
        self.s.device = dev2
        self.dev = dev2
        del self.s.events[:]
        ok = self.s.connect('connected')
        if not ok:
            raise RuntimeError('simulated re-connection did not reach `connected`: %r' % (self.s.events,))
        self.link = self.s.link
        import cflib.crazyflie.param as pm
        self.cf.incoming.cb = [c for c in self.cf.incoming.cb
                               if not isinstance(getattr(c.callback, '__self__', None), pm._ExtendedTypeFetcher)]
        self.nsent = len(self.link.sent)
        del self.log[:]
        return toks

    # -- canonical views
    def cn(self, name):
        return '.'.join(str(self.ids.setdefault(p, len(self.ids))) for p in name.split('.'))

    def toc_line(self):
        ents = []
        toc = self.param.toc.toc
        code = {v[1]: k for k, v in self._types().items()}
        for g in toc:
            for n in toc[g]:
                e = toc[g][n]
                tc = [k for k, v in self._types().items() if v[0] == e.ctype][0]
                ents.append('%d:%d:%d:%d:%d:%d' % (e.ident, self.ids.setdefault(g, len(self.ids)), self.ids.setdefault(n, len(self.ids)),
                                                   tc, 1 if e.access == 1 else 0, 1 if e.persistent else 0))
        del code
        return ';'.join(ents) or '-'

    def _types(self):
        import cflib.crazyflie.param as pm
        return pm.ParamTocElement.types

    def pytype(self, name):
        try:
            g, n = name.split('.')
            return self.param.toc.toc[g][n].pytype
        except Exception:
            return None

    def val_tok(self, pytype, v):
        """v: the str the library hands out, or a number"""
        if pytype in ('<f', '<d'):
            x = float(v)
            return 'f%d' % (f32bits(x) if pytype == '<f' else f64bits(x))
        return 'i%d' % int(v)

    def _flush(self):
        out = []
        while self.nsent < len(self.link.sent):
            port, chan, data = self.link.sent[self.nsent]
            self.nsent += 1
            if port == 2:
                out.append('tx:%d:%s' % (chan, hexs(data)))
        out += self.log
        del self.log[:]
        return [canon_tok(t) for t in out]

    def _api(self, fn, *a):
        try:
            with contextlib.redirect_stdout(io.StringIO()):
                r = self.s.call(fn, *a)
        except WouldBlock:
            return ['blocked'] + self._flush(), None
        except Exception as e:
            return ['raise:' + exc_enum(e)] + self._flush(), None
        return self._flush(), r

    # -- API steps
    def set_value(self, name, value, in_cb=False):
        self.in_cb = in_cb
        try:
            return self._api(self.param.set_value, name, value)[0]
        finally:
            self.in_cb = False

    def get_value(self, name, in_cb=False):
        self.in_cb = in_cb
        try:
            toks, r = self._api(self.param.get_value, name)
        finally:
            self.in_cb = False
        if r is not None:
            toks = [canon_tok('ret:' + self.val_tok(self.pytype(name), r))] + toks
        return toks

    def request_update(self, name):
        return self._api(self.param.request_param_update, name)[0]

    def proto4(self):
        return self.cf.platform.get_protocol_version() >= 4

    def run_script(self, rid):
        """the re-entrant part of the caller's callback `rid`: further API calls made from inside the reply dispatch.  An exception
        raised by one of them escapes the callback, as it would in an application."""
        calls = getattr(self, 'scripts', {}).get(rid, ())
        prev, self.in_cb = self.in_cb, True
        try:
            for c in calls:
                k, name = c[0], c[1]
                if k == 'set':
                    self.param.set_value(name, c[2])
                elif k == 'get':
                    v = self.param.get_value(name)
                    self.log.append(canon_tok('ret:' + self.val_tok(self.pytype(name), v)))
                elif k == 'requpd':
                    self.param.request_param_update(name)
                elif k == 'getdef':
                    self.param.get_default_value(name, self._misc_cb(c[2], 'd', name))
                elif k == 'getstate':
                    self.param.persistent_get_state(name, self._misc_cb(c[2], 's', name))
                elif k == 'store':
                    self.param.persistent_store(name, None if c[2] is None else self._misc_cb(c[2], 'b', name))
                elif k == 'clear':
                    self.param.persistent_clear(name, None if c[2] is None else self._misc_cb(c[2], 'b', name))
        finally:
            self.in_cb = prev

    def script_line(self, rid):
        out = []
        for c in getattr(self, 'scripts', {}).get(rid, ()):
            k, name = c[0], c[1]
            if k == 'set':
                out.append('set,%s,%s' % (self.cn(name), pyval_tok(c[2])))
            elif k in ('get', 'requpd'):
                out.append('%s,%s' % (k, self.cn(name)))
            else:
                out.append('%s,%s,%s' % (k, self.cn(name), '-' if c[2] is None else c[2]))
        return 'script %d %s' % (rid, ';'.join(out) or '-')

    def _misc_cb(self, rid, kind, pytype_name):
        pt0 = self.pytype(pytype_name)          # the type the request was made for (the table may be another one when a stale handler fires)

        def cb(name, val):
            pt = pt0 or self.pytype(pytype_name)
            if kind == 'd':
                r = 'd:none' if val is None else 'd:' + self.val_tok(pt, val)
            elif kind == 's':
                if val is None:
                    r = 's:none'
                else:
                    r = 's:%d,%s,%s' % (1 if val.is_stored else 0, self.val_tok(pt, val.default_value),
                                        'none' if val.stored_value is None else self.val_tok(pt, val.stored_value))
            else:
                r = 'b:%d' % (1 if val else 0)
            self.log.append('misc:%d:%s:%s' % (rid, self.cn(name), r))
            self.run_script(rid)
        return cb

    def get_default(self, name, rid):
        return self._api(self.param.get_default_value, name, self._misc_cb(rid, 'd', name))[0]

    def get_state(self, name, rid):
        return self._api(self.param.persistent_get_state, name, self._misc_cb(rid, 's', name))[0]

    def store(self, name, rid):
        return self._api(self.param.persistent_store, name, None if rid is None else self._misc_cb(rid, 'b', name))[0]

    def clear(self, name, rid):
        return self._api(self.param.persistent_clear, name, None if rid is None else self._misc_cb(rid, 'b', name))[0]

    def add_cb(self, group, name, cbid, registry):
        def cb(cname, value, _id=cbid):
            self.log.append('upd:%d:%s:%s' % (_id, self.cn(cname), self.val_tok(self.pytype(cname), value)))
        key = (group, name, cbid)
        cb = registry.setdefault(key, cb)        # the same function object for the same (registration, id): Caller de-duplicates
        return self._api(lambda: self.param.add_update_callback(group=group, name=name, cb=cb))[0]

    def remove_cb(self, group, name, cbid, registry):
        cb = registry.get((group, name, cbid)) or (lambda *a: None)
        return self._api(lambda: self.param.remove_update_callback(group, name=name, cb=cb))[0]

    # -- threads
    def upd_step(self):
        if not self.s._worker_ready(self.upd):
            return None
        with self.s._active():
            self.s._step_worker(self.upd)
        return self._flush()

    def deliver(self):
        """dispatch the oldest packet in flight; returns (packet, tokens) or None"""
        if not self.link.ready:
            return None
        pkt = self.link.ready[0]
        with self.s._active():
            self.link.budget = 1
            try:
                self.cf.incoming.run()
            except self.S.PumpStop:
                pass
            finally:
                self.link.budget = None
        return pkt, self._flush()

    def inject(self, chan, data):
        self.link.inject(2, chan, bytes(data))

    # -- duplicated / late replies
    def replay(self, index):
        """the index-th reply the device generated in this session is delivered (queued) once more"""
        self.link.replay(index)

    def hold(self):
        """take the packets in flight off the link (they are late); give them back with unhold()"""
        held = list(self.link.ready)
        self.link.ready.clear()
        return held

    def unhold(self, held, front=False):
        if front:
            for p in reversed(held):
                self.link.ready.appendleft(p)
        else:
            self.link.ready.extend(held)

    # -- split retry timers (machinery of the C10 package: FakeTimer with states N/A/E/D/C, imported not copied)
    def split_timers(self):
        """from now on the retry timers of Crazyflie.send_packet are C10's FakeTimer: `texpire` = the timer thread wakes up (it can
        no longer be cancelled), `trun` = its callback runs.  Undo with restore_timers()."""
        import cflib.crazyflie as cfm
        from harness.corr import c10 as C10
        self._cfm, self._old_timer = cfm, cfm.Timer
        self.ftimers, self.fclock = [], [0]
        C10.FakeTimer.registry, C10.FakeTimer.clock = self.ftimers, self.fclock
        cfm.Timer = C10.FakeTimer

    def restore_timers(self):
        if getattr(self, '_old_timer', None) is not None:
            self._cfm.Timer = self._old_timer
            self._old_timer = None

    def texpire(self, i):
        if i >= len(self.ftimers) or self.ftimers[i].state != 'A':
            return False
        self.fclock[0] = max(self.fclock[0], self.ftimers[i].deadline)
        self.ftimers[i].state = 'E'
        return True

    def trun(self, i):
        """-> None (not enabled) or the PARAM packets the callback retransmitted [(chan, data)]"""
        if i >= len(self.ftimers) or self.ftimers[i].state != 'E':
            return None
        t = self.ftimers[i]
        t.state = 'D'
        n0 = len(self.link.sent)
        t.function(*t.args, **t.kwargs)
        out = [(c, d) for (p, c, d) in self.link.sent[n0:] if p == 2]
        self.nsent = len(self.link.sent)
        return out

    def tstate(self):
        return ''.join(t.state for t in self.ftimers) or '-'

    def timer_step(self):
        """needs_resending links: the earliest retry timer of Crazyflie.send_packet fires (the request is retransmitted and
        the device answers it again).  Returns the retransmitted PARAM packets [(chan, data)], or None when no timer is pending."""
        if not self.s.timers:
            return None
        n0 = len(self.link.sent)
        self.s.fire_timer()
        out = [(c, d) for (p, c, d) in self.link.sent[n0:] if p == 2]
        self.nsent = len(self.link.sent)          # retransmissions are C10's business: not observations of the param model
        return out


# ---- generators ----------------------------------------------------------------------------------------------
def type_range(ct):
    size = struct.calcsize(FW_FMT[ct])
    if ct.startswith('u'):
        return 0, (1 << (8 * size)) - 1
    return -(1 << (8 * size - 1)), (1 << (8 * size - 1)) - 1


def rand_value(rng, ct):
    if ct == 'float':
        return struct.unpack('<f', struct.pack('<I', rng.choice([0, 0x80000000, 0x3F800000, 0x7F7FFFFF, 1, 0x00800000, rng.getrandbits(31) % 0x7F800000])))[0]
    if ct == 'double':
        return struct.unpack('<d', struct.pack('<Q', rng.choice([0, 1 << 63, 0x3FF8000000000000, 1, rng.getrandbits(63) % 0x7FF0000000000000])))[0]
    lo, hi = type_range(ct)
    return rng.choice([lo, hi, 0 if lo == 0 else -1, rng.randint(lo, hi), rng.randint(lo, hi)])


def make_device(rng, S, v2=True, n=None, all_types=False):
    n = n or rng.randint(2, 7)
    groups = ['g%d' % i for i in range(rng.randint(1, 3))]
    ps, used = [], set()
    for i in range(n):
        ct = CTYPES[i % len(CTYPES)] if all_types else rng.choice(CTYPES)
        while True:
            g, nm = rng.choice(groups), 'p%d' % rng.randint(0, 12)
            if (g, nm) not in used:
                used.add((g, nm))
                break
        pers = rng.random() < 0.55
        ps.append(S.ParamVar(g, nm, ct, rand_value(rng, ct), readonly=rng.random() < 0.15, persistent=pers,
                             extended=pers or rng.random() < 0.1, default=rand_value(rng, ct),
                             stored=rand_value(rng, ct) if pers and rng.random() < 0.4 else None))
    return S.CrazyflieDevice(protocol_version=rng.choice([4, 5, 10]) if v2 else rng.choice([1, 3]), param_toc=ps)


def pyval_tok(v):
    if v is None:
        return 'N'
    if isinstance(v, bool):
        return 't' if v else 'n'
    if isinstance(v, int):
        return 'i%d' % v
    if isinstance(v, float):
        return 'f%d' % f64bits(v)
    if isinstance(v, str):
        return 's' + hexs(v.encode('latin-1'))
    raise ValueError(v)


def oracle_tok(v, pytype):
    """CPython's float(str) for this case (only consulted by the model for str values of float-typed parameters)"""
    if not isinstance(v, str) or pytype not in ('<f', '<d'):
        return '-'
    try:
        return 'ok:%d' % f64bits(float(v))
    except Exception as e:
        return 'err:' + exc_enum(e)


INT_STRINGS = ['12', ' 7 ', '-3', '+5', '1_0', '1__0', '_1', '1_', '0x10', '1.5', '', ' ', '- 1', '007', '\t9\n', '1e3', 'abc', '-0',
               '\x1f4', '4\x1c', '1 2', '+-1', '255', '256', '-129', '65536']
FLT_STRINGS = ['1.5', ' 2.5 ', 'nan', 'inf', '-inf', '1e400', '-1e-400', 'abc', '', '1_0.5', '3.4028235e38', '3.5e38', '1e-46', '0x1p3',
               'Infinity', '-0.0', '1e', '.5', '5.']


def gen_value(rng, ct):
    """a value to pass to set_value for a parameter of firmware type ct: boundaries, +-1 outside, random, wrong kinds"""
    r = rng.random()
    if ct in ('float', 'double'):
        if r < 0.35:
            bits = rng.choice([0, 1 << 63, 0x7FF0000000000000, 0xFFF0000000000000, 0x7FF8000000000000, 0x7FF0000000000001,
                               0xFFF8000000000123, 1, 0x000FFFFFFFFFFFFF, 0x0010000000000000, 0x47EFFFFFE0000000, 0x47EFFFFFF0000000,
                               0x47EFFFFFEFFFFFFF, 0x47F0000000000000, 0x36A0000000000000, 0x369FFFFFFFFFFFFF, 0x36A0000000000001,
                               0x3810000000000000, 0x380FFFFFFFFFFFFF, 0x3FF0000010000000, 0x3FF0000030000000, 0x3FF0000010000001,
                               0x7FEFFFFFFFFFFFFF, rng.getrandbits(64), rng.getrandbits(64), (rng.getrandbits(11) % 300 + 750) << 52 | rng.getrandbits(52)])
            return struct.unpack('<d', struct.pack('<Q', bits))[0]
        if r < 0.55:
            return rng.choice([0, 1, -1, 3, 2 ** 24 + 1, 2 ** 53 + 1, -(2 ** 53 + 3), 2 ** 64, 2 ** 127, 2 ** 128, 2 ** 1023, 2 ** 1024, -2 ** 1024,
                               2 ** 1024 - 2 ** 970, 2 ** 1024 - 2 ** 969, rng.getrandbits(70), -rng.getrandbits(60)])
        if r < 0.75:
            return rng.choice(FLT_STRINGS)
        if r < 0.85:
            return rng.choice([True, False, None])
        return rng.uniform(-1e6, 1e6)
    lo, hi = type_range(ct)
    if r < 0.45:
        return rng.choice([lo, hi, lo - 1, hi + 1, 0, -1, 1, lo + 1, hi - 1, rng.randint(lo, hi), rng.randint(lo, hi),
                           rng.randint(lo - 1000, hi + 1000), 2 ** 64, -2 ** 63 - 1, 2 ** 200])
    if r < 0.65:
        return rng.choice(INT_STRINGS + [str(lo), str(hi), str(hi + 1), ' %d ' % lo])
    if r < 0.85:
        return rng.choice([0.0, -0.0, 1.5, -1.5, 0.999, -0.999, float(hi), float(hi) + 1.0, float(lo) - 1.0, 1e30, -1e30, float('inf'),
                           float('-inf'), float('nan'), 5e-324, 255.99, 256.0, -128.99, -129.0, 2.0 ** 63, 2.0 ** 64, -2.0 ** 63,
                           rng.uniform(lo, hi), 4294967295.5, 65535.999])
    return rng.choice([True, False, None])


class Scenario:
    """one scenario = one device + one real session + the request lines for the Lean driver and the expected replies"""

    def __init__(self, ctx, routing, snap, v2=True, n=None, all_types=False, needs_resending=False, split=False):
        from harness.sim import crazyflie_device as S
        self.S = S
        self.ctx = ctx
        self.rng = ctx.rng
        self.dev = make_device(ctx.rng, S, v2=v2, n=n, all_types=all_types)
        _hook_device(self)               # before the session connects: remembers the device's replies to PARAM requests
        self.ids = {}
        self.real = Real(self.dev, self.ids, routing, needs_resending=needs_resending)
        self.lines = []
        self.expect = []
        self.cbreg = {}
        self.rid = 0
        self.names = ['%s.%s' % (p.group, p.name) for p in self.dev.param_toc]
        r = self.real
        self.emit('reset %d %d %d %s' % (routing, 1 if snap else 0, 1 if r.param._useV2 else 0, r.toc_line()), ['ok', '-'])
        self.emit('devreset %d %s' % (1 if self.dev.v2 else 0, self.dev_line()), ['ok', '-'])
        self.split = split and needs_resending
        if self.split:
            r.split_timers()
            self.emit('retry-reset 1', ['ok', '-'])
        # the library has already queued one read per parameter (request_update_of_all_params at `connected`)
        for g in r.param.toc.toc:
            for nm in r.param.toc.toc[g]:
                self.emit('requpd %s %d' % (r.cn('%s.%s' % (g, nm)), 1 if r.proto4() else 0), None)

    def reconnect(self, drained):
        """close_link / open_link of the SAME Crazyflie object to another firmware build (other indices, types, parameters; one time
        in five the other protocol generation).  drained=False: requests may be outstanding / queued when the link is closed."""
        if drained:
            drain(self)
        r = self.real
        v2 = self.dev.v2 if self.rng.random() < 0.8 else not self.dev.v2
        self.dev = other_firmware(self.rng, self.S, self.dev.param_toc, v2=v2)
        if not v2 and len(self.dev.param_toc) > 255:
            raise RuntimeError('table too large')
        _hook_device(self)
        r.reconnect(self.dev)
        self.names = ['%s.%s' % (p.group, p.name) for p in self.dev.param_toc]
        self.emit('reconnect %d %s' % (1 if r.param._useV2 else 0, r.toc_line()), ['ok', '-'])
        self.emit('devreset %d %s' % (1 if self.dev.v2 else 0, self.dev_line()), ['ok', '-'])
        for g in r.param.toc.toc:
            for nm in r.param.toc.toc[g]:
                self.emit('requpd %s %d' % (r.cn('%s.%s' % (g, nm)), 1 if r.proto4() else 0), None)
        self.ctx.count('link:reconnect-%s' % ('drained' if drained else 'outstanding'))

    def dev_line(self):
        ents = []
        for p in self.dev.param_toc:
            fmt = FW_FMT[p.ctype]
            ents.append('%d:%s:%d:%d:%s:%s' % (FW_CODE[p.ctype], hexs(self.S._cast(fmt, p.value)), 1 if p.readonly else 0,
                                               1 if p.persistent else 0, hexs(self.S._cast(fmt, p.default)),
                                               'none' if p.stored is None else hexs(self.S._cast(fmt, p.stored))))
        return ';'.join(ents) or '-'

    def emit(self, line, toks):
        """toks: expected observation tokens (`enq:`/`rel`-free), or None = do not compare (set-up replay)"""
        self.lines.append(line)
        self.expect.append(toks)

    # -- steps executed on the real code and mirrored as request lines
    def upd(self, twin=True):
        """twin=False: the Python device was told to answer this request with a forced status (not executed); the Lean twin is left alone"""
        toks = self.real.upd_step()
        if toks is None:
            self.emit('upd', ['disabled'])
            return False
        self.emit('upd', ['ok'] + toks)
        self.tstate()
        for t in toks:
            if t.startswith('tx:') and twin:
                _, chan, data = t.split(':')
                # the device twin must answer like the Python device did
                want = self.real.link.history[-1:] if self.dev.requests and self.dev.requests[-1][0] == 2 else []
                reps = self.dev_last_replies
                self.emit('dev %s %s' % (chan, data), ['ok'] + ['%d:%s' % (c, hexs(d)) for (_, c, d) in reps])
                del want
        return True

    @property
    def dev_last_replies(self):
        return self._last_replies

    def tstate(self):
        if self.split:
            self.emit('tstate', ['ok', self.real.tstate()])

    def texpire(self, i):
        ok = self.real.texpire(i)
        self.emit('texpire %d' % i, ['ok', '-'] if ok else ['disabled'])
        return ok

    def trun(self, i):
        re = self.real.trun(i)
        if re is None:
            self.emit('trun %d' % i, ['disabled'])
            return None
        toks = []
        for (chan, data) in re:
            toks += ['retx:%d:%s' % (chan, hexs(data)), 'dev=' + ','.join('%d:%s' % (c, hexs(d)) for (_, c, d) in self._last_replies)]
        self.emit('trun %d' % i, ['ok'] + (toks or ['-']))
        self.tstate()
        return re

    def timer(self):
        """a retry timer fires: the retransmitted request reaches the device (twin kept in step); the host model is not involved"""
        re = self.real.timer_step()
        if re is None:
            return False
        for (chan, data) in re:
            self.emit('dev %d %s' % (chan, hexs(data)), ['ok'] + ['%d:%s' % (c, hexs(d)) for (_, c, d) in self._last_replies])
        return True

    def set(self, name, v, in_cb=False):
        r = self.real
        toks = r.set_value(name, v, in_cb)
        self.emit('set %s %s %d %s' % (r.cn(name), pyval_tok(v), 1 if in_cb else 0, oracle_tok(v, r.pytype(name))), ['ok'] + toks)
        return toks

    def deliver(self):
        r = self.real.deliver()
        if r is None:
            return False
        (port, chan, data), toks = r
        if port != 2:
            return True
        self.emit('rx %d %s' % (chan, hexs(data)), ['ok'] + toks)
        self.tstate()
        return True


def _hook_device(sc):
    """remember the replies the Python device produced for the last PARAM request"""
    dev = sc.dev
    orig = dev.handle
    sc._last_replies = []

    def handle(port, chan, data):
        out = orig(port, chan, data)
        if port == 2:
            sc._last_replies = list(out)
        return out
    dev.handle = handle


def strip_model(reply):
    """model reply -> comparable token list (queue insertions are internal, not observable)"""
    toks = reply.split(' ')
    if toks[0] != 'ok':
        return toks
    rest = [canon_tok(t) for t in toks[1:] if not t.startswith('enq:') and t not in ('-', 'rxd')]
    return ['ok'] + rest


def norm_expect(toks):
    if toks and toks[0] == 'ok':
        return ['ok'] + [t for t in toks[1:] if t != '-']
    return toks


def run_ops(sc, nops, weights=None):
    """random API calls / thread steps / deliveries / firmware-side changes on scenario sc"""
    rng, r = sc.rng, sc.real
    ctx = sc.ctx
    dev = sc.dev
    names = sc.names
    bad_names = ['nosuch.p0', names[0].split('.')[0] + '.zz', 'plain', 'a.b.c', '', names[0] + '.x']
    for _ in range(nops):
        x = rng.random()
        if rng.random() < 0.08 and r.link.history:
            # a reply the device generated earlier is delivered (queued) once more: duplicate / stale answer, in whatever state
            k = rng.randrange(len(r.link.history)) if rng.random() < 0.5 else len(r.link.history) - 1
            if r.link.history[k][0] == 2:
                r.replay(k)
                ctx.count('step:replay-chan%d' % r.link.history[k][1])
        if rng.random() < 0.1:
            if sc.timer():
                ctx.count('step:retransmit')
        if sc.split and r.ftimers and rng.random() < 0.25:
            live = [k for k, t in enumerate(r.ftimers) if t.state in 'AE']
            i = rng.choice(live) if live and rng.random() < 0.8 else rng.randrange(len(r.ftimers))
            if rng.random() < 0.5:
                ctx.count('step:texpire' if sc.texpire(i) else 'step:texpire-disabled')
            else:
                re = sc.trun(i)
                ctx.count('step:trun-disabled' if re is None else ('step:trun-retransmits' if re else 'step:trun-dropped'))
        if x < 0.22:
            if not sc.upd():
                ctx.count('step:upd-disabled')
            else:
                ctx.count('step:upd')
        elif x < 0.45:
            ctx.count('step:deliver' if sc.deliver() else 'step:deliver-none')
        elif x < 0.62:
            name = rng.choice(names) if rng.random() < 0.85 else rng.choice(bad_names)
            pt = r.pytype(name)
            ct = None
            for p in dev.param_toc:
                if '%s.%s' % (p.group, p.name) == name:
                    ct = p.ctype
            v = gen_value(rng, ct or rng.choice(CTYPES))
            in_cb = rng.random() < 0.1
            toks = r.set_value(name, v, in_cb)
            sc.emit('set %s %s %d %s' % (r.cn(name), pyval_tok(v), 1 if in_cb else 0, oracle_tok(v, pt)), ['ok'] + toks)
            ctx.count('set:' + (toks[0] if toks else 'queued'))
        elif x < 0.67:
            name = rng.choice(names) if rng.random() < 0.8 else rng.choice(bad_names)
            in_cb = rng.random() < 0.2
            toks = r.get_value(name, in_cb)
            sc.emit('get %s %d' % (r.cn(name), 1 if in_cb else 0), ['ok'] + toks)
            ctx.count('get:' + toks[0].split(':')[0])
        elif x < 0.72:
            name = rng.choice(names) if rng.random() < 0.85 else rng.choice(bad_names)
            toks = r.request_update(name)
            sc.emit('requpd %s %d' % (r.cn(name), 1 if r.proto4() else 0), ['ok'] + toks)
            ctx.count('requpd:' + (toks[0] if toks else 'queued'))
        elif x < 0.86:
            name = rng.choice(names) if rng.random() < 0.9 else rng.choice(bad_names[:3])
            kind = rng.choice(['getdef', 'getstate', 'getstate', 'store', 'clear'])
            sc.rid += 1
            rid = sc.rid
            if rng.random() < 0.25 and name in names:      # (the immediate refusal callback of an unknown name stays inert)
                r.scripts[rid] = gen_script(sc)
                sc.emit(r.script_line(rid), ['ok', '-'])
            if kind == 'getdef':
                toks = r.get_default(name, rid)
                line = 'getdef %s %d' % (r.cn(name), rid)
            elif kind == 'getstate':
                toks = r.get_state(name, rid)
                line = 'getstate %s %d' % (r.cn(name), rid)
            else:
                with_cb = rng.random() < 0.75
                toks = (r.store if kind == 'store' else r.clear)(name, rid if with_cb else None)
                line = '%s %s %s' % (kind, r.cn(name), rid if with_cb else '-')
            sc.emit(line, ['ok'] + toks)
            ctx.count('misc:' + kind + ':' + (toks[0].split(':')[0] if toks else 'queued'))
        elif x < 0.92:
            # firmware-side change, announced or not
            i = rng.randrange(len(dev.param_toc))
            p = dev.param_toc[i]
            v = rand_value(rng, p.ctype)
            pkt = dev.set_param(i, v)
            sc.emit('devset %d %s' % (i, hexs(sc.S._cast(FW_FMT[p.ctype], v))), ['ok'])
            if rng.random() < 0.8:
                sc.emit('devnotify %d' % i, ['ok', '%d:%s' % (pkt[1], hexs(pkt[2]))])
                r.inject(pkt[1], pkt[2])
            ctx.count('step:devset')
        elif x < 0.97:
            g, nm = rng.choice(names).split('.')
            cbid = rng.randint(1, 4)
            mode = rng.choice(['all', 'group', 'name'])
            if rng.random() < 0.75:
                a = (None, None) if mode == 'all' else (g, None) if mode == 'group' else (g, nm)
                toks = r.add_cb(a[0], a[1], cbid, sc.cbreg)
                sc.emit('addcb %s %s %d' % ('-' if a[0] is None else r.cn(a[0]), '-' if a[1] is None else r.cn(a[1]), cbid), ['ok'] + toks)
                ctx.count('cb:add-' + mode)
            else:
                a = (g, None) if mode != 'name' else (g, nm)
                toks = r.remove_cb(a[0], a[1], cbid, sc.cbreg)
                sc.emit('rmcb %s %s %d' % (r.cn(a[0]), '-' if a[1] is None else r.cn(a[1]), cbid), ['ok'] + toks)
                ctx.count('cb:remove' + (':' + toks[0] if toks else ''))
        else:
            # malformed / unsolicited packet
            chan = rng.choice([1, 2, 3, 3, 0])
            data = bytes(rng.randrange(256) for _ in range(rng.choice([0, 1, 2, 3, 4, 6])))
            if rng.random() < 0.5 and chan == 3:
                data = bytes([rng.choice([1, 3, 4, 5, 6])]) + data
            r.inject(chan, data)
            ctx.count('step:inject')


def misc_burst(sc, k):
    """k misc requests issued back to back (all outstanding together), duplicates of (command, parameter) included"""
    rng, r, ctx = sc.rng, sc.real, sc.ctx
    pers = [nm for nm, p in zip(sc.names, sc.dev.param_toc) if p.persistent] or sc.names
    pool = [rng.choice(pers) for _ in range(rng.randint(1, 3))]
    for _ in range(k):
        name = rng.choice(pool)
        kind = rng.choice(['getdef', 'getstate', 'store', 'clear'])
        sc.rid += 1
        rid = sc.rid
        if kind == 'getdef':
            toks, line = r.get_default(name, rid), 'getdef %s %d' % (r.cn(name), rid)
        elif kind == 'getstate':
            toks, line = r.get_state(name, rid), 'getstate %s %d' % (r.cn(name), rid)
        else:
            with_cb = rng.random() < 0.7
            toks = (r.store if kind == 'store' else r.clear)(name, rid if with_cb else None)
            line = '%s %s %s' % (kind, r.cn(name), rid if with_cb else '-')
        sc.emit(line, ['ok'] + toks)
        ctx.count('burst:' + kind)
    ctx.count('burst:k=%d' % k)


def float_cases(ctx, n):
    """the binary64 -> binary32 step of struct.pack('<f') and its inverse, against CPython's struct"""
    rng = ctx.rng
    lines, want = [], []
    special = [0, 1 << 63, 0x7FF0000000000000, 0xFFF0000000000000, 0x7FF8000000000000, 0x7FF0000000000001, 0xFFF8000000000123,
               0x7FF4000000000000, 1, 0x000FFFFFFFFFFFFF, 0x0010000000000000, 0x47EFFFFFE0000000, 0x47EFFFFFF0000000, 0x47EFFFFFEFFFFFFF,
               0x47F0000000000000, 0x36A0000000000000, 0x369FFFFFFFFFFFFF, 0x36A0000000000001, 0x3810000000000000, 0x380FFFFFFFFFFFFF,
               0x380FFFFFF0000000, 0x3FF0000010000000, 0x3FF0000030000000, 0x3FF0000010000001, 0x7FEFFFFFFFFFFFFF, 0x3690000000000000,
               0x36B0000000000000, 0x36A8000000000000]
    for k in range(n):
        if k < len(special):
            b = special[k]
        elif k % 3 == 0:
            b = rng.getrandbits(64)
        elif k % 3 == 1:      # around the binary32 exponent range
            b = (rng.getrandbits(1) << 63) | (rng.randint(1023 - 160, 1023 + 130) << 52) | rng.getrandbits(52)
        else:                 # rounding ties / near ties of the 29 dropped bits
            b = (rng.getrandbits(1) << 63) | (rng.randint(1023 - 130, 1023 + 127) << 52) | (rng.getrandbits(23) << 29) | rng.choice([0x10000000, 0x0FFFFFFF, 0x10000001, 0, 0x1FFFFFFF])
        x = struct.unpack('<d', struct.pack('<Q', b))[0]
        try:
            w = 'ok %d' % struct.unpack('<I', struct.pack('<f', x))[0]
        except OverflowError:
            w = 'err overflow'
        if x != x:
            w = 'nan'       # NaN payload propagation is platform behaviour: compare NaN-ness only
        lines.append('f64to32 %d' % b)
        want.append(w)
    for k in range(n // 2):
        b32 = rng.getrandbits(32) if k > 8 else [0, 1 << 31, 1, 0x7FFFFF, 0x800000, 0x7F7FFFFF, 0x7F800000, 0xFF800000, 0x3F800000][k]
        y = struct.unpack('<f', struct.pack('<I', b32))[0]
        lines.append('f32to64 %d' % b32)
        want.append('nan' if y != y else 'ok %d' % f64bits(y))
    return lines, want


def dup_family(sc):
    """the answer to a write/read of X delivered again (i) while the updater is idle, (ii) while a request for another
    parameter is outstanding, (iii) while another request for X is outstanding; plus, on needs_resending links, the natural
    duplicate: the answer is late, the retry timer retransmits, the device answers both copies"""
    rng, r, ctx, dev = sc.rng, sc.real, sc.ctx, sc.dev
    w = [i for i, p in enumerate(dev.param_toc) if not p.readonly]
    if len(w) < 2 or not getattr(r.param, 'is_updated', False) or not r.proto4():
        return
    ix, iy = rng.sample(w, 2)
    nx, ny = sc.names[ix], sc.names[iy]
    px, py = dev.param_toc[ix], dev.param_toc[iy]
    first = rng.choice(['set', 'read'])
    if first == 'set':
        sc.set(nx, rand_value(rng, px.ctype))
    else:
        sc.emit('requpd %s 1' % r.cn(nx), ['ok'] + r.request_update(nx))
    drain(sc)
    k = len(r.link.history) - 1
    if k < 0 or r.link.history[k][0] != 2 or r.link.history[k][1] not in (1, 2):
        return
    r.replay(k)                                   # (i) idle
    sc.deliver()
    sc.set(ny, rand_value(rng, py.ctype))          # (ii) another parameter outstanding
    if sc.upd():
        held = r.hold()
        r.replay(k)
        sc.deliver()
        r.unhold(held)
    drain(sc)
    if rng.random() < 0.5:                         # (iii) the same parameter outstanding (finding D5c: accepted as its answer)
        sc.set(nx, rand_value(rng, px.ctype))
    else:
        sc.emit('requpd %s 1' % r.cn(nx), ['ok'] + r.request_update(nx))
    if sc.upd():
        held = r.hold()
        r.replay(k)
        sc.deliver()
        r.unhold(held)
    drain(sc)
    if r.s.cfg.needs_resending:                    # natural duplicate
        sc.set(nx, rand_value(rng, px.ctype))
        if sc.upd():
            held = r.hold()
            if sc.timer():
                ctx.count('dup:retransmitted')
            r.unhold(held, front=True)
        drain(sc)
    ctx.count('dup:family-' + first)


def first_byte_two(rng, ct):
    """a value of firmware type ct whose first wire byte is 2 (read as ENOENT by the default-value handler)"""
    size = struct.calcsize(FW_FMT[ct])
    raw = bytes([2]) + bytes(rng.randrange(256) for _ in range(size - 1))
    if ct in ('float', 'double'):
        raw = bytes([2]) + bytes(size - 3) + (b'\x80\x3f' if ct == 'float' else b'\xf0\x3f')
    return struct.unpack(FW_FMT[ct], raw)[0]


def gen_script(sc, depth=0):
    """a re-entrant callback body: 1-3 further API calls (same or other parameters, all four misc kinds, set / read / get),
    whose own callbacks may again have scripts"""
    rng, dev = sc.rng, sc.dev
    calls = []
    for _ in range(rng.randint(1, 3)):
        i = rng.randrange(len(dev.param_toc))
        name, p = sc.names[i], dev.param_toc[i]
        k = rng.choice(['set', 'get', 'requpd', 'getdef', 'getstate', 'store', 'clear', 'getstate', 'store'])
        if k == 'set':
            if p.readonly:
                calls.append(('requpd', name))    # (a call that raises would leave the handler registered: see reentrant_family)
            else:
                calls.append((k, name, rand_value(rng, p.ctype)))
        elif k in ('get', 'requpd'):
            calls.append((k, name))
        else:
            sc.rid += 1
            rid = sc.rid
            if depth < 2 and rng.random() < 0.3:
                sc.real.scripts[rid] = gen_script(sc, depth + 1)
                sc.emit(sc.real.script_line(rid), ['ok', '-'])
            calls.append((k, name, None if (k in ('store', 'clear') and rng.random() < 0.2) else rid))
    return calls


def misc_call(sc, kind, name, with_cb=True, script=None):
    r = sc.real
    sc.rid += 1
    rid = sc.rid
    if script is not None and with_cb:
        r.scripts[rid] = script
        sc.emit(r.script_line(rid), ['ok', '-'])
    if kind == 'getdef':
        toks, line = r.get_default(name, rid), 'getdef %s %d' % (r.cn(name), rid)
    elif kind == 'getstate':
        toks, line = r.get_state(name, rid), 'getstate %s %d' % (r.cn(name), rid)
    else:
        toks = (r.store if kind == 'store' else r.clear)(name, rid if with_cb else None)
        line = '%s %s %s' % (kind, r.cn(name), rid if with_cb else '-')
    sc.emit(line, ['ok'] + toks)


def sequential_family(sc):
    """SEQUENTIAL misc requests on one parameter: each is answered (with every reply variant the device can give - value,
    stored / not stored, default whose first byte is 2, ENOENT and other error statuses, store/clear with and without callback)
    before the next one is issued; a handler left registered after its answer would receive the later replies"""
    rng, r, ctx, dev = sc.rng, sc.real, sc.ctx, sc.dev
    pers = [i for i, p in enumerate(dev.param_toc) if p.persistent]
    if not pers or not r.proto4():
        return
    i = rng.choice(pers)
    name, p = sc.names[i], dev.param_toc[i]
    cmd = {'getdef': 6, 'getstate': 4, 'store': 3, 'clear': 5}
    plan = []
    for kind in ('getstate', 'getdef', 'store', 'clear'):
        plan += [(kind, None), (kind, 2), (kind, rng.choice([7, 12, 13, 22]))]
    plan += [('getdef', 'two'), ('store', 'nocb'), ('clear', 'nocb'), ('getstate', None)]
    rng.shuffle(plan)
    for kind, var in plan:
        twin = True
        if var == 'two':
            p.default = first_byte_two(rng, p.ctype)
            sc.emit('devreset %d %s' % (1 if dev.v2 else 0, sc.dev_line()), ['ok', '-'])
        elif isinstance(var, int):
            dev.force_status(2, 3, bytes([cmd[kind], i & 0xFF, i >> 8]), var)
            twin = False
        misc_call(sc, kind, name, with_cb=(var != 'nocb'))
        if sc.upd(twin=twin):
            sc.deliver()
        drain(sc)
        ctx.count('seq:%s:%s' % (kind, var))
    # and the same query again after each kind was answered at least once
    for kind in ('getstate', 'getdef', 'store', 'clear'):
        misc_call(sc, kind, name)
        drain(sc)


def reentrant_family(sc):
    """the callback of a misc request issues further requests from inside the reply dispatch - in particular the SAME kind of
    query for the SAME parameter (its handler is registered while the old reply is being dispatched and must not see it)"""
    rng, r, ctx, dev = sc.rng, sc.real, sc.ctx, sc.dev
    pers = [i for i, p in enumerate(dev.param_toc) if p.persistent]
    if not pers or not r.proto4():
        return
    i = rng.choice(pers)
    name = sc.names[i]
    for kind in ('getstate', 'getdef', 'store', 'clear'):
        sc.rid += 2
        a, b = sc.rid - 1, sc.rid
        other = rng.choice(['store', 'clear', 'getdef', 'getstate'])
        script = [(other, name, a), (kind, name, b)]
        if rng.random() < 0.5:
            script.insert(rng.randrange(3), ('set', name, rand_value(rng, dev.param_toc[i].ctype)) if not dev.param_toc[i].readonly
                          else ('requpd', name))
        misc_call(sc, kind, name, script=script)
        drain(sc)
        ctx.count('reentrant:' + kind)
    for _ in range(3):
        misc_call(sc, rng.choice(['getstate', 'getdef', 'store', 'clear']), name, script=gen_script(sc))
        drain(sc)
        ctx.count('reentrant:random-script')
    # a nested call that raises: the exception escapes the callback, the handler is NOT unregistered and hears the next reply too
    kind = rng.choice(['getstate', 'getdef', 'store', 'clear'])
    sc.rid += 1
    misc_call(sc, kind, name, script=[(rng.choice(['store', 'clear']), name, None), rng.choice([('get', 'nosuch.p0'), ('requpd', 'plain'), ('set', 'nosuch.p0', 1)])])
    drain(sc)
    misc_call(sc, kind, name)
    drain(sc)
    ctx.count('reentrant:raising-script')


def retry_family(sc):
    """split retry timers: (a) the answer arrives between timer expiry and timer callback and the next request - same
    (channel, index), another channel, or another index - is already transmitted when the callback runs; (b) the callback runs
    before the answer: a legitimate retransmission, both copies answered"""
    rng, r, ctx, dev = sc.rng, sc.real, sc.ctx, sc.dev
    w = [i for i, p in enumerate(dev.param_toc) if not p.readonly]
    if not sc.split or len(w) < 2 or not getattr(r.param, 'is_updated', False) or not r.proto4():
        return
    ix, iy = rng.sample(w, 2)
    nx, ny = sc.names[ix], sc.names[iy]
    px, py = dev.param_toc[ix], dev.param_toc[iy]
    for nxt in ('same', 'read', 'other'):
        sc.set(nx, rand_value(rng, px.ctype))
        if not sc.upd():
            return
        t = len(r.ftimers) - 1
        held = r.hold()
        sc.texpire(t)
        r.unhold(held)
        sc.deliver()                                   # the answer: accepted; the expired timer cannot be cancelled
        if nxt == 'same':
            sc.set(nx, rand_value(rng, px.ctype))
        elif nxt == 'read':
            sc.emit('requpd %s 1' % r.cn(nx), ['ok'] + r.request_update(nx))
        else:
            sc.set(ny, rand_value(rng, py.ctype))
        sc.upd()
        sc.trun(t)                                     # the stale callback
        drain(sc)
        ctx.count('retry:stale-callback-next-' + nxt)
    sc.set(nx, rand_value(rng, px.ctype))              # (b)
    if sc.upd():
        t = len(r.ftimers) - 1
        held = r.hold()
        sc.texpire(t)
        sc.trun(t)
        r.unhold(held, front=True)
        drain(sc)
        ctx.count('retry:legitimate-retransmission')


def drain(sc, limit=400):
    for _ in range(limit):
        a = sc.upd() if sc.real.s._worker_ready(sc.real.upd) else False
        b = sc.deliver()
        if not a and not b:
            break


def correspond(ctx):
    from harness.sim import crazyflie_device as S
    S.self_test()
    routing, snap = source_variant()
    ctx.count('variant:routing=%d,snapshot=%d' % (routing, 1 if snap else 0))
    thorough = ctx.tier == 'thorough'
    scenarios = []
    nsc = 500 if thorough else 120   # 1500 took > 45 min once the reconnect families were added
    for k in range(nsc):
        v2 = ctx.rng.random() < 0.85
        nr = (k % 3 == 1)
        ctx.count('link:needs_resending=%d' % (1 if nr else 0))
        split = nr and (k % 6 == 1)
        sc = Scenario(ctx, routing, snap, v2=v2, all_types=(k % 5 == 0), n=10 if k % 5 == 0 else None, needs_resending=nr, split=split)
        try:
            if k % 7 == 3:
                # values arrive while the connection is not yet established (D28): no "all updated" until it is
                import datetime
                sc.real.cf.connected_ts = None
                sc.emit('set-connected 0', ['ok', '-'])
                drain(sc)
                sc.real.cf.connected_ts = datetime.datetime.now()
                sc.emit('set-connected 1', ['ok', '-'])
                nm0 = sc.names[0]
                sc.emit('requpd %s %d' % (sc.real.cn(nm0), 1 if sc.real.proto4() else 0), ['ok'] + sc.real.request_update(nm0))
                drain(sc)
                ctx.count('link:values-before-connected')
            if ctx.rng.random() < 0.7 or split:
                drain(sc)                       # fetch all values: fully connected
            if split:
                ctx.count('link:split-retry-timers')
                retry_family(sc)
            if k % 2 == 0:
                dup_family(sc)
            if k % 3 == 0:
                drain(sc)
                sequential_family(sc)
            if k % 4 == 1:
                drain(sc)
                reentrant_family(sc)
            if k % 4 == 2 and not nr:
                # the same object connected again, to a device with ANOTHER table; every value path runs on the later connections
                for _ in range(2):
                    run_ops(sc, 25)
                    sc.reconnect(drained=ctx.rng.random() < 0.6)
                    if ctx.rng.random() < 0.5:
                        drain(sc)
            run_ops(sc, 150 if thorough else 80)
            if sc.real.proto4():
                drain(sc)
                misc_burst(sc, 1 + k % 5)
            drain(sc)
        finally:
            sc.real.restore_timers()
        sc.emit('state', None)
        scenarios.append(sc)
    flines, fwant = float_cases(ctx, 20000 if thorough else 2500)
    lines = [l for sc in scenarios for l in sc.lines]
    replies = ctx.lean(DRIVER, lines + flines, timeout=3000)
    for line, want, got in zip(flines, fwant, replies[len(lines):]):
        if want == 'nan':
            ok = got.startswith('ok ') and is_nan_bits(int(got[3:]) if line.startswith('f64to32') else int(got[3:]) | (1 << 62))
            ok = ok or (got.startswith('ok ') and line.startswith('f32to64') and (int(got[3:]) & 0x7FF0000000000000) == 0x7FF0000000000000
                        and (int(got[3:]) & 0xFFFFFFFFFFFFF) != 0)
        else:
            ok = got == want
        ctx.case({'op': line}, ('float', line.split(' ')[0], want.split(' ')[0]))
        ctx.count('float:' + want.split(' ')[0])
        if not ok:
            ctx.disagree('float-conversion', line, got, want)
    i = 0
    for sc in scenarios:
        bad = False
        for line, want in zip(sc.lines, sc.expect):
            got = replies[i]
            i += 1
            if want is None or bad:
                continue
            ctx.case({'op': line[:120]}, line.split(' ')[0] + ':' + ' '.join(norm_expect(want))[:80])
            if strip_model(got) != norm_expect(want):
                ctx.disagree(line.split(' ')[0], line[:300], got[:300], ' '.join(want)[:300])
                bad = True           # the states have diverged: the rest of this scenario is not comparable


# ---- direct evaluation of the property on the real code (failing-input search) -------------------------------
def _pump(r, max_steps=10000):
    """run the real updater / incoming threads' bodies until nothing is left to do"""
    for _ in range(max_steps):
        a = r.upd_step()
        b = r.deliver()
        if a is None and b is None:
            return True
    return False


def _ready(ctx, r, what):
    """after the initial pump every value must have been fetched (is_updated); otherwise reads are broken: report it"""
    if getattr(r.param, 'is_updated', False):
        return True
    ctx.witness('initial-fetch', 'the values of the parameters were not all fetched/decoded after connecting (reads do not complete)',
                {'scenario': what, 'params': [(p.group, p.name, p.ctype) for p in r.dev.param_toc]},
                cached=repr(getattr(r.param, 'values', None))[:300])
    return False


def _call(r, fn, *a):
    """call into the library; -> (raised?, exception or result).  A call that would block for the 60 s timeout counts as raising."""
    try:
        return False, r.s.call(fn, *a)
    except WouldBlock as e:
        return True, e
    except Exception as e:
        return True, e


def _bits(ct, v):
    if ct == 'float':
        return 'nan' if v != v else f32bits(v)
    if ct == 'double':
        return 'nan' if v != v else f64bits(v)
    return int(v)


def _fw_decode(ct, raw):
    return struct.unpack(FW_FMT[ct], raw)[0]


def _expected_misc(devcopy, S, kind, i):
    """what the caller of a misc request must be told, from the device's own reply (firmware layout, Appendix D)"""
    cmd = {'getdef': 6, 'getstate': 4, 'store': 3, 'clear': 5}[kind]
    rep = devcopy.handle(2, 3, bytes([cmd, i & 0xFF, i >> 8]))[0][2]
    ct = devcopy.param_toc[i].ctype
    body = rep[3:]
    if kind in ('store', 'clear'):
        return ('b', body[0] == 0)
    if kind == 'getdef':
        if body[0] == 2:
            # ENOENT - or a default value whose first wire byte is 2, which the wire format cannot tell apart (observation in
            # docs/C04.md; the library reads both as "no default"): not an attribution question
            return ('d', None)
        return ('d', _bits(ct, _fw_decode(ct, body)))
    if body[0] == 2:
        return ('s', None)
    size = struct.calcsize(FW_FMT[ct])
    if body[0] == 0:
        return ('s', (False, _bits(ct, _fw_decode(ct, body[1:1 + size])), None))
    return ('s', (True, _bits(ct, _fw_decode(ct, body[1:1 + size])), _bits(ct, _fw_decode(ct, body[1 + size:1 + 2 * size]))))


def _misc_case(ctx, S, routing, reqs, ctypes, label):
    """reqs: [(kind, param index, with_callback)] issued back to back (all outstanding together), then pumped.
    Every callback must be called exactly once, with the device's reply to its own request."""
    import copy
    ps = [S.ParamVar('g', 'p%d' % k, ct, value=10 + k, persistent=True, default=20 + k, stored=None) for k, ct in enumerate(ctypes)]
    dev = S.CrazyflieDevice(protocol_version=5, param_toc=ps)
    r = Real(dev, {}, routing)
    _pump(r)
    if not _ready(ctx, r, 'misc ' + label):
        return False
    oracle = copy.deepcopy(dev)
    oracle.requests = []
    got = {}
    expected = {}

    def mk(rid, ct):
        def cb(name, val):
            if val is not None and hasattr(val, 'is_stored'):
                val = (val.is_stored, _bits(ct, val.default_value), None if val.stored_value is None else _bits(ct, val.stored_value))
            elif val is not None and not isinstance(val, bool):
                val = _bits(ct, val)
            got.setdefault(rid, []).append((name, val))
        return cb
    for rid, (kind, i, with_cb) in enumerate(reqs):
        name = 'g.p%d' % i
        fn = {'getdef': r.param.get_default_value, 'getstate': r.param.persistent_get_state, 'store': r.param.persistent_store,
              'clear': r.param.persistent_clear}[kind]
        cb = mk(rid, ctypes[i]) if with_cb else None
        _call(r, fn, name, cb)
        tag, val = _expected_misc(oracle, S, kind, i)
        if with_cb:
            expected[rid] = [(name, val)]
    _pump(r)
    if got != expected:
        bad = sorted(set(k for k in set(got) | set(expected) if got.get(k) != expected.get(k)))
        keys = [(k, i) for (k, i, _) in reqs]
        dup = len(set(keys)) != len(keys)
        ctx.witness('D5b-same-cmd-id-duplicates' if dup else 'misc-reply-attribution',
                    'a persistent/default-value reply was not delivered exactly once to the request it answers'
                    + (' (several outstanding requests with the same command and parameter)' if dup else ''),
                    {'requests': [[k, 'g.p%d' % i, cb] for (k, i, cb) in reqs], 'param_types': ctypes, 'family': label},
                    expected={str(k): repr(expected.get(k)) for k in bad}, got={str(k): repr(got.get(k)) for k in bad})
        return False
    return True


def search(ctx):
    """the property itself (Python twin of Spec/C04 + the statement) evaluated on the real code's observable behaviour"""
    _search_sync(ctx)
    _search_notifications(ctx)
    _search_reconnect(ctx)
    _search_duplicates(ctx)
    _search_sequential(ctx)
    _search_reentrant(ctx)
    _search_retry(ctx)
    search_threads(ctx)


def other_firmware(rng, S, ps, v2=True, tag=1):
    """another firmware build for the same product: the same parameters (by name) at OTHER indices (rotation: no index keeps its
    parameter), about half of them with another type, sometimes one dropped and one new, possibly another protocol version"""
    k = rng.randint(1, max(1, len(ps) - 1))
    order = list(ps[k:]) + list(ps[:k])
    if len(order) > 2 and rng.random() < 0.3:
        order.pop(rng.randrange(len(order)))
    out = []
    for p in order:
        ct = p.ctype if rng.random() < 0.5 else rng.choice(CTYPES)
        out.append(S.ParamVar(p.group, p.name, ct, rand_value(rng, ct), readonly=p.readonly, persistent=True, extended=True,
                              default=rand_value(rng, ct), stored=rand_value(rng, ct) if rng.random() < 0.4 else None))
    if rng.random() < 0.3:
        ct = rng.choice(CTYPES)
        out.insert(rng.randrange(len(out) + 1), S.ParamVar('g0', 'new%d' % tag, ct, rand_value(rng, ct), persistent=True, extended=True,
                                                           default=rand_value(rng, ct)))
    return S.CrazyflieDevice(protocol_version=rng.choice([4, 5, 10]) if v2 else rng.choice([1, 3]), param_toc=out)


def _session_check(ctx, r, rec, rng, nset=4):
    """The property on ONE connection of r to r.dev, judged against the device alone (its table, its values, the wire): initial
    fetch, write + answer, notification, read, default / persistent state - cache, get_value, the callbacks registered by name
    (rec collects their calls) and the bytes on the wire.  -> list of problems (empty = property held)"""
    import copy
    S, dev, probs = r.S, r.dev, []
    v2 = dev.v2
    toc = [(p.group, p.name, p.ctype) for p in dev.param_toc]
    byname = {'%s.%s' % (g, n): (i, ct) for i, (g, n, ct) in enumerate(toc)}

    def devval(i):
        p = dev.param_toc[i]
        return _bits(p.ctype, _fw_decode(p.ctype, S._cast(FW_FMT[p.ctype], p.value)))

    def dec(name, s):
        if name not in byname:
            return 'unknown parameter'
        ct = byname[name][1]
        try:
            return _bits(ct, float(s) if ct in ('float', 'double') else int(s))
        except Exception:
            return 'not a %s: %r' % (ct, s)

    def events():
        out = sorted((k, nm, dec(nm, s)) for (k, nm, s) in rec)
        del rec[:]
        return out

    def want(i):
        g, n, _ = toc[i]
        nm = '%s.%s' % (g, n)
        return sorted([('all', nm, devval(i)), ('grp:' + g, nm, devval(i)), ('par:' + nm, nm, devval(i))])

    def cache(where):
        vals = r.param.values
        seen = {'%s.%s' % (g, n): vals[g][n] for g in vals for n in vals[g]}
        for nm in sorted(set(seen) | set(byname)):
            if nm not in byname:
                probs.append('%s: the cache holds %s = %r, a parameter this device does not have' % (where, nm, seen[nm]))
            elif nm not in seen:
                probs.append('%s: no cached value for %s' % (where, nm))
            elif dec(nm, seen[nm]) != devval(byname[nm][0]):
                probs.append('%s: cached %s = %r but the device (%s, index %d) has %r' % (where, nm, seen[nm], byname[nm][1], byname[nm][0],
                                                                                      dev.param_toc[byname[nm][0]].value))
        for nm in byname:
            raised, v = _call(r, r.param.get_value, nm)
            if raised or dec(nm, v) != devval(byname[nm][0]):
                probs.append('%s: get_value(%s) -> %r but the device (%s, index %d) has %r' % (where, nm, v, byname[nm][1], byname[nm][0],
                                                                                          dev.param_toc[byname[nm][0]].value))

    def idb(i):
        return struct.pack('<H', i) if v2 else bytes([i])
    _pump(r)
    r._flush()
    if not r.param.is_updated:
        probs.append('fetch: is_updated is False after every value was answered')
    cache('fetch')
    got, exp = events(), sorted(sum((want(i) for i in range(len(toc))), []))
    if got != exp:
        probs.append('fetch: callbacks got %r, expected %r' % ([e for e in got if e not in exp][:4], [e for e in exp if e not in got][:4]))
    some = list(range(len(toc)))
    rng.shuffle(some)
    for i in some[:nset]:
        g, n, ct = toc[i]
        nm = '%s.%s' % (g, n)
        if not dev.param_toc[i].readonly:
            v = rand_value(rng, ct)
            n0 = len(dev.requests)
            raised, e = _call(r, r.param.set_value, nm, v)
            _pump(r)
            wire = [(c, d) for (p, c, d) in dev.requests[n0:] if p == 2]
            if raised or wire != [(2, idb(i) + struct.pack(FW_FMT[ct], v))]:
                probs.append('write: set_value(%s, %r) [%s, index %d] %s; wire %r' % (nm, v, ct, i, 'raised %r' % (e,) if raised else 'returned',
                                                                                    [(c, d.hex()) for c, d in wire]))
            got = events()
            if not raised and got != want(i):
                probs.append('write: after the answer to set_value(%s, %r) the callbacks got %r, expected %r' % (nm, v, got[:4], want(i)))
            cache('write ' + nm)
        if v2:
            pkt = dev.set_param(i, rand_value(rng, ct))
            r.inject(pkt[1], pkt[2])
            r.deliver()
            got = events()
            if got != want(i):
                probs.append('notification: value-updated for %s [%s, index %d]: callbacks got %r, expected %r' % (nm, ct, i, got[:4], want(i)))
            cache('notification ' + nm)
        _call(r, r.param.request_param_update, nm)
        _pump(r)
        got = events()
        if got != want(i):
            probs.append('read: request_param_update(%s) [%s, index %d]: callbacks got %r, expected %r' % (nm, ct, i, got[:4], want(i)))
        if v2 and dev.param_toc[i].persistent:
            for kind, fn in (('getdef', r.param.get_default_value), ('getstate', r.param.persistent_get_state)):
                exp1 = _expected_misc(copy.deepcopy(dev), S, kind, i)[1]
                out = []

                def cb(name, val, _ct=ct, _out=out):
                    if val is not None and hasattr(val, 'is_stored'):
                        val = (val.is_stored, _bits(_ct, val.default_value), None if val.stored_value is None else _bits(_ct, val.stored_value))
                    elif val is not None:
                        val = _bits(_ct, val)
                    _out.append((name, val))
                _call(r, fn, nm, cb)
                _pump(r)
                if exp1 is not None and out != [(nm, exp1)]:
                    probs.append('%s(%s) [%s, index %d]: callback got %r, expected %r' % (kind, nm, ct, i, out, [(nm, exp1)]))
        ctx.count('search:session-check')
    del rec[:]
    r._flush()
    return probs


def _search_reconnect(ctx):
    """ONE Crazyflie / Param object, several consecutive connections to devices with DIFFERENT parameter tables (other firmware:
    indices rotated, types changed, parameters dropped / added, other protocol version).  Whatever the object retains between
    connections (callbacks registered by name are meant to stay) must not leak: on every connection the property is judged
    against that connection's device alone."""
    from harness.sim import crazyflie_device as S
    rng = ctx.rng
    routing, _snap = source_variant()
    for t in range(10 if ctx.tier == 'thorough' else 4):
        v2 = t % 4 != 3
        n = rng.randint(3, 6)
        ps = []
        for k in range(n):
            ct = CTYPES[(t + 3 * k) % len(CTYPES)]
            ps.append(S.ParamVar('g%d' % (k % 2), 'p%d' % k, ct, rand_value(rng, ct), readonly=(k == n - 1 and t % 2 == 1), persistent=True,
                                 extended=True, default=rand_value(rng, ct)))
        dev = S.CrazyflieDevice(protocol_version=rng.choice([4, 5, 10]) if v2 else rng.choice([1, 3]), param_toc=ps)
        r = Real(dev, {}, routing, needs_resending=bool(t % 2))
        rec = []
        r.param.add_update_callback(cb=lambda nm, v: rec.append(('all', nm, v)))
        for g in ('g0', 'g1'):
            r.param.add_update_callback(group=g, cb=lambda nm, v, _g=g: rec.append(('grp:' + _g, nm, v)))
        for p in ps + [S.ParamVar('g0', 'new1'), S.ParamVar('g0', 'new2')]:
            r.param.add_update_callback(group=p.group, name=p.name, cb=lambda nm, v, _k='%s.%s' % (p.group, p.name): rec.append(('par:' + _k, nm, v)))
        tables = []
        for session in range(3):
            tables.append({'protocol': r.dev.protocol_version, 'params': [(p.group, p.name, p.ctype) for p in r.dev.param_toc]})
            probs = _session_check(ctx, r, rec, rng)
            ctx.count('search:reconnect-session-%d' % session)
            if probs:
                ctx.witness('reconnect-other-table' if session else 'session-values',
                            'connection number %d of the same Crazyflie object (the device of each connection has its own parameter table): '
                            'values / callbacks / wire bytes do not match this connection\'s device' % (session + 1),
                            {'tables_of_the_connections': tables, 'needs_resending': bool(t % 2)}, problems=probs[:8])
                break
            if session < 2:
                r.reconnect(other_firmware(rng, S, r.dev.param_toc, v2=v2 if session == 0 else rng.random() < 0.7, tag=session + 1))


def _search_notifications(ctx):
    """Unsolicited MISC_VALUE_UPDATED notifications interleaved with pending requests, systematically: while a request of every
    kind (write, read, the four misc kinds) for parameter X is outstanding, notifications for X and for another parameter are
    delivered BEFORE its reply.  Spec: a notification answers nothing - the next request must not go out before the real reply
    was delivered, and wire order = issue order."""
    from harness.sim import crazyflie_device as S
    rng = ctx.rng
    routing, _snap = source_variant()
    kinds = ['set', 'read', 'getdef', 'getstate', 'store', 'clear']
    for t in range(12 if ctx.tier == 'thorough' else 6):
        kind = kinds[t % 6]
        cts = [CTYPES[(t + j) % len(CTYPES)] for j in range(2)]
        ps = [S.ParamVar('g', 'p%d' % k, ct, value=rand_value(rng, ct), persistent=True, default=rand_value(rng, ct)) for k, ct in enumerate(cts)]
        dev = S.CrazyflieDevice(protocol_version=5, param_toc=ps)
        r = Real(dev, {}, routing, needs_resending=bool(t % 2))
        _pump(r)
        if not _ready(ctx, r, 'notifications'):
            return
        base = len(dev.requests)
        issued = []
        if kind == 'set':
            v = rand_value(rng, cts[0])
            _call(r, r.param.set_value, 'g.p0', v)
            issued.append((2, bytes([0, 0]) + struct.pack(FW_FMT[cts[0]], v)))
        elif kind == 'read':
            _call(r, r.param.request_param_update, 'g.p0')
            issued.append((1, bytes([0, 0])))
        else:
            fn = {'getdef': r.param.get_default_value, 'getstate': r.param.persistent_get_state, 'store': r.param.persistent_store,
                  'clear': r.param.persistent_clear}[kind]
            _call(r, fn, 'g.p0', lambda *a: None)
            issued.append((3, bytes([{'getdef': 6, 'getstate': 4, 'store': 3, 'clear': 5}[kind], 0, 0])))
        _call(r, r.param.request_param_update, 'g.p1')           # the next request, queued behind it
        issued.append((1, bytes([1, 0])))
        r.upd_step()
        held = r.hold()                                            # the reply is late
        for i in (0, 1, 0):
            pkt = dev.set_param(i, rand_value(rng, cts[i]))
            r.inject(pkt[1], pkt[2])
            r.deliver()
            r.upd_step()                                           # the updater runs whenever it can
        early = [(c, d) for (p, c, d) in dev.requests[base:] if p == 2]
        r.unhold(held)
        _pump(r)
        wire = [(c, d) for (p, c, d) in dev.requests[base:] if p == 2]
        ctx.count('search:notification-' + kind)
        if early != issued[:1] or wire != issued:
            ctx.witness('one-outstanding', 'a request was transmitted before the previous one was answered (unsolicited value-updated '
                        'notifications for the same / another parameter delivered while a %s request was outstanding)' % kind,
                        {'types': cts, 'outstanding': kind, 'issued': [(c, d.hex()) for c, d in issued]},
                        sent_before_the_reply=[(c, d.hex()) for c, d in early], wire=[(c, d.hex()) for c, d in wire])


def _search_sequential(ctx):
    """SEQUENTIAL misc requests (never overlapping - so neither D5b nor D5c applies): every request is answered, with each
    reply variant the device can give, before the next is issued.  Spec: the callback of every request is called exactly once,
    with the reply to its own request; in particular a request that has been answered never hears of a later reply."""
    from harness.sim import crazyflie_device as S
    import copy
    rng = ctx.rng
    routing, _snap = source_variant()
    cmd = {'getdef': 6, 'getstate': 4, 'store': 3, 'clear': 5}
    for t in range(12 if ctx.tier == 'thorough' else 4):
        ct = CTYPES[(3 * t + 1) % len(CTYPES)]
        ps = [S.ParamVar('g', 'p0', ct, value=rand_value(rng, ct), persistent=True, default=rand_value(rng, ct),
                         stored=rand_value(rng, ct) if t % 2 else None),
              S.ParamVar('g', 'p1', ct, value=rand_value(rng, ct), persistent=True, default=first_byte_two(rng, ct))]
        dev = S.CrazyflieDevice(protocol_version=5, param_toc=ps)
        r = Real(dev, {}, routing, needs_resending=bool(t % 2))
        _pump(r)
        if not _ready(ctx, r, 'sequential'):
            return
        got = {}
        plan = []
        for kind in ('getstate', 'getdef', 'store', 'clear'):
            plan += [(kind, 0, None), (kind, 0, 'enoent'), (kind, 0, None)]
        plan += [('getdef', 1, None), ('getdef', 1, None), ('store', 0, 'nocb'), ('store', 0, None), ('clear', 0, 'nocb'), ('clear', 0, None),
                 ('getstate', 0, 'enoent'), ('getstate', 0, None), ('getstate', 0, None)]
        head = plan[:0]
        rest = plan[:]
        rng.shuffle(rest)
        plan = head + rest
        expected = {}
        for rid, (kind, i, var) in enumerate(plan):
            name = 'g.p%d' % i
            if var == 'enoent':
                dev.force_status(2, 3, bytes([cmd[kind], i, 0]), 2)
                want = ('b', False) if kind in ('store', 'clear') else (kind[3], None)
            else:
                want = _expected_misc(copy.deepcopy(dev), S, kind, i)
            fn = {'getdef': r.param.get_default_value, 'getstate': r.param.persistent_get_state, 'store': r.param.persistent_store,
                  'clear': r.param.persistent_clear}[kind]

            def cb(nm, val, _rid=rid, _ct=ct):
                if val is not None and hasattr(val, 'is_stored'):
                    val = (val.is_stored, _bits(_ct, val.default_value), None if val.stored_value is None else _bits(_ct, val.stored_value))
                elif val is not None and not isinstance(val, bool):
                    val = _bits(_ct, val)
                got.setdefault(_rid, []).append((nm, val))
            _call(r, fn, name, None if var == 'nocb' else cb)
            _pump(r)                                       # answered before the next request is issued
            if var != 'nocb':
                expected[rid] = [(name, want[1])]
            ctx.count('search:sequential-%s-%s' % (kind, var))
        # a default value whose first wire byte is 2 is indistinguishable from ENOENT on the wire: both readings are accepted
        for rid, (kind, i, var) in enumerate(plan):
            if kind == 'getdef' and i == 1 and got.get(rid) == [('g.p1', None)]:
                expected[rid] = got[rid]
        if got != expected:
            bad = sorted(k for k in set(got) | set(expected) if got.get(k) != expected.get(k))
            ctx.witness('stale-handler-after-answer',
                        'sequential misc requests (each answered before the next is issued): a callback was not called exactly once with the '
                        'reply to its own request',
                        {'type': ct, 'requests': [[k, 'g.p%d' % i, v] for (k, i, v) in plan]},
                        wrong={str(k): {'request': list(plan[k]), 'expected': repr(expected.get(k)), 'got': repr(got.get(k))} for k in bad[:4]})


def _search_reentrant(ctx):
    """Callbacks of misc requests that re-enter the API from inside the reply dispatch (further requests for the same or other
    parameters, in particular the same kind of query for the same parameter).  Spec: requests go out in the order they are
    issued (nested ones at the moment their callback runs); every callback is called exactly once, with the device's reply to
    its own request (sequential device oracle)."""
    from harness.sim import crazyflie_device as S
    import copy
    rng = ctx.rng
    routing, _snap = source_variant()
    kinds = ['getstate', 'getdef', 'store', 'clear']
    fns = {'getdef': 'get_default_value', 'getstate': 'persistent_get_state', 'store': 'persistent_store', 'clear': 'persistent_clear'}
    for t in range(16 if ctx.tier == 'thorough' else 8):
        kind = kinds[t % 4]
        ct = CTYPES[(5 * t + 2) % len(CTYPES)]
        # systematic, not left to the random draws: the request made in between CHANGES the answer to the repeated question
        # (not stored -> store -> stored; stored -> clear -> not stored), so a reply handed to the wrong handler is visible
        other = ['store', 'clear'][(t // 4) % 2]
        ps = [S.ParamVar('g', 'p%d' % k, ct, value=rand_value(rng, ct), persistent=True, default=rand_value(rng, ct),
                         stored=rand_value(rng, ct) if other == 'clear' and k == 0 else None) for k in range(2)]
        dev = S.CrazyflieDevice(protocol_version=5, param_toc=ps)
        r = Real(dev, {}, routing, needs_resending=bool(t & 4))
        _pump(r)
        if not _ready(ctx, r, 'reentrant'):
            return
        oracle = copy.deepcopy(dev)
        oracle.requests = []
        got, issued = {}, []

        def issue(k, i, script=()):
            rid = len(issued)
            issued.append((k, i))

            def cb(nm, val, _rid=rid, _script=script):
                if val is not None and hasattr(val, 'is_stored'):
                    val = (val.is_stored, _bits(ct, val.default_value), None if val.stored_value is None else _bits(ct, val.stored_value))
                elif val is not None and not isinstance(val, bool):
                    val = _bits(ct, val)
                got.setdefault(_rid, []).append((nm, val))
                for (k2, i2, s2) in _script:            # re-entrant: called from inside the reply dispatch
                    issue(k2, i2, s2)
            getattr(r.param, fns[k])('g.p%d' % i, cb)
        # the callback of the first request stores / clears and then asks the same question about the same parameter again,
        # whose callback in turn asks about the other parameter
        script = [(other, 0, ()), (kind, 0, [(rng.choice(kinds), 1, ())])]
        if t % 2:
            script.insert(0, (rng.choice(kinds), 1, ()))
        r.s.call(issue, kind, 0, script)
        _pump(r)
        expected = {}
        for rid, (k, i) in enumerate(issued):
            expected[rid] = [('g.p%d' % i, _expected_misc(oracle, S, k, i)[1])]
        ctx.count('search:reentrant-' + kind)
        nwant = 4 + (t % 2)
        if got != expected or len(issued) != nwant:
            bad = sorted(k for k in set(got) | set(expected) if got.get(k) != expected.get(k))
            ctx.witness('reentrant-callback-attribution',
                        'a misc reply callback issued further requests from inside the dispatch: a callback was not called exactly once '
                        'with the reply to its own request',
                        {'type': ct, 'first': [kind, 'g.p0'], 'script_of_its_callback': repr(script), 'issued': issued},
                        wrong={str(k): {'request': issued[k] if k < len(issued) else None, 'expected': repr(expected.get(k)), 'got': repr(got.get(k))}
                               for k in bad[:4]})


def _search_retry(ctx):
    """What reaches the WIRE on a needs_resending link, with the retry timers of Crazyflie.send_packet split into expiry and
    callback.  Spec: requests go on the wire in issue order; a request is retransmitted only while it is the outstanding one -
    never after its answer was accepted, whatever has been issued since; at the end device, cache and callbacks agree."""
    from harness.sim import crazyflie_device as S
    rng = ctx.rng
    routing, _snap = source_variant()
    trials = 30 if ctx.tier == 'thorough' else 9
    for t in range(trials):
        nxt = ('same', 'same', 'other')[t % 3]
        first = ('set', 'read')[(t // 3) % 2] if nxt == 'same' and t % 2 else 'set'
        cts = [CTYPES[(t + j) % len(CTYPES)] for j in range(2)]
        ps = [S.ParamVar('g', 'p%d' % k, ct, value=rand_value(rng, ct)) for k, ct in enumerate(cts)]
        dev = S.CrazyflieDevice(protocol_version=5, param_toc=ps)
        r = Real(dev, {}, routing, needs_resending=True)
        try:
            calls = []
            r.param.add_update_callback(group=None, name=None, cb=lambda n, v: calls.append((n, v)))
            _pump(r)
            if not _ready(ctx, r, 'retry'):
                return
            r.split_timers()
            base = len(dev.requests)
            issued = []

            def issue(kind, i, v=None):
                if kind == 'set':
                    if not _call(r, r.param.set_value, 'g.p%d' % i, v)[0]:
                        issued.append((2, bytes([i, 0]) + struct.pack(FW_FMT[cts[i]], v)))
                else:
                    if not _call(r, r.param.request_param_update, 'g.p%d' % i)[0]:
                        issued.append((1, bytes([i, 0])))
            v1, v2 = rand_value(rng, cts[0]), rand_value(rng, cts[0])
            issue(first, 0, v1)
            r.upd_step()
            tm = len(r.ftimers) - 1
            held = r.hold()
            if tm < 0 or not r.texpire(tm):
                ctx.witness('retry-timer-missing', 'no retry timer was armed for a param request on a needs_resending link', {'types': cts})
                continue
            r.unhold(held)
            r.deliver()                                    # the answer arrives after the expiry, before the callback
            if nxt == 'same':
                issue(first, 0, v2)                        # same (channel, index): registers its own timer under the same pattern
            else:
                issue('set', 1, rand_value(rng, cts[1]))
            r.upd_step()
            r.trun(tm)                                     # now the stale callback runs
            _pump(r)
            # remaining timers fire only while their request is unanswered: none is, everything was pumped
            wire = [(c, d) for (p, c, d) in dev.requests[base:] if p == 2]
            ctx.count('search:retry-' + nxt)
            ok_cache = True
            for i in range(2):
                try:
                    c = r.param.get_value('g.p%d' % i)
                    ok_cache &= _bits(cts[i], float(c) if cts[i] in ('float', 'double') else int(c)) == _bits(cts[i], dev.param_toc[i].value)
                except Exception:
                    ok_cache = False
            if wire != issued or not ok_cache:
                ctx.witness('retransmit-after-answer',
                            'a request was put on the wire again after its answer had been accepted (retry callback ran late, next request: %s)' % nxt,
                            {'types': cts, 'first_request': first, 'next_request': nxt,
                             'history': ['request 1 transmitted', 'its retry timer expires', 'answer 1 delivered (accepted)',
                                         'request 2 transmitted', 'callback of the expired timer runs', 'pump']},
                            issued=[(c, d.hex()) for c, d in issued], wire=[(c, d.hex()) for c, d in wire], cache_equals_device=ok_cache,
                            device=[repr(p.value) for p in dev.param_toc], callbacks=calls[-4:])
        finally:
            r.restore_timers()


def _search_duplicates(ctx):
    """Duplicated and late answers.  Spec: every update callback is called exactly once per answered request with the device's
    value, and an answer that arrives again - while nothing, or a request for ANOTHER parameter, is outstanding - changes
    nothing and calls nobody.  (While another request for the SAME parameter is outstanding the stale answer cannot be told
    from the real one: finding D5c, reported under its own key.)"""
    from harness.sim import crazyflie_device as S
    rng = ctx.rng
    routing, _snap = source_variant()
    trials = 24 if ctx.tier == 'thorough' else 8
    for t in range(trials):
        nr = bool(t % 2)
        cts = [CTYPES[(t + j) % len(CTYPES)] for j in range(3)]
        ps = [S.ParamVar('g', 'p%d' % k, ct, value=rand_value(rng, ct)) for k, ct in enumerate(cts)]
        dev = S.CrazyflieDevice(protocol_version=5, param_toc=ps)
        r = Real(dev, {}, routing, needs_resending=nr)
        calls = []
        r.param.add_update_callback(group=None, name=None, cb=lambda n, v: calls.append((n, v)))
        r.param.add_update_callback(group='g', name=None, cb=lambda n, v: calls.append((n, v)))
        _pump(r)
        if not _ready(ctx, r, 'duplicates'):
            return
        ctx.count('search:duplicates')

        def consistent(i):
            try:
                c = r.param.get_value('g.p%d' % i)
                return _bits(cts[i], float(c) if cts[i] in ('float', 'double') else int(c)) == _bits(cts[i], dev.param_toc[i].value)
            except Exception:
                return False

        def fail(key, state, what, **kw):
            ctx.witness(key, 'a duplicated / late answer %s: %s' % (state, what),
                        {'types': cts, 'needs_resending': nr, 'state': state, 'first_request': kind}, **kw)

        kind = rng.choice(['set', 'read'])
        del calls[:]
        if kind == 'set':
            _call(r, r.param.set_value, 'g.p0', rand_value(rng, cts[0]))
        else:
            _call(r, r.param.request_param_update, 'g.p0')
        _pump(r)
        k = len(r.link.history) - 1
        if len(calls) != 2:
            fail('callback-count', 'none (plain answer)', 'expected each of the 2 callbacks once, got %r' % (calls,))
            continue
        # (i) nothing outstanding
        base = list(calls)
        r.replay(k)
        _pump(r)
        if calls != base or not consistent(0):
            fail('duplicate-reply-accepted', 'while nothing is outstanding', 'callbacks %r -> %r, cache==device: %s' % (base, calls, consistent(0)))
        # (ii) a request for another parameter outstanding
        base = list(calls)
        v1 = rand_value(rng, cts[1])
        _call(r, r.param.set_value, 'g.p1', v1)
        r.upd_step()
        held = r.hold()
        r.replay(k)
        r.deliver()
        mid = list(calls)
        r.unhold(held)
        _pump(r)
        want = base + [('g.p1', calls[-1][1])] * 2 if len(calls) >= 2 else None
        if mid != base or calls != want or not consistent(1) or not consistent(0):
            fail('duplicate-reply-accepted', 'while a request for another parameter is outstanding',
                 'callbacks before %r, after the duplicate %r, at the end %r' % (base, mid, calls))
        # natural duplicate: late answer, retransmission, both copies answered
        if nr:
            base = list(calls)
            _call(r, r.param.set_value, 'g.p2', rand_value(rng, cts[2]))
            r.upd_step()
            held = r.hold()
            fired = r.timer_step()
            r.unhold(held, front=True)
            _pump(r)
            ctx.count('search:duplicates-retransmitted' if fired else 'search:duplicates-no-timer')
            if len(calls) != len(base) + 2 or any(c[0] != 'g.p2' for c in calls[len(base):]) or not consistent(2):
                fail('duplicate-reply-accepted', 'after a retransmission (late answer, both copies answered)',
                     'callbacks for one set_value: %r' % (calls[len(base):],))
        # (iii) another request for the SAME parameter outstanding  (D5c)
        base = list(calls)
        _call(r, r.param.set_value, 'g.p0', rand_value(rng, cts[0]))
        r.upd_step()
        held = r.hold()
        r.replay(k)
        r.deliver()
        r.unhold(held)
        _pump(r)
        if len(calls) != len(base) + 2 or not consistent(0) or len(set(calls[len(base):])) != 1:
            fail('D5c-stale-reply-same-id', 'while another request for the same parameter is outstanding',
                 'callbacks %r, cache==device: %s' % (calls[len(base):], consistent(0)))


def _search_sync(ctx):
    from harness.sim import crazyflie_device as S
    logging.getLogger('cflib').setLevel(logging.CRITICAL)
    rng = ctx.rng
    routing, _snap = source_variant() if True else (2, True)
    thorough = ctx.tier == 'thorough'
    # (D) attribution of misc replies: k = 1..5 outstanding, distinct and duplicated parameters, state-changing sequences
    fams = [('three default-value queries', [('getdef', 0, True), ('getdef', 1, True), ('getdef', 2, True)], ['uint8_t'] * 3),
            ('state, store, state of one parameter', [('getstate', 0, True), ('store', 0, True), ('getstate', 0, True)], ['uint8_t']),
            ('two default-value queries', [('getdef', 0, True), ('getdef', 1, True)], ['uint16_t'] * 2),
            ('store without callback then store with callback', [('store', 0, False), ('clear', 0, True), ('store', 0, True)], ['int16_t']),
            ('five state queries', [('getstate', k, True) for k in range(5)], ['int32_t'] * 5),
            ('duplicates', [('getdef', 0, True), ('getdef', 0, True), ('getdef', 1, True), ('getdef', 0, True)], ['float'] * 2)]
    for label, reqs, cts in fams:
        _misc_case(ctx, S, routing, reqs, cts, label)
        ctx.count('search:misc-family')
    for _ in range(60 if thorough else 15):
        n = rng.randint(1, 4)
        ct = rng.choice(CTYPES)
        k = rng.randint(1, 5)
        reqs = [(rng.choice(['getdef', 'getstate', 'store', 'clear']), rng.randrange(n), rng.random() < 0.85) for _ in range(k)]
        reqs = [(kd, i, True if kd in ('getdef', 'getstate') else cb) for (kd, i, cb) in reqs]
        _misc_case(ctx, S, routing, reqs, [ct] * n, 'random')
        ctx.count('search:misc-random')
    # (A) typed round trip, (B) refusals and range errors, for every numeric type
    ps = [S.ParamVar('t', ct, ct, value=0) for ct in CTYPES] + [S.ParamVar('t', 'ro', 'uint8_t', value=7, readonly=True)]
    dev = S.CrazyflieDevice(protocol_version=5, param_toc=ps)
    r = Real(dev, {}, routing)
    calls = []
    r.param.add_update_callback(group='t', name=None, cb=lambda n, v: calls.append(('group', n, v)))
    r.param.add_update_callback(group=None, name=None, cb=lambda n, v: calls.append(('all', n, v)))
    for ct in CTYPES:
        r.param.add_update_callback(group='t', name=ct, cb=lambda n, v: calls.append(('name', n, v)))
    _pump(r)
    if not _ready(ctx, r, 'all types'):
        return
    for i, ct in enumerate(CTYPES):
        name = 't.' + ct
        if ct in ('float', 'double'):
            vals = [0.0, -0.0, 1.5, -2.75, float('inf'), float('-inf'), float('nan'), struct.unpack('<f', struct.pack('<I', 1))[0],
                    struct.unpack('<f', struct.pack('<I', 0x7F7FFFFF))[0], struct.unpack('<f', struct.pack('<I', rng.getrandbits(31) % 0x7F800000))[0], 3]
            if ct == 'double':
                vals += [5e-324, 1.7976931348623157e308, struct.unpack('<d', struct.pack('<Q', rng.getrandbits(63) % 0x7FF0000000000000))[0], 0.1]
            bad = [1e39, -1e39] if ct == 'float' else []
        else:
            lo, hi = type_range(ct)
            vals = [lo, hi, 0, 1, hi - 1, lo + 1] + [rng.randint(lo, hi) for _ in range(4)]
            bad = [lo - 1, hi + 1, 2 ** 64, -2 ** 63 - 1, rng.randint(hi + 1, hi + 10 ** 6), rng.randint(lo - 10 ** 6, lo - 1)]
        for v in vals:
            del calls[:]
            n0 = len(dev.requests)
            raised, e = _call(r, r.param.set_value, name, v)
            if raised:
                ctx.witness('set-roundtrip', 'set_value raised for an in-range value', {'type': ct, 'value': repr(v)}, got=repr(e))
                continue
            _pump(r)
            want_wire = bytes([i, 0]) + struct.pack(FW_FMT[ct], v)
            wire = [d for (p, c, d) in dev.requests[n0:] if p == 2]
            devbits = _bits(ct, dev.param_toc[i].value)
            try:
                cached = r.param.get_value(name)
                cached_bits = _bits(ct, float(cached) if ct in ('float', 'double') else int(cached))
            except Exception as e:
                cached, cached_bits = repr(e), None
            okcalls = sorted(calls) == sorted([(k, name, cached) for k in ('name', 'group', 'all')])
            ctx.count('search:set-roundtrip')
            if wire != [want_wire] or devbits != _bits(ct, struct.unpack(FW_FMT[ct], struct.pack(FW_FMT[ct], v))[0]) or cached_bits != devbits or not okcalls:
                ctx.witness('set-roundtrip', 'set_value did not transmit/cache/announce the requested value in the declared type',
                            {'type': ct, 'value': repr(v)}, wire=[w.hex() for w in wire], want_wire=want_wire.hex(),
                            device=repr(devbits), cached=repr(cached), callbacks=repr(calls))
        for v in bad:
            n0, before = len(dev.requests), dev.param_toc[i].value
            raised, _e = _call(r, r.param.set_value, name, v)
            _pump(r)
            ctx.count('search:out-of-range')
            if not raised or len(dev.requests) != n0 or _bits(ct, dev.param_toc[i].value) != _bits(ct, before):
                ctx.witness('range-not-raised', 'a value outside the type range did not raise or was transmitted (wrapped)',
                            {'type': ct, 'value': repr(v)}, raised=raised, sent=[d.hex() for (p, c, d) in dev.requests[n0:]])
    for name in ('t.ro', 't.nosuch', 'zz.uint8_t', 'plain'):
        n0 = len(dev.requests)
        raised, _e = _call(r, r.param.set_value, name, 1)
        _pump(r)
        ctx.count('search:refusal')
        if not raised or len(dev.requests) != n0:
            ctx.witness('refused-tx', 'read-only / unknown parameter not refused, or something was transmitted', {'name': name},
                        raised=raised, sent=[d.hex() for (p, c, d) in dev.requests[n0:]])
    # (C) FIFO, one outstanding: random issue / step interleavings with notifications
    for trial in range(40 if thorough else 10):
        n = rng.randint(2, 6)
        cts = [rng.choice(CTYPES) for _ in range(n)]
        ps = [S.ParamVar('g', 'p%d' % k, ct, value=rand_value(rng, ct), persistent=True, default=rand_value(rng, ct)) for k, ct in enumerate(cts)]
        dev = S.CrazyflieDevice(protocol_version=5, param_toc=ps)
        r = Real(dev, {}, routing)
        _pump(r)
        if not _ready(ctx, r, 'fifo'):
            return
        base = len(dev.requests)
        issued = []
        violations = []
        orig = dev.handle

        def handle(port, chan, data, _r=r, _o=orig, _d=dev, _v=violations, _b=base):
            if port == 2:
                sent = len([1 for q in _d.requests[_b:] if q[0] == 2])
                answered = len([1 for (pp, cc, dd) in _r.link.delivered if pp == 2 and not (cc == 3 and dd[:1] == b'\x01')]) - _r._deliv0
                if answered != sent:
                    _v.append((sent, answered))
            return _o(port, chan, data)
        r._deliv0 = len([1 for (pp, cc, dd) in r.link.delivered if pp == 2 and not (cc == 3 and dd[:1] == b'\x01')])
        dev.handle = handle
        for _ in range(rng.randint(3, 25)):
            x = rng.random()
            i = rng.randrange(n)
            name = 'g.p%d' % i
            if x < 0.3:
                v = rand_value(rng, cts[i])
                if not _call(r, r.param.set_value, name, v)[0]:
                    issued.append((2, bytes([i, 0]) + struct.pack(FW_FMT[cts[i]], v)))
            elif x < 0.4:
                if not _call(r, r.param.request_param_update, name)[0]:
                    issued.append((1, bytes([i, 0])))
            elif x < 0.55:
                kind = rng.choice(['getdef', 'getstate', 'store', 'clear'])
                fn = {'getdef': r.param.get_default_value, 'getstate': r.param.persistent_get_state, 'store': r.param.persistent_store,
                      'clear': r.param.persistent_clear}[kind]
                if not _call(r, fn, name, lambda *a: None)[0]:
                    issued.append((3, bytes([{'getdef': 6, 'getstate': 4, 'store': 3, 'clear': 5}[kind], i, 0])))
            elif x < 0.7:
                r.upd_step()
            elif x < 0.9:
                r.deliver()
            else:
                pkt = dev.set_param(i, rand_value(rng, cts[i]))
                r.inject(pkt[1], pkt[2])
        _pump(r)
        wire = [(c, d) for (p, c, d) in dev.requests[base:] if p == 2]
        ctx.count('search:fifo')
        if wire != issued:
            ctx.witness('fifo-order', 'requests did not go on the wire exactly once in issue order', {'issued': [(c, d.hex()) for c, d in issued]},
                        wire=[(c, d.hex()) for c, d in wire])
        if violations:
            ctx.witness('one-outstanding', 'a request was transmitted before the previous one was answered',
                        {'issued': [(c, d.hex()) for c, d in issued]}, sent_answered=violations[:5])


# ---- real threads under the virtual scheduler (failing-input search only) -------------------------------------------
def _vsched_case(ctx, S, seed, nworkers, nreq, trace_points=()):
    """The REAL Crazyflie with its real incoming-packet thread and real _ParamUpdater thread, plus `nworkers` user threads
    issuing set / read / misc requests concurrently, under a seeded schedule of harness.vsched.  Returns the list of
    property failures (strings) found in this run, evaluated directly on what was observed."""
    import copy
    from harness import vsched
    rng = __import__('random').Random(seed)
    n = rng.randint(2, 5)
    cts = [rng.choice(CTYPES) for _ in range(n)]
    protos = [S.ParamVar('g', 'p%d' % k, ct, value=rand_value(rng, ct), persistent=True, default=rand_value(rng, ct),
                         stored=None) for k, ct in enumerate(cts)]
    # plan: per worker a list of requests; misc keys (kind, param) are globally distinct (side condition of the partial theorem)
    used = set()
    plans = []
    for w in range(nworkers):
        plan = []
        for _ in range(nreq):
            i = rng.randrange(n)
            x = rng.random()
            if x < 0.45:
                plan.append(('set', i, rand_value(rng, cts[i])))
            elif x < 0.6:
                plan.append(('read', i, None))
            else:
                kind = rng.choice(['getdef', 'getstate', 'store', 'clear'])
                if (kind, i) in used:
                    plan.append(('read', i, None))
                else:
                    used.add((kind, i))
                    plan.append((kind, i, None))
        plans.append(plan)
    fails = []
    with vsched.Session(step_limit=60000) as sess:
        from cflib.crazyflie import Crazyflie
        from cflib.crazyflie.param import ParamTocElement
        from cflib.crtp.crtpstack import CRTPPacket
        import logging as _lg
        _lg.getLogger('cflib').setLevel(_lg.CRITICAL)

        class VLink:
            needs_resending = False

            def __init__(self, dev):
                self.dev = dev
                self.q = vsched.queue.Queue()

            def send_packet(self, pk):
                port, chan, data = (pk.header >> 4) & 0x0F, pk.header & 0x03, bytes(pk.data)
                if port == 2:
                    vsched.emit('tx', chan, data)
                for (p, c, d) in self.dev.handle(port, chan, data):
                    self.q.put(CRTPPacket(((p & 0x0F) << 4) | (c & 0x03), bytearray(d)))

            def receive_packet(self, wait=0):
                import queue as _rq
                try:
                    pk = self.q.get(True, wait) if wait else self.q.get(False)
                except _rq.Empty:
                    return None
                if pk.port == 2:
                    vsched.emit('rx', pk.channel, bytes(pk.data))
                return pk

            def close(self):
                pass

        def main():
            dev = S.CrazyflieDevice(protocol_version=5, param_toc=copy.deepcopy(protos))
            link = VLink(dev)
            cf = Crazyflie(link=link, rw_cache=None)
            cf.platform.get_protocol_version = lambda: 5
            for i, p in enumerate(dev.param_toc):
                el = ParamTocElement(i, S.item_bytes(p))
                el.mark_persistent()
                cf.param.toc.add_element(el)
            cf.param._useV2 = True
            q = cf.param.param_updater.request_queue
            oput = q._put

            def logged_put(item):
                vsched.emit('enq', item.channel, bytes(item.data))
                oput(item)
            q._put = logged_put
            cf.param.add_update_callback(group=None, name=None, cb=lambda nm, v: vsched.emit('upd', nm, v))
            # the library's own `connected` stage (sets connected_ts - is_connected() gates the all-updated notification - and
            # requests every value); the latency ping thread is not wanted here
            cf.link_statistics.start = lambda: None
            cf._param_toc_updated_cb()
            if not cf.param._initialized.wait(timeout=30):
                return 'not-initialized'

            def worker(k):
                for j, (kind, i, v) in enumerate(plans[k]):
                    name = 'g.p%d' % i
                    tag = (k, j)
                    if kind == 'set':
                        cf.param.set_value(name, v)
                    elif kind == 'read':
                        cf.param.request_param_update(name)
                    else:
                        fn = {'getdef': cf.param.get_default_value, 'getstate': cf.param.persistent_get_state,
                              'store': cf.param.persistent_store, 'clear': cf.param.persistent_clear}[kind]

                        def cb(nm, val, _t=tag, _ct=cts[i]):
                            if val is not None and hasattr(val, 'is_stored'):
                                val = (val.is_stored, _bits(_ct, val.default_value), None if val.stored_value is None else _bits(_ct, val.stored_value))
                            elif val is not None and not isinstance(val, bool):
                                val = _bits(_ct, val)
                            vsched.emit('misc', _t, nm, val)
                        fn(name, cb)
                    if rng_sched.random() < 0.3:
                        vsched.time.sleep(0.01)
            ts = [vsched.threading.Thread(target=worker, args=(k,)) for k in range(nworkers)]
            for t in ts:
                t.start()
            for t in ts:
                t.join()
            vsched.time.sleep(5.0)                 # virtual: lets the updater drain the queue
            cached = {('g.p%d' % i): cf.param.get_value('g.p%d' % i) for i in range(n)}
            return {'cached': cached, 'device': [p.value for p in dev.param_toc], 'left': q.qsize()}
        rng_sched = __import__('random').Random(seed + 1)
        res = sess.run(main, policy=vsched.Random(seed), trace_points=list(trace_points))
    if res.outcome != 'ok' or res.exc is not None or res.deaths:
        return ['vsched run did not complete: outcome=%s exc=%r deaths=%r' % (res.outcome, res.exc, res.deaths)], res
    if res.value == 'not-initialized':
        return ['initial fetch of all values did not complete'], res
    ev = [e[1:] for e in res.events()]
    # skip the initial fetch
    enq = [(e[1], e[2]) for e in ev if e[0] == 'enq']
    tx = [(e[1], e[2]) for e in ev if e[0] == 'tx']
    if tx != enq or res.value['left'] != 0:
        fails.append('wire order differs from issue (queue) order: issued %r sent %r' % (enq[:12], tx[:12]))
    # one outstanding: between two transmissions a solicited reply answering the first is delivered
    outstanding = None
    for e in ev:
        if e[0] == 'tx':
            if outstanding is not None:
                fails.append('request %r transmitted while %r is unanswered' % ((e[1], e[2].hex()), (outstanding[0], outstanding[1].hex())))
            outstanding = (e[1], e[2])
        elif e[0] == 'rx' and not (e[1] == 3 and e[2][:1] == b'\x01'):
            if outstanding is None:
                fails.append('solicited reply %r with nothing outstanding' % (e[2].hex(),))
            else:
                k = 3 if outstanding[0] == 3 else 2
                if e[1] != outstanding[0] or e[2][:k] != outstanding[1][:k]:
                    fails.append('reply %r does not answer outstanding %r' % (e[2].hex(), outstanding[1].hex()))
            outstanding = None
    # attribution: replay the requests sequentially in wire order against a fresh device
    oracle = S.CrazyflieDevice(protocol_version=5, param_toc=copy.deepcopy(protos))
    init = len([1 for _ in range(n)])
    want_misc = {}
    by_key = {}
    for k, plan in enumerate(plans):
        for j, (kind, i, v) in enumerate(plan):
            if kind not in ('set', 'read'):
                by_key[({'getdef': 6, 'getstate': 4, 'store': 3, 'clear': 5}[kind], i)] = ((k, j), kind, i)
    for (chan, data) in tx[init:]:
        if chan == 3:
            key = (data[0], data[1] | data[2] << 8)
            tag, kind, i = by_key[key]
            want_misc[tag] = ('g.p%d' % i, _expected_misc(oracle, S, kind, i)[1])
        else:
            oracle.handle(2, chan, data)
    got_misc = {}
    for e in ev:
        if e[0] == 'misc':
            got_misc.setdefault(e[1], []).append((e[2], e[3]))
    if got_misc != {t: [w] for t, w in want_misc.items()}:
        fails.append('misc callbacks %r, expected exactly once each %r' % (got_misc, want_misc))
    # final cache = device values
    for i in range(n):
        cv = res.value['cached']['g.p%d' % i]
        dv = res.value['device'][i]
        if _bits(cts[i], float(cv) if cts[i] in ('float', 'double') else int(cv)) != _bits(cts[i], dv) or _bits(cts[i], oracle.param_toc[i].value) != _bits(cts[i], dv):
            fails.append('cached value of g.p%d is %r, device has %r' % (i, cv, dv))
    return fails, res


def search_threads(ctx):
    from harness.sim import crazyflie_device as S
    nruns = 60 if ctx.tier == 'thorough' else 12
    for k in range(nruns):
        seed = ctx.rng.randrange(1 << 30)
        nworkers = ctx.rng.choice([2, 3, 4])
        try:
            fails, res = _vsched_case(ctx, S, seed, nworkers, ctx.rng.randint(2, 5))
        except Exception as e:       # infrastructure problem of the scheduler: not a verdict about the property
            ctx.note('vsched run skipped (%s: %s)' % (type(e).__name__, str(e)[:200]))
            ctx.count('vsched:skipped')
            continue
        ctx.count('vsched:runs')
        ctx.count('vsched:threads=%d' % nworkers)
        if fails:
            ctx.witness('threads-fifo-attribution', 'with real threads under the virtual scheduler: ' + fails[0][:300],
                        {'vsched_seed': seed, 'workers': nworkers}, more=fails[1:4], choices=list(res.choices)[:200])

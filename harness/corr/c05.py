"""C05 - log blocks are created as configured and log data decodes to device values.

Tie A: constants (channels, commands, MAX_LEN, MAX_BLOCKS, MAX_VARIABLES, MAX_DATA_SIZE, errno values), the
LogTocElement.types table, the type-byte / id-byte / timestamp / id-allocation expressions, the struct formats,
the packet tuples and the comparison texts of log.py and syncLogger.py are re-extracted into Gen/C05.lean.
Tie B: the real Log / LogConfig / LogVariable / Toc / SyncLogger objects (fake `cf` at the send_packet / link
boundary, non-blocking queue at the queue boundary) against the Lean model (Driver/C05.lean) on generated
histories.
"""
import ast
import errno as _errno

from harness.lib import extract as X
from harness.lib.common import ExtractError, exc_enum, hexs

PID = 'C05'
LEAN_TARGETS = ['CfVerif.Props.C05']
PROPS_MODULES = ['CfVerif.Props.C05']
DRIVER = 'Driver/C05.lean'
REQUIRED_THEOREMS = ['CfVerif.C05.' + t for t in (
    # property clauses
    'accept_iff', 'add_config_without_link', 'rejected_sends_nothing',
    'create_enumerates', 'start_creates', 'accepted_vars_good', 'dangling_type_byte', 'memory_variable_create_raises',
    'create_v1_single_message', 'logvariable_types_valid',
    'unpack_inverse', 'types_match_firmware',
    'ack_effect', 'ack_callbacks', 'flags_follow_acks', 'start_sent_on_create_ack',
    'readd_stable', 'resolved_stable', 'readd_live_counterexample',
    'add_config_partial_failure', 'configured_list_stable', 'accepted_variables_are_configured_list',
    'synclogger_fifo', 'sample_queued_once', 'next_takes_head', 'ends_at_disconnect',
    'gen_sl_statement_order', 'inv_initial', 'no_sample_lost', 'interleaved_fifo',
    'gen_reset_ack', 'late_control_ack_keeps_blocks', 'registered_blocks_stay',
    'gen_packet_fresh', 'wire_is_what_was_sent', 'create_wire_enumerates', 'history_wire_is_sent', 'reused_packet_counterexample',
    # Gen obligations
    'gen_types_single_code', 'gen_id_from_cstring', 'gen_logvar_init', 'gen_conf_init', 'gen_add_variable', 'gen_flag_setters',
    'gen_cmd_select', 'gen_setup_elements', 'gen_packet_size', 'gen_split_arith', 'gen_create', 'gen_start_stop_delete', 'gen_unpack',
    'gen_add_config', 'gen_accept_reject', 'gen_log_misc', 'gen_rx_tests', 'gen_rx_effects', 'gen_cmds_distinct', 'gen_wire_constants',
    'gen_synclogger')]
TRUSTED = ['harness/corr/c05.py extractor + correspondence harness (fake cf at send_packet/link/platform/disconnected: a RECORDING link that keeps the '
           'packet objects and serialises header and data only after the API call returned and again after the whole case; non-blocking Queue) + spec twin',
           'Spec/C05: firmware view of create/append messages (floor((len-2)/3) entries, logType low nibble = fetch type, high nibble = stored type), '
           'log data packet layout blk ts24 values, effect of acknowledgements; cross-checked against harness/sim/crazyflie_device.py in search()',
           'Base/Struct model of struct.unpack for <B <H <L <b <h <i <f <e; float32/FP16 values are carried as bit patterns (binary16/32 -> double '
           'conversion inside struct is CPython\'s)',
           'variable names abstracted to keys (a name not of the form group.name = a key absent from the table); Python dict = insertion-ordered map',
           'queue.Queue is FIFO; Caller.call iterates over a copy; Caller.add_callback ignores duplicates']
ASSUMPTIONS = ['threads: SyncLogger.connect()/disconnect() are interleaved with the incoming-packet thread at STATEMENT granularity (every source '
               'statement of the two methods is an atomic step, any packets/operations in between); all other API calls are atomic, so a create ack '
               'processed between the create and append packets inside create()/start() is outside the model',
               'no_sample_lost excludes, between the statements of a call, the atomic slConnect/slDisconnect operations, a link loss and '
               'add_variable/add_memory (they are modelled and corresponded, not covered by that theorem)',
               'period_in_ms is an integer (int(ms/10) modelled by truncating division); float periods are exercised only by search()',
               'user callbacks do not raise and do not re-enter the log API',
               'LogConfig attributes are changed only through the API (id is never None, period is not re-assigned)',
               'one Crazyflie / one Log object',
               'V1 (legacy) block creation is modelled and corresponded but not covered by create_enumerates (current protocol only)',
               'raw-memory variables (add_memory) are outside create_enumerates: known finding D8']
RULE = ('cases = histories (one fresh Log per case) of the operation vocabulary of Driver/C05.lean: corpus; 0..30/40/127..129 one-byte variables in V2 '
        'and V1 (every create/append split point); single configurations around the acceptance boundaries (periods -20..2600 ms incl. 9/10/2549/2550, '
        'payload 24..28, typed / default-typed / raw-memory / missing / malformed names / unknown types, idents > 255 and near 65535) followed by '
        'create, acks and data packets with extreme values of every fetch type; random histories of <= 12 further operations over 1-3 configurations '
        'incl. reconnect to the same or another table / protocol generation + re-add, SyncLogger sessions incl. re-use, acks with every command and '
        'status incl. unknown ones, id-counter wrap-around, MAX_BLOCKS / MAX_VARIABLES exhaustion, malformed packets on channels 0-3. '
        'rejected-then-re-added: a default-typed variable missing at EVERY position of lists of 1..6 names (and random typed/size/period rejections), '
        'then 1-3 reconnects to other tables (other idents, protocol generation, again incomplete or complete) with re-add, create, acks, data. '
        'interleavings: the REAL connect()/disconnect() are executed one source statement at a time (own thread under sys.settrace, baton '
        'hand-over, no sleeps) with create/start/stop/delete acks, data packets, next() calls, other loggers and reconnects delivered between '
        'the statements. The reply to EVERY operation (exception class, packets handed to send_packet with expected_reply, callbacks with arguments, decoded samples, '
        'queue traffic, digest of all public state) is compared.  distinct = distinct request-line sequences; every case is non-trivial (>= 5 operations)')

LOG = 'cflib/crazyflie/log.py'
SYNC = 'cflib/crazyflie/syncLogger.py'
CRTP = 'cflib/crtp/crtpstack.py'


# ---- Tie A ---------------------------------------------------------------------------------------------
def _assigns(node):
    return {ast.unparse(n.targets[0]): n.value for n in ast.walk(node) if isinstance(n, ast.Assign) and len(n.targets) == 1}


def _calls(node, pred):
    res = [(n.lineno, n.col_offset, n) for n in ast.walk(node) if isinstance(n, ast.Call) and pred(ast.unparse(n.func))]
    return [n for _, _, n in sorted(res, key=lambda t: t[:2])]


def _errno_of(e, where):
    """errno.X -> its integer value on this platform"""
    s = ast.unparse(e)
    X.expect(s.startswith('errno.') and hasattr(_errno, s[6:]), '%s: expected errno.<NAME>, got %s' % (where, s))
    return getattr(_errno, s[6:])


def _data_tuples(node):
    """source text of every `pk.data = (...)` under node, in source order"""
    res = []
    for n in ast.walk(node):
        if isinstance(n, ast.Assign) and len(n.targets) == 1 and ast.unparse(n.targets[0]) == 'pk.data':
            res.append((n.lineno, ast.unparse(n.value)))
    return [s for _, s in sorted(res)]


def extract(ctx):
    g = X.GenFile(PID, [LOG, SYNC, CRTP])
    tree = X.parse(LOG)
    mod = X.int_assigns(ast.Module(body=[n for n in tree.body if isinstance(n, ast.Assign)], type_ignores=[]))
    for name, lean in (('CHAN_TOC', 'chanToc'), ('CHAN_SETTINGS', 'chanSettings'), ('CHAN_LOGDATA', 'chanLogdata'),
                       ('CMD_CREATE_BLOCK', 'cmdCreate'), ('CMD_APPEND_BLOCK', 'cmdAppend'), ('CMD_DELETE_BLOCK', 'cmdDelete'),
                       ('CMD_START_LOGGING', 'cmdStart'), ('CMD_STOP_LOGGING', 'cmdStop'), ('CMD_RESET_LOGGING', 'cmdReset'),
                       ('CMD_CREATE_BLOCK_V2', 'cmdCreateV2'), ('CMD_APPEND_BLOCK_V2', 'cmdAppendV2')):
        X.expect(name in mod, 'log.py: constant %s not found' % name)
        g.nat(lean, mod[name])
    lc = X.find(tree, 'LogConfig')
    lg = X.find(tree, 'Log')
    g.nat('maxLen', X.int_assigns(ast.Module(body=[n for n in lc.body if isinstance(n, ast.Assign)], type_ignores=[]))['MAX_LEN'])
    lgc = X.int_assigns(ast.Module(body=[n for n in lg.body if isinstance(n, ast.Assign)], type_ignores=[]))
    g.nat('maxBlocks', lgc['MAX_BLOCKS'])
    g.nat('maxVariables', lgc['MAX_VARIABLES'])
    pkc = X.find(X.parse(CRTP), 'CRTPPacket')
    g.nat('maxDataSize', X.int_assigns(ast.Module(body=[n for n in pkc.body if isinstance(n, ast.Assign)], type_ignores=[]))['MAX_DATA_SIZE'])
    ads = X.find(pkc, 'available_data_size')
    g.string('availableExpr', ast.unparse(ads.body[-1]))
    gds = X.find(pkc, 'get_data_size')
    g.string('dataSizeExpr', ast.unparse(gds.body[-1]))

    # the type table
    te = X.find(tree, 'LogTocElement')
    types = None
    for n in te.body:
        if isinstance(n, ast.Assign) and ast.unparse(n.targets[0]) == 'types':
            types = ast.literal_eval(n.value)
    X.expect(isinstance(types, dict) and types, 'LogTocElement.types not a literal dict')
    rows = []
    for k, v in types.items():      # dict (insertion) order matters for get_id_from_cstring
        X.expect(isinstance(k, int) and isinstance(v, tuple) and len(v) == 3 and isinstance(v[0], str) and isinstance(v[1], str)
                 and isinstance(v[2], int), 'LogTocElement.types: unexpected row %r' % ((k, v),))
        rows.append('(%d, %s, %s, %d)' % (k, X.lstr(v[0]), X.lstr(v[1]), v[2]))
    g.raw('def types : List (Nat × String × String × Nat) := [' + ', '.join(rows) + ']')
    for fn, idx in (('get_cstring_from_id', 0), ('get_unpack_string_from_id', 1), ('get_size_from_id', 2)):
        f = X.find(te, fn)
        subs = [ast.unparse(n) for n in ast.walk(f) if isinstance(n, ast.Subscript) and ast.unparse(n).startswith('LogTocElement.types[ident][')]
        X.expect(subs == ['LogTocElement.types[ident][%d]' % idx], '%s: expected LogTocElement.types[ident][%d], got %r' % (fn, idx, subs))
    gid = X.find(te, 'get_id_from_cstring')
    g.strings('idFromCStringCompares', X.compares(gid))

    # LogVariable
    lv = X.find(tree, 'LogVariable')
    lvc = X.int_assigns(ast.Module(body=[n for n in lv.body if isinstance(n, ast.Assign)], type_ignores=[]))
    g.nat('tocType', lvc['TOC_TYPE'])
    g.nat('memType', lvc['MEM_TYPE'])
    sfb = X.find(lv, 'get_storage_and_fetch_byte')
    X.expect(isinstance(sfb.body[-1], ast.Return), 'get_storage_and_fetch_byte: no return')
    g.raw('def typeByteExpr (fetch stored : Nat) : Nat := ' +
          X.expr_to_lean(sfb.body[-1].value, {'self.fetch_as': 'fetch', 'self.stored_as': 'stored'}))
    init = X.find(lv, '__init__')
    g.strings('logVarInitCompares', X.compares(init))
    ia = _assigns(init)
    g.strings('logVarInitAssigns', ['%s=%s' % (k, ast.unparse(ia[k])) for k in ('self.fetch_as', 'self.stored_as', 'self.address', 'self.type') if k in ia])
    g.strings('isTocVariable', [ast.unparse(X.find(lv, 'is_toc_variable').body[-1])])

    # LogConfig
    ci = _assigns(X.find(lc, '__init__'))
    X.expect('self.period' in ci, 'LogConfig.__init__: self.period not assigned')
    per = ci['self.period']
    X.expect(isinstance(per, ast.Call) and ast.unparse(per.func) == 'int' and len(per.args) == 1 and isinstance(per.args[0], ast.BinOp)
             and isinstance(per.args[0].op, ast.Div) and ast.unparse(per.args[0].left) == 'period_in_ms'
             and isinstance(per.args[0].right, ast.Constant) and isinstance(per.args[0].right.value, int),
             'LogConfig.__init__: period is no longer int(period_in_ms / <int>): ' + ast.unparse(per))
    g.nat('periodDivisor', per.args[0].right.value)
    g.strings('confInit', ['%s=%s' % (k, ast.unparse(ci[k])) for k in ('self.id', 'self.cf', 'self.useV2', 'self._added', 'self._started', 'self.pending',
                                                                        'self.valid', 'self.variables', 'self.default_fetch_as', 'self.err_no') if k in ci])
    av = X.find(lc, 'add_variable')
    g.strings('addVariableTests', [ast.unparse(n.test) for n in ast.walk(av) if isinstance(n, ast.If)])
    g.strings('addVariableCalls', [ast.unparse(n) for n in _calls(av, lambda f: f.endswith('.append'))])
    g.strings('addMemoryCalls', [ast.unparse(n) for n in _calls(X.find(lc, 'add_memory'), lambda f: f.endswith('.append'))])
    for fn in ('_set_added', '_set_started'):
        f = X.find(lc, fn)
        g.strings(fn.strip('_').replace('_', '') + 'Body', [ast.unparse(s) for s in f.body])
    g.strings('cmdCreateBlock', [ast.unparse(s) for s in X.find(lc, '_cmd_create_block').body])
    g.strings('cmdAppendBlock', [ast.unparse(s) for s in X.find(lc, '_cmd_append_block').body])

    sle = X.find(lc, '_setup_log_elements')
    g.strings('setupCompares', X.compares(sle))
    g.strings('setupAppends', [ast.unparse(n.args[0]) for n in _calls(sle, lambda f: f == 'pk.data.append')])
    g.strings('setupReturns', [ast.unparse(n.value) for n in sorted((m for m in ast.walk(sle) if isinstance(m, ast.Return)), key=lambda m: m.lineno)])
    loops = [n for n in ast.walk(sle) if isinstance(n, ast.For)]
    X.expect(len(loops) == 1, '_setup_log_elements: expected one for loop')
    g.string('setupLoop', '%s in %s' % (ast.unparse(loops[0].target), ast.unparse(loops[0].iter)))
    sa = _assigns(sle)
    X.expect('size_to_add' in sa and isinstance(sa['size_to_add'], ast.Constant), '_setup_log_elements: size_to_add literal not found')
    g.nat('sizeToAdd', sa['size_to_add'].value)
    g.string('elementIdSource', ast.unparse(sa['element_id']) if 'element_id' in sa else '?')
    idb = [n.args[0] for n in _calls(sle, lambda f: f == 'pk.data.append') if 'element_id' in ast.unparse(n.args[0]) and ast.unparse(n.args[0]) != 'element_id']
    X.expect(len(idb) == 2, '_setup_log_elements: expected two id-byte appends in the V2 branch')
    g.raw('def idLoExpr (e : Nat) : Nat := ' + X.expr_to_lean(idb[0], {'element_id': 'e'}))
    g.raw('def idHiExpr (e : Nat) : Nat := ' + X.expr_to_lean(idb[1], {'element_id': 'e'}))
    g.strings('setupStructs', ['%s %s' % (c['fmt'], ','.join(c['args'])) for c in X.struct_calls(sle)])

    cr = X.find(lc, 'create')
    g.strings('createCompares', X.compares(cr))
    g.strings('createTests', [ast.unparse(n.test) for n in ast.walk(cr) if isinstance(n, (ast.If, ast.While))])
    g.strings('createData', _data_tuples(cr))
    g.strings('createSends', [ast.unparse(n) for n in _calls(cr, lambda f: f.endswith('send_packet'))])
    g.strings('createAug', [ast.unparse(n) for n in sorted((m for m in ast.walk(cr) if isinstance(m, ast.AugAssign)), key=lambda m: m.lineno)])
    for fn in ('start', 'stop', 'delete'):
        f = X.find(lc, fn)
        g.strings(fn + 'Tests', [ast.unparse(n.test) for n in ast.walk(f) if isinstance(n, ast.If)])
        g.strings(fn + 'Data', _data_tuples(f))
        g.strings(fn + 'Sends', [ast.unparse(n) for n in _calls(f, lambda s: s.endswith('send_packet'))])
    ul = X.find(lc, 'unpack_log_data')
    g.strings('unpackStructs', ['%s %s' % (c['fmt_src'], ','.join(c['args'])) for c in X.struct_calls(ul)])
    ua = _assigns(ul)
    g.strings('unpackAssigns', ['%s=%s' % (k, ast.unparse(ua[k])) for k in ('size', 'name', 'unpackstring', 'value', 'ret_data[name]') if k in ua])
    g.strings('unpackAug', [ast.unparse(n) for n in ast.walk(ul) if isinstance(n, ast.AugAssign)])
    g.strings('unpackCalls', [ast.unparse(n) for n in _calls(ul, lambda s: s.endswith('.call'))])

    # Log.add_config
    ac = X.find(lg, 'add_config')
    g.strings('addConfigTests', [ast.unparse(n.test) for n in sorted((m for m in ast.walk(ac) if isinstance(m, ast.If)), key=lambda m: m.lineno)])
    floops = sorted((n for n in ast.walk(ac) if isinstance(n, ast.For)), key=lambda n: n.lineno)
    X.expect(len(floops) == 2, 'add_config: expected two for loops')
    g.strings('addConfigLoops', ['%s in %s' % (ast.unparse(l.target), ast.unparse(l.iter)) for l in floops])
    g.strings('resolveCalls', [ast.unparse(n) for n in _calls(floops[0], lambda s: s.startswith('logconf.'))])
    g.strings('addConfigAug', [ast.unparse(n) for n in ast.walk(ac) if isinstance(n, ast.AugAssign)])
    acc = [n for n in ast.walk(ac) if isinstance(n, ast.If) and 'MAX_LEN' in ast.unparse(n.test)]
    X.expect(len(acc) == 1, 'add_config: acceptance test not found')
    t = acc[0].test
    # size <= LogConfig.MAX_LEN and (logconf.period > LO and logconf.period < HI)
    ok = isinstance(t, ast.BoolOp) and isinstance(t.op, ast.And) and len(t.values) == 2 and ast.unparse(t.values[0]) == 'size <= LogConfig.MAX_LEN'
    inner = t.values[1] if ok else None
    ok = ok and isinstance(inner, ast.BoolOp) and isinstance(inner.op, ast.And) and len(inner.values) == 2
    if ok:
        a, b = inner.values
        ok = (isinstance(a, ast.Compare) and ast.unparse(a.left) == 'logconf.period' and isinstance(a.ops[0], ast.Gt)
              and isinstance(b, ast.Compare) and ast.unparse(b.left) == 'logconf.period' and isinstance(b.ops[0], ast.Lt))
    X.expect(ok, 'add_config: acceptance test changed shape: ' + ast.unparse(t))
    g.nat('periodLo', ast.literal_eval(a.comparators[0]))
    g.nat('periodHi', ast.literal_eval(b.comparators[0]))
    g.strings('acceptBody', [ast.unparse(s) for s in acc[0].body])
    g.strings('rejectBody', [ast.unparse(s) if not isinstance(s, ast.Raise) else 'raise ' + ast.unparse(s.exc.func) for s in acc[0].orelse])
    aa = _assigns(ac)
    X.expect('self._config_id_counter' in aa, 'add_config: id counter update not found')
    g.raw('def nextIdExpr (c : Nat) : Nat := ' + X.expr_to_lean(aa['self._config_id_counter'], {'self._config_id_counter': 'c'}))
    g.strings('addConfigRaises', [ast.unparse(n.exc.func) for n in sorted((m for m in ast.walk(ac) if isinstance(m, ast.Raise)), key=lambda m: m.lineno)])
    li = _assigns(X.find(lg, '__init__'))
    g.nat('idCounterInit', ast.literal_eval(li['self._config_id_counter']))
    g.strings('findBlock', [ast.unparse(s) for s in X.find(lg, '_find_block').body])
    g.strings('resetBody', [ast.unparse(s) for s in X.find(lg, 'reset').body if not isinstance(s, ast.Expr) or not isinstance(s.value, ast.Constant)])
    g.strings('resetData', _data_tuples(X.find(lg, '_send_reset_packet')))
    rt = _assigns(X.find(lg, 'refresh_toc'))
    g.strings('refreshAssigns', ['%s=%s' % (k, ast.unparse(rt[k])) for k in ('self._useV2', 'self.toc') if k in rt])

    # Log._new_packet_cb
    np_ = X.find(lg, '_new_packet_cb')
    g.strings('rxTests', [ast.unparse(n.test) for n in sorted((m for m in ast.walk(np_) if isinstance(m, ast.If)), key=lambda m: (m.lineno, m.col_offset))])
    na = _assigns(np_)
    g.strings('rxAssigns', ['%s=%s' % (k, ast.unparse(na[k])) for k in ('cmd', 'payload', 'error_status', 'logdata', 'block.added', 'block.pending',
                                                                         'block.err_no', 'self.log_blocks') if k in na])
    g.strings('rxData', _data_tuples(np_))
    g.strings('rxCalls', [ast.unparse(n) for n in _calls(np_, lambda s: s.endswith('_cb.call') or s.endswith('unpack_log_data'))])
    g.strings('rxFlagWrites', ['%d:%s' % (i, s) for i, s in enumerate(
        ast.unparse(n) for n in sorted((m for m in ast.walk(np_) if isinstance(m, ast.Assign) and ast.unparse(m.targets[0]) in ('block.added', 'block.started')),
                                       key=lambda m: m.lineno))])
    sc = X.struct_calls(np_)
    X.expect(len(sc) == 1 and sc[0]['fmt'], '_new_packet_cb: expected one struct.unpack with a literal format')
    g.string('tsFmt', sc[0]['fmt'])
    g.strings('tsArgs', sc[0]['args'])
    X.expect('timestamp' in na, '_new_packet_cb: timestamp expression not found')

    def ts_env(e):
        # timestamps[k] -> tk
        class T(ast.NodeTransformer):
            def visit_Subscript(self, n):
                if ast.unparse(n.value) == 'timestamps' and isinstance(n.slice, ast.Constant):
                    return ast.Name(id='t%d' % n.slice.value, ctx=ast.Load())
                return n
        return T().visit(e)
    g.raw('def tsExpr (t0 t1 t2 : Nat) : Nat := ' + X.expr_to_lean(ts_env(na['timestamp']), {'t0': 't0', 't1': 't1', 't2': 't2'}))
    ec = None
    for n in lg.body:
        if isinstance(n, ast.Assign) and ast.unparse(n.targets[0]) == '_err_codes':
            ec = n.value
    X.expect(isinstance(ec, ast.Dict), 'Log._err_codes not a dict literal')
    g.nats('errCodes', [_errno_of(k, '_err_codes') for k in ec.keys])
    # errno names used in the status tests
    used = sorted({ast.unparse(n) for n in ast.walk(np_) if isinstance(n, ast.Attribute) and ast.unparse(n).startswith('errno.')})
    for s in used:
        g.nat('errno' + s[6:], getattr(_errno, s[6:]))

    # SyncLogger
    st = X.parse(SYNC)
    sl = X.find(st, 'SyncLogger')
    for fn in ('connect', 'disconnect', '__next__', '_log_callback', '_disconnected', '__exit__'):
        f = X.find(sl, fn)
        g.strings('sl' + fn.strip('_').capitalize() + 'Body', [ast.unparse(s).replace('\n', ' ; ') for s in f.body
                                                              if not (isinstance(s, ast.Expr) and isinstance(s.value, ast.Constant))])
    # the reset acknowledgement: `log_blocks` is cleared only under the duplicate-answer guard `if not self.toc`
    rbr = [n for n in ast.walk(np_) if isinstance(n, ast.If) and ast.unparse(n.test) in ('cmd == CMD_RESET_LOGGING', '(cmd == CMD_RESET_LOGGING)')]
    X.expect(len(rbr) == 1, '_new_packet_cb: reset branch not found')
    rshape = []

    def rwalk(body):
        for stn in body:
            if isinstance(stn, ast.Expr) and isinstance(stn.value, ast.Call) and ast.unparse(stn.value.func).startswith('logger.'):
                continue
            if isinstance(stn, ast.If):
                rshape.append('if ' + ast.unparse(stn.test) + ':')
                rwalk(stn.body)
                rshape.append('else:' if stn.orelse else 'endif')
                if stn.orelse:
                    rwalk(stn.orelse)
                    rshape.append('endif')
            elif isinstance(stn, ast.Assign):
                rshape.append(ast.unparse(stn.targets[0]) + ' = ' + (ast.unparse(stn.value) if len(ast.unparse(stn.value)) < 12 else ast.unparse(stn.value).split('(')[0] + '(...)'))
            else:
                rshape.append(ast.unparse(stn).split('(')[0] + ('(...)' if '(' in ast.unparse(stn) else ''))
    rwalk(rbr[0].body)
    g.strings('resetAckShape', rshape)
    g.strings('logBlocksWrites', sorted('%s: %s' % (f.name, ast.unparse(n)) for f in lg.body if isinstance(f, ast.FunctionDef)
                                        for n in ast.walk(f) if (isinstance(n, ast.Assign) and ast.unparse(n.targets[0]) == 'self.log_blocks')
                                        or (isinstance(n, ast.Call) and ast.unparse(n.func).startswith('self.log_blocks.'))))

    # packet freshness: every message is a fresh CRTPPacket constructed inside the loop / the sending function; no packet object
    # is reused across iterations or stored on self (links serialise later than send_packet returns)
    loops = [n for n in ast.walk(cr) if isinstance(n, ast.While)]
    X.expect(len(loops) == 1, 'LogConfig.create: expected one while loop')
    body = [stn for stn in loops[0].body if not (isinstance(stn, ast.Expr) and isinstance(stn.value, ast.Call)
                                                   and ast.unparse(stn.value.func).startswith('logger.'))]
    g.strings('createLoopBody', [ast.unparse(stn) for stn in body])
    ctor_in_loop = [stn for stn in body if isinstance(stn, ast.Assign) and ast.unparse(stn) == 'pk = CRTPPacket()']
    pk_assigns = [n for n in ast.walk(cr) if isinstance(n, ast.Assign) and any(ast.unparse(t) == 'pk' for t in n.targets)]
    send_in_loop = [n for n in ast.walk(loops[0]) if isinstance(n, ast.Call) and ast.unparse(n.func).endswith('send_packet')]
    all_sends = [n for n in ast.walk(cr) if isinstance(n, ast.Call) and ast.unparse(n.func).endswith('send_packet')]
    fresh = (len(ctor_in_loop) == 1 and len(pk_assigns) == 1 and body and body[0] is ctor_in_loop[0] and len(send_in_loop) == 1
             and len(all_sends) == 1 and ast.unparse(all_sends[0].args[0]) == 'pk')
    g.raw('def createPacketInLoop : Bool := ' + ('true' if fresh else 'false'))
    sites = []
    for cls in (lc, lg):
        for f in cls.body:
            if not isinstance(f, ast.FunctionDef):
                continue
            sends = [n for n in ast.walk(f) if isinstance(n, ast.Call) and ast.unparse(n.func).endswith('send_packet')]
            if not sends:
                continue
            ctors = [n for n in ast.walk(f) if isinstance(n, ast.Assign) and ast.unparse(n) == 'pk = CRTPPacket()']
            args = sorted({ast.unparse(n.args[0]) if n.args else '?' for n in sends})
            sites.append('%s.%s: sends=%d ctors=%d arg=%s' % (cls.name, f.name, len(sends), len(ctors), ','.join(args)))
    g.strings('packetSites', sites)
    stored = []
    for n in ast.walk(tree):
        if isinstance(n, ast.Assign) and any(isinstance(t, ast.Attribute) for t in n.targets):
            v = ast.unparse(n.value)
            if 'CRTPPacket(' in v or v in ('pk', 'packet'):
                stored.append(ast.unparse(n))
    g.strings('packetsStoredOnAttributes', stored)

    # statement order of the loops of connect() / disconnect() (the atomic steps of the interleaving model)
    def loop_order(fn):
        f = X.find(sl, fn)
        loops = [n for n in ast.walk(f) if isinstance(n, ast.For)]
        X.expect(len(loops) == 1 and ast.unparse(loops[0].iter) == 'self._log_config' and ast.unparse(loops[0].target) == 'config',
                 'SyncLogger.%s: expected one `for config in self._log_config` loop' % fn)
        names = []
        for stn in loops[0].body:
            X.expect(isinstance(stn, ast.Expr) and isinstance(stn.value, ast.Call) and isinstance(stn.value.func, ast.Attribute),
                     'SyncLogger.%s: loop statement is not a method call: %s' % (fn, ast.unparse(stn)))
            names.append(ast.unparse(stn.value.func).replace('self._cf.log.', 'log.'))
        return loops[0], names
    cl, cnames = loop_order('connect')
    g.strings('slConnectLoopOrder', cnames)
    dl, dnames = loop_order('disconnect')
    g.strings('slDisconnectLoopOrder', dnames)

    def shape(fn, loop):
        """top-level statement kinds around the loop, in order"""
        f = X.find(sl, fn)
        out = []

        def walk(body):
            for stn in body:
                if isinstance(stn, ast.Expr) and isinstance(stn.value, ast.Constant):
                    continue
                if stn is loop:
                    out.append('LOOP')
                elif isinstance(stn, ast.If):
                    out.append('if ' + ast.unparse(stn.test) + ':')
                    walk(stn.body)
                    out.append('endif')
                else:
                    out.append(ast.unparse(stn))
        walk(f.body)
        return out
    g.strings('slConnectShape', shape('connect', cl))
    g.strings('slDisconnectShape', shape('disconnect', dl))
    return {'C05.lean': g.render()}


# ---- real-code session (same op vocabulary and reply format as Driver/C05.lean) ------------------------------
TYPE_IDS = {'uint8_t': 1, 'uint16_t': 2, 'uint32_t': 3, 'int8_t': 4, 'int16_t': 5, 'int32_t': 6, 'float': 7, 'FP16': 8}   # firmware log.h
TYPE_FMT = {1: '<B', 2: '<H', 3: '<I', 4: '<b', 5: '<h', 6: '<i', 7: '<f', 8: '<e'}
TYPE_SIZE = {1: 1, 2: 2, 3: 4, 4: 1, 5: 2, 6: 4, 7: 4, 8: 2}
TYPE_NAMES = sorted(TYPE_IDS, key=TYPE_IDS.get)
BAD_NAME_BASE = 1000          # name keys >= this are strings that are not of the form group.name


def name_str(k):
    if k >= BAD_NAME_BASE:
        return ('nodot%d' % k) if k % 2 == 0 else ('a.b.c%d' % k)
    return 'g%d.v%d' % (k % 3, k)


def name_key(s):
    if s.startswith('nodot'):
        return int(s[5:])
    if s.startswith('a.b.c'):
        return int(s[5:])
    return int(s.split('.v')[1])


def toc_dict_order(els):
    """elements [(key, ident, ctype)] in the iteration order of Toc's dict-of-dicts (groups by first appearance)"""
    groups = []
    for e in els:
        g = name_str(e[0]).split('.')[0]
        if g not in groups:
            groups.append(g)
    return [e for g in groups for e in els if name_str(e[0]).split('.')[0] == g]


class WouldBlock(Exception):
    pass


def _mods():
    import logging
    logging.disable(logging.CRITICAL)
    import queue
    import cflib.crazyflie.log as L
    import cflib.crazyflie.syncLogger as SLm
    from cflib.crtp.crtpstack import CRTPPacket
    from cflib.utils.callbacks import Caller
    return L, SLm, CRTPPacket, Caller, queue


class Real:
    """the real Log / LogConfig / SyncLogger driven through a fake `cf` (send_packet, link, platform,
    disconnected) and a non-blocking queue; produces the reply lines of the Lean driver"""

    def __init__(self):
        L, SLm, CRTPPacket, Caller, queue = _mods()
        self.L, self.SLm, self.CRTPPacket = L, SLm, CRTPPacket
        sess = self
        self.ev = []
        self.ver = 0

        class Platform:
            def get_protocol_version(self_):
                return sess.ver

        class Cf:
            def __init__(self_):
                self_.link = None
                self_.platform = Platform()
                self_.disconnected = Caller()
                self_.link_uri = 'fake://0'
                self_.port_cbs = []

            def add_port_callback(self_, port, cb):
                self_.port_cbs.append((port, cb))

            def remove_port_callback(self_, port, cb):
                self_.port_cbs.remove((port, cb))

            def send_packet(self_, pk, expected_reply=(), resend=False, timeout=0.2):
                # recording link (same idea as harness/corr/c08.py): keep the packet OBJECT; header and data are read only after
                # the API call has returned (Real._late) and once more at `txlog` / the end of the case, like a driver out-queue
                # or the resend timer that serialises later than send_packet returns
                rec = [pk, tuple(expected_reply), None]
                sess.sent.append(rec)
                sess.ev.append(rec)
        self.cf = Cf()
        self.log = L.Log(self.cf)
        self.cf.log = self.log
        self.log.block_added_cb.add_callback(lambda c: self.ev.append('badd:%d' % self.hof(c)))
        self.confs = []
        self.sls = []
        self.sent = []           # every packet object handed to send_packet: [packet, expected_reply, serialisation reported]
        self.calls = {}          # SyncLogger index -> Stepper of the connect()/disconnect() call in progress

        class NBQueue(queue.Queue):
            def __init__(q, s):
                queue.Queue.__init__(q)
                q.s = s

            def get(q, block=True, timeout=None):
                if q.empty():
                    raise WouldBlock()
                return queue.Queue.get(q, False)

            def put(q, item, block=True, timeout=None):
                sess.ev.append('put:%d:%s' % (q.s, sess.item(item)))
                return queue.Queue.put(q, item, block, timeout)
        self.NBQueue = NBQueue

    def hof(self, c):
        for i, x in enumerate(self.confs):
            if x is c:
                return i
        return -1

    def val(self, block, name, v):
        if isinstance(v, float):
            import struct
            ft = [x.fetch_as for x in block.variables if x.name == name][-1]
            if ft == 8:
                return 'f%d' % struct.unpack('<H', struct.pack('<e', v))[0]
            return 'f%d' % struct.unpack('<I', struct.pack('<f', v))[0]
        return 'i%d' % v

    def kv(self, block, d):
        return ','.join('%d=%s' % (name_key(k), self.val(block, k, v)) for k, v in d.items()) or '-'

    def item(self, it):
        if isinstance(it, str):
            return 'D' if it == 'DISCONNECT_EVENT' else '?' + it
        ts, d, block = it
        return 'S/%d/%d/%s' % (ts, self.hof(block), self.kv(block, d))

    def new_conf(self, ms):
        c = self.L.LogConfig('c%d' % len(self.confs), ms)
        h = len(self.confs)
        self.confs.append(c)

        def on_added(*a):
            self.ev.append('added:%d:%d' % (h, 1 if a[1] else 0) if len(a) == 2 else 'addederr:%d' % h)

        def on_started(*a):
            self.ev.append('started:%d:%d' % (h, 1 if a[1] else 0) if a[0] is c else 'startederr:%d' % h)

        def on_error(block, msg):
            st = [k for k, m in self.L.Log._err_codes.items() if m == msg]
            self.ev.append('error:%d:%s' % (h, st[0] if len(st) == 1 else '?'))

        def on_data(ts, d, block):
            self.ev.append('data:%d:%d:%s' % (self.hof(block), ts, self.kv(block, d)))
        c.added_cb.add_callback(on_added)
        c.started_cb.add_callback(on_started)
        c.error_cb.add_callback(on_error)
        c.data_received_cb.add_callback(on_data)

    def digest(self):
        cs = '|'.join('%d,%d,%d,%d,%d,%d,%d,%d,%d,%d,%d' % (c.valid, c.added, c.started, int(c.pending), c.id, len(c.variables), len(c.default_fetch_as),
                                                           c.err_no, c.cf is not None, c.useV2,
                                                           sum(isinstance(getattr(cb, '__self__', None), self.SLm.SyncLogger) for cb in c.data_received_cb.callbacks)) for c in self.confs)
        ss = '|'.join('%d,%d' % (s._is_connected, s._queue.qsize()) for s in self.sls)
        # only the callbacks the property talks about: the SyncLoggers' (by owner type; TocFetcher etc. also listen to `disconnected`)
        owners = [getattr(cb, '__self__', None) for cb in self.cf.disconnected.callbacks]
        disc = ','.join(str(i) for o in owners if isinstance(o, self.SLm.SyncLogger) for i, x in enumerate(self.sls) if x is o)
        return 'c=%s b=%s sl=%s disc=%s link=%d toc=%d' % (cs or '-', ','.join(str(self.hof(b)) for b in self.log.log_blocks) or '-', ss or '-',
                                                          disc or '-', self.cf.link is not None, self.log.toc is not None)

    def set_toc(self, els):
        toc = self.log.toc
        toc.toc = {}
        for (k, ident, ctype) in els:
            g, n = name_str(k).split('.')
            tid = TYPE_IDS.get(ctype, 1)
            el = self.L.LogTocElement(ident, bytes([tid]) + g.encode() + b'\0' + n.encode() + b'\0')
            if ctype not in TYPE_IDS:
                el.ctype = ctype            # malformed table entry (cannot come from the wire)
            toc.add_element(el)

    def do(self, words):
        """execute one request; returns the reply line"""
        op = words[0]
        ty = (lambda s: '' if s == '-' else s)
        if op == 'txlog':
            return 'ok ' + (';'.join(t for t in self.txlog() if t.startswith('tx:')) or '-')
        if op == 'dump':
            c = self.confs[int(words[1])]
            vs = ','.join('%d:%d:%d:%d:%d' % (name_key(v.name), v.fetch_as, v.stored_as, v.is_toc_variable(), v.address) for v in c.variables)
            return 'ok period=%d vars=%s defaults=%s' % (c.period, vs or '-', ','.join(str(name_key(n)) for n in c.default_fetch_as) or '-')
        self.ev = []
        err = None
        left = 0
        try:
            if op == 'newconf':
                self.new_conf(int(words[1]))
            elif op == 'addvar':
                self.confs[int(words[1])].add_variable(name_str(int(words[2])), ty(words[3]) or None)
            elif op == 'addmem':
                self.confs[int(words[1])].add_memory(name_str(int(words[2])), ty(words[3]), ty(words[4]), int(words[5]))
            elif op == 'addconfig':
                self.log.add_config(self.confs[int(words[1])])
            elif op in ('start', 'stop', 'delete'):
                getattr(self.confs[int(words[1])], op)()
            elif op == 'rx':
                pk = self.CRTPPacket()
                pk.set_header(5, int(words[1]))
                pk.data = bytearray(bytes.fromhex('' if words[2] == '-' else words[2]))
                self.log._new_packet_cb(pk)
            elif op == 'reset':
                self.log.reset()
            elif op == 'refresh':
                self.ver = int(words[1])
                self.log.refresh_toc(lambda *a: None, _NullCache())
            elif op == 'settoc':
                els = [] if words[1] == '-' else [(int(a), int(b), c) for a, b, c in (w.split(':') for w in words[1].split(','))]
                self.set_toc(els)
            elif op == 'linkup':
                self.cf.link = object()
            elif op == 'linklost':
                self.cf.link = None
                self.cf.disconnected.call(self.cf.link_uri)
            elif op == 'newsl':
                s = self.SLm.SyncLogger(self.cf, [self.confs[int(h)] for h in words[1].split(',')] if words[1] != '-' else [])
                s._queue = self.NBQueue(len(self.sls))
                self.sls.append(s)
            elif op == 'slconnect':
                self.sls[int(words[1])].connect()
            elif op == 'sldisconnect':
                self.sls[int(words[1])].disconnect()
            elif op == 'slbegin':
                i = int(words[1])
                if i in self.calls or words[2] not in ('connect', 'disconnect'):
                    return 'bad-op'
                stp = Stepper(self.sls[i], words[2])
                stp.begin()
                if stp.done:
                    stp.th.join(5)
                    if stp.err is not None:
                        raise stp.err
                else:
                    self.calls[i] = stp
                left = 0 if stp.done else 1
            elif op == 'slrun':
                i = int(words[1])
                if i not in self.calls:
                    return 'bad-op'
                stp = self.calls[i]
                stp.step()
                left = 0 if stp.done else 1
                if stp.done:
                    del self.calls[i]
                    stp.th.join(5)
                    if stp.err is not None:
                        raise stp.err
            elif op == 'slnext':
                s = self.sls[int(words[1])]
                n0 = s._queue.qsize()
                try:
                    it = s.__next__()
                    self.ev.append('yield:%s:%s' % (words[1], self.item(it)))
                except StopIteration:
                    self.ev.append('stop:%s:%d' % (words[1], 1 if s._queue.qsize() < n0 else 0))
                except WouldBlock:
                    self.ev.append('blocks:%s' % words[1])
            else:
                return 'bad-op'
        except Exception as e:
            err = exc_enum(e)
        self._late()
        rep = '%s outs=%s st=%s' % ('ok' if err is None else 'err:' + err, ';'.join(self.ev) or '-', self.digest())
        if op in ('slbegin', 'slrun'):
            rep += ' left=%d' % (0 if err is not None else left)
        return rep

    @staticmethod
    def _ser(pk, expected):
        """what the link puts on the wire for this packet object NOW"""
        hdr = pk.get_header()
        port, chan = (hdr >> 4) & 0x0F, hdr & 0x03
        if port == 5 and chan == 1:
            return 'tx:%s:%s' % (hexs(pk.data), ','.join(str(x) for x in expected) or '-')
        if port == 5 and chan == 0:
            return 'tocfetch'
        return 'tx?:%d:%d:%s' % (port, chan, hexs(pk.data))

    def _late(self):
        """serialise the packet objects recorded during the call that just returned"""
        for k, e in enumerate(self.ev):
            if isinstance(e, list):
                e[2] = self._ser(e[0], e[1])
                self.ev[k] = e[2]

    def txlog(self):
        """serialise EVERY packet object of the session again (a link that transmits after a burst of calls)"""
        return [self._ser(rec[0], rec[1]) for rec in self.sent if rec[2] is not None]

    def close(self):
        for stp in list(self.calls.values()):
            stp.kill()
        self.calls = {}


class _Abort(BaseException):
    pass


class Stepper:
    """runs the REAL SyncLogger.connect / .disconnect one source statement at a time: the call executes in its own thread under
    sys.settrace and parks before the first line of every simple statement of the method; main and the call thread hand a baton
    back and forth (semaphores, exactly one runs at a time, no sleeps), so everything the harness does between two `step()`s
    happens between two statements of the call, as if the incoming-packet thread had run there"""

    def __init__(self, sl, which):
        import inspect
        import threading
        fn = getattr(type(sl), which)
        self.code = fn.__code__
        src, first = inspect.getsourcelines(fn)
        import textwrap
        tree = ast.parse(textwrap.dedent(''.join(src)))
        self.spans = {}
        for n in ast.walk(tree):
            if isinstance(n, (ast.Expr, ast.Assign, ast.AugAssign)) and not (isinstance(n, ast.Expr) and isinstance(n.value, ast.Constant)):
                self.spans[first + n.lineno - 1] = (first + n.lineno - 1, first + n.end_lineno - 1)
        self.cur = None
        self.sl = sl
        self.fn = fn
        self.err = None
        self.done = False
        self.abort = False
        self.to_main = threading.Semaphore(0)
        self.to_thread = threading.Semaphore(0)
        self.th = threading.Thread(target=self._target, daemon=True)

    def _park(self):
        self.to_main.release()
        self.to_thread.acquire()
        if self.abort:
            raise _Abort()

    def _local(self, frame, event, arg):
        if event == 'line':
            ln = frame.f_lineno
            if self.cur is not None and self.cur[0] <= ln <= self.cur[1]:
                return self._local
            self.cur = None
            if ln in self.spans:
                self.cur = self.spans[ln]
                self._park()
        return self._local

    def _tracer(self, frame, event, arg):
        return self._local if frame.f_code is self.code else None

    def _target(self):
        import sys
        sys.settrace(self._tracer)
        try:
            self.fn(self.sl)
        except _Abort:
            pass
        except Exception as e:
            self.err = e
        finally:
            sys.settrace(None)
            self.done = True
            self.to_main.release()

    def begin(self):
        self.th.start()
        self.to_main.acquire()

    def step(self):
        self.to_thread.release()
        self.to_main.acquire()

    def kill(self):
        if not self.done:
            self.abort = True
            self.to_thread.release()
            self.to_main.acquire()
        self.th.join(5)


class _NullCache:
    def fetch(self, crc):
        return None

    def insert(self, crc, toc):
        pass


def run_real(lines, live=False):
    """replies of the real code to a list of request lines (`restart` starts a fresh session)"""
    out = []
    r = Real()
    for line in lines:
        w = line.split()
        if w == ['restart']:
            r = Real()
            out.append('ok')
        elif w == ['live']:
            out.append('ok')
        else:
            out.append(r.do(w))
    return out


# ---- generators (Tie B) ------------------------------------------------------------------------------------------
PERIODS = [-20, -10, -9, -1, 0, 1, 9, 10, 11, 19, 20, 100, 1000, 2540, 2549, 2550, 2551, 2559, 2560, 2600]
STATUSES = [0, 0, 0, 17, 2, 7, 8, 12, 13, 255]
INT_RANGE = {1: (0, 255), 2: (0, 65535), 3: (0, 2 ** 32 - 1), 4: (-128, 127), 5: (-32768, 32767), 6: (-2 ** 31, 2 ** 31 - 1)}
F32_BITS = [0, 0x80000000, 0x7f800000, 0xff800000, 0x7fc00000, 1, 0x7f7fffff, 0x3f800000, 0xc2f70000, 0x00800000]
F16_BITS = [0, 0x8000, 0x7c00, 0xfc00, 0x7e00, 1, 0x7bff, 0x3c00, 0xc500, 0x0400]


def rand_value_bytes(rng, tid):
    """little-endian bytes of a random (often extreme) value of log type `tid`, as the firmware would put them on the wire"""
    if tid in INT_RANGE:
        lo, hi = INT_RANGE[tid]
        v = rng.choice([lo, hi, 0, -1 if lo < 0 else 1, rng.randint(lo, hi)])
        return (v % (1 << (8 * TYPE_SIZE[tid]))).to_bytes(TYPE_SIZE[tid], 'little')
    if tid == 7:
        b = rng.choice(F32_BITS + [rng.getrandbits(32)])
        if (b >> 23) & 0xFF == 0xFF and b & 0x7FFFFF:
            b = 0x7fc00000          # signalling / payload NaNs do not survive float32 -> double -> float32 (canonicaliser limit)
        return b.to_bytes(4, 'little')
    b = rng.choice(F16_BITS + [rng.getrandbits(16)])
    if (b >> 10) & 0x1F == 0x1F and b & 0x3FF:
        b = 0x7e00
    return b.to_bytes(2, 'little')


def make_toc(rng, n, id_base=0, collide=False):
    els = []
    for k in range(n):
        ident = id_base + k
        if collide and k and rng.random() < 0.3:
            ident = id_base + rng.randrange(k)
        els.append((k, ident, TYPE_NAMES[(k + rng.randrange(2)) % 8]))
    return els


def toc_line(els):
    els = toc_dict_order(els)
    return 'settoc ' + (','.join('%d:%d:%s' % e for e in els) or '-')


def connect_lines(ver, els):
    return ['linkup', 'refresh %d' % ver, 'rx 1 050000', toc_line(els)]


def types_for_payload(rng, target):
    """a list of type names whose sizes sum to `target` (a third of the time only 1- and 2-byte types: many variables)"""
    out, left = [], target
    small = rng.random() < 0.34
    while left > 0:
        cand = [t for t in TYPE_NAMES if TYPE_SIZE[TYPE_IDS[t]] <= left and (not small or TYPE_SIZE[TYPE_IDS[t]] <= 2)]
        t = rng.choice(cand)
        out.append(t)
        left -= TYPE_SIZE[TYPE_IDS[t]]
    rng.shuffle(out)
    return out


class Case:
    def __init__(self, kind):
        self.kind = kind
        self.lines = ['restart']
        self.real = ['ok']
        self.r = Real()

    def do(self, line):
        self.lines.append(line)
        rep = self.r.do(line.split())
        self.real.append(rep)
        return rep

    def data_line(self, rng, h, mangle=True):
        c = self.r.confs[h]
        body = b''.join(rand_value_bytes(rng, v.fetch_as) for v in c.variables)
        ts = rng.choice([0, 1, 0xFFFFFF, 0x010203, rng.getrandbits(24)])
        pkt = bytes([c.id & 0xFF]) + ts.to_bytes(3, 'little') + body
        if mangle:
            x = rng.random()
            if x < 0.08 and len(pkt) > 1:
                pkt = pkt[:rng.randrange(1, len(pkt))]
            elif x < 0.14:
                pkt += bytes(rng.randrange(256) for _ in range(rng.randrange(1, 4)))
        return 'rx 2 ' + hexs(pkt)


def gen_accept_case(rng, v2=True):
    """one configuration around the acceptance boundaries, then create / acks / data"""
    cs = Case('accept')
    n_toc = rng.choice([8, 16, 30])
    els = make_toc(rng, n_toc, id_base=rng.choice([0, 0, 250, 65000]) if v2 else rng.choice([0, 0, 240]))
    for l in connect_lines(rng.choice([4, 5, 10]) if v2 else rng.choice([-1, 0, 3]), els):
        cs.do(l)
    cs.do('newconf %d' % rng.choice(PERIODS + [rng.randrange(0, 2601)] * 6 + [100] * 12))
    target = rng.choice([0, 1, 13, 24, 25, 26, 26, 26, 27, 28, rng.randrange(0, 30)])
    by_type = {}
    for (k, _, ct) in els:
        by_type.setdefault(ct, []).append(k)
    for t in types_for_payload(rng, target):
        x = rng.random()
        if x < 0.45:
            cs.do('addvar 0 %d %s' % (rng.randrange(n_toc), t))
        elif x < 0.85 and t in by_type:
            cs.do('addvar 0 %d -' % rng.choice(by_type[t]))          # default type: a TOC element stored as `t`
        elif x < 0.90:
            cs.do('addmem 0 %d %s %s %d' % (rng.randrange(n_toc + 5), t, rng.choice(TYPE_NAMES + ['-']), rng.getrandbits(32)))
        elif x < 0.93:
            cs.do('addvar 0 %d %s' % (rng.choice([n_toc, n_toc + 7, BAD_NAME_BASE, BAD_NAME_BASE + 1]), rng.choice([t, '-'])))
        elif x < 0.95:
            cs.do('addvar 0 %d %s' % (rng.randrange(n_toc), rng.choice(['bogus', 'uint64_t', 'Float'])))
        else:
            cs.do('addvar 0 %d %s' % (rng.randrange(n_toc), t))
    cs.do('addconfig 0')
    cs.do('dump 0')
    cs.do('start 0')
    c = cs.r.confs[0]
    if c.cf is not None:
        cs.do('rx 1 %s' % hexs([6 if c.useV2 else 0, c.id, rng.choice([0, 0, 0, 17, 7, 12, 13])]))
        if rng.random() < 0.5:
            cs.do('rx 1 %s' % hexs([3, c.id, rng.choice([0, 0, 2, 99])]))
        for _ in range(rng.randrange(1, 4)):
            cs.do(cs.data_line(rng, 0))
        if rng.random() < 0.3:
            cs.do('addconfig 0')
            cs.do('dump 0')
    return cs


def gen_boundary_case(rng, n, v2, id_base):
    """n one-byte variables: create/append splitting at every packet boundary"""
    cs = Case('boundary')
    els = [(k, id_base + k, rng.choice(['uint8_t', 'int8_t'])) for k in range(max(n, 1))]
    for l in connect_lines(5 if v2 else 2, els):
        cs.do(l)
    cs.do('newconf 50')
    for k in range(n):
        cs.do('addvar 0 %d %s' % (k, rng.choice(['-', 'uint8_t', 'int8_t'])))
    cs.do('addconfig 0')
    cs.do('start 0')
    cs.do('start 0')
    if cs.r.confs[0].cf is not None:
        cs.do('rx 1 %s' % hexs([6 if v2 else 0, cs.r.confs[0].id, 0]))
        cs.do(cs.data_line(rng, 0, mangle=False))
    return cs


def gen_history_case(rng, nops):
    """random history over several configurations incl. reconnect + re-add, SyncLoggers and acks"""
    cs = Case('history')
    els = make_toc(rng, rng.choice([4, 8, 12]), id_base=rng.choice([0, 300]), collide=rng.random() < 0.1)
    v2 = rng.random() < 0.8
    for l in connect_lines(5 if v2 else 1, els):
        cs.do(l)
    nt = len(els)
    # a few configurations to play with
    for h in range(rng.choice([1, 2, 3])):
        cs.do('newconf %d' % rng.choice([10, 100, 100, 500, 2549, 0, 2550]))
        for _ in range(rng.choice([0, 1, 2, 3, 5, 11])):
            if rng.random() < 0.6:
                cs.do('addvar %d %d -' % (h, rng.randrange(nt)))
            else:
                cs.do('addvar %d %d %s' % (h, rng.randrange(nt + (1 if rng.random() < 0.1 else 0)), rng.choice(TYPE_NAMES)))
    for _ in range(nops):
        r = cs.r
        nc, ns = len(r.confs), len(r.sls)
        h = rng.randrange(nc)
        x = rng.random()
        ids = sorted({c.id for c in r.confs}) + [rng.randrange(256)]
        if x < 0.16:
            cs.do('addconfig %d' % h)
        elif x < 0.28:
            cs.do('start %d' % h)
        elif x < 0.33:
            cs.do('stop %d' % h)
        elif x < 0.38:
            cs.do('delete %d' % h)
        elif x < 0.60:
            cmd = rng.choice([0, 6, 6, 3, 3, 4, 2, 1, 7, 5, 9])
            cs.do('rx 1 %s' % hexs([cmd, rng.choice(ids), rng.choice(STATUSES)]))
        elif x < 0.70:
            cs.do(cs.data_line(rng, h))
        elif x < 0.78:
            # reconnect (possibly to another firmware generation / table)
            cs.do('linklost')
            if rng.random() < 0.3:
                els = make_toc(rng, rng.choice([4, 8, 12]), id_base=rng.choice([0, 300]))
                nt = len(els)
            if rng.random() < 0.2:
                v2 = not v2
            for l in connect_lines(5 if v2 else 1, els):
                cs.do(l)
        elif x < 0.80:
            cs.do(rng.choice(['reset', 'linklost', 'linkup', 'rx 1 050000', 'refresh 4']))
        elif x < 0.84:
            cs.do('addvar %d %d %s' % (h, rng.randrange(nt), rng.choice(['-'] + TYPE_NAMES)))
        elif x < 0.88:
            hs = sorted(rng.sample(range(nc), rng.randrange(1, nc + 1)))
            cs.do('newsl ' + ','.join(map(str, hs)))
        elif ns and x < 0.93:
            cs.do('slconnect %d' % rng.randrange(ns))
        elif ns and x < 0.96:
            cs.do('sldisconnect %d' % rng.randrange(ns))
        elif ns:
            cs.do('slnext %d' % rng.randrange(ns))
        else:
            cs.do('dump %d' % h)
    for h in range(len(cs.r.confs)):
        cs.do('dump %d' % h)
    return cs


def gen_sync_case(rng):
    """SyncLogger sessions: connect, samples, nexts, disconnect / link loss, re-use"""
    cs = Case('sync')
    els = make_toc(rng, 8)
    for l in connect_lines(5, els):
        cs.do(l)
    nconf = rng.choice([1, 1, 2])
    for h in range(nconf):
        cs.do('newconf 100')
        for _ in range(rng.choice([1, 2, 4])):
            cs.do('addvar %d %d %s' % (h, rng.randrange(8), rng.choice(['-'] + TYPE_NAMES)))
    cs.do('newsl ' + ','.join(map(str, range(nconf))))
    if rng.random() < 0.3:
        cs.do('newsl 0')
    for _ in range(rng.randrange(4, 16)):
        r = cs.r
        s = rng.randrange(len(r.sls))
        x = rng.random()
        if x < 0.15:
            cs.do('slconnect %d' % s)
            for c in r.confs:
                if c.cf is not None and rng.random() < 0.8:
                    cs.do('rx 1 %s' % hexs([6, c.id, 0]))
        elif x < 0.50:
            cs.do(cs.data_line(rng, rng.randrange(nconf), mangle=rng.random() < 0.3))
        elif x < 0.80:
            cs.do('slnext %d' % s)
        elif x < 0.86:
            cs.do('sldisconnect %d' % s)
        elif x < 0.93:
            cs.do('linklost')
        else:
            for l in connect_lines(5, els):
                cs.do(l)
    for s in range(len(cs.r.sls)):
        cs.do('slnext %d' % s)
    return cs


def gen_reject_readd_case(rng, ndef=None, miss=None):
    """add_config failing part-way (a missing default-typed / typed variable at a chosen position, size or period rejection),
    then the SAME LogConfig added again against another table (reconnect), possibly several times, then created"""
    cs = Case('rejectreadd')
    nt = 14
    full = [(k, rng.choice([k, 100 + k, 13 - k]) if False else k, TYPE_NAMES[k % 8]) for k in range(nt)]
    ndef = rng.randrange(1, 7) if ndef is None else ndef
    ntyped = rng.choice([0, 0, 1, 2])
    dnames = rng.sample(range(nt), ndef) if rng.random() < 0.85 else [rng.randrange(nt) for _ in range(ndef)]
    tnames = [rng.randrange(nt) for _ in range(ntyped)]
    v2 = rng.random() < 0.9

    def table(missing, base):
        return [(k, base + i, ct) for i, (k, _, ct) in enumerate(e for e in full if e[0] not in missing)]
    first_missing = {dnames[miss if miss is not None else rng.randrange(ndef)]} if rng.random() < 0.85 or miss is not None else set()
    if tnames and rng.random() < 0.2:
        first_missing.add(rng.choice(tnames))
    for l in connect_lines(5 if v2 else 1, table(first_missing, rng.choice([0, 20]))):
        cs.do(l)
    cs.do('newconf %d' % rng.choice([100, 100, 100, 100, 5, 2550]))
    order = [('d', n) for n in dnames] + [('t', n) for n in tnames]
    if rng.random() < 0.5:
        rng.shuffle(order)
    for kind, n in order:
        cs.do('addvar 0 %d %s' % (n, '-' if kind == 'd' else rng.choice(TYPE_NAMES)))
    if rng.random() < 0.15:
        for _ in range(rng.choice([8, 20])):
            cs.do('addvar 0 %d uint32_t' % rng.randrange(nt))          # too large
    cs.do('addconfig 0')
    cs.do('dump 0')
    if rng.random() < 0.3:
        cs.do('start 0')
    for attempt in range(rng.choice([1, 1, 2, 3])):
        cs.do('linklost')
        missing = set()
        if attempt < 2 and rng.random() < 0.35:
            missing = {rng.choice(dnames + tnames)}
        if rng.random() < 0.15:
            v2 = not v2
        for l in connect_lines(5 if v2 else 1, table(missing, rng.choice([0, 7, 300]) if v2 else rng.choice([0, 7]))):
            cs.do(l)
        if rng.random() < 0.1:
            cs.do('addvar 0 %d %s' % (rng.randrange(nt), rng.choice(['-'] + TYPE_NAMES)))
        cs.do('addconfig 0')
        cs.do('dump 0')
        cs.do('start 0')
        c = cs.r.confs[0]
        if c.cf is not None and rng.random() < 0.7:
            cs.do('rx 1 %s' % hexs([6 if c.useV2 else 0, c.id, 0]))
            cs.do(cs.data_line(rng, 0, mangle=False))
            if rng.random() < 0.5:
                cs.do('delete 0')
                cs.do('rx 1 %s' % hexs([2, c.id, rng.choice([0, 2])]))
    return cs


def gen_interleave_case(rng):
    """connect() / disconnect() of SyncLoggers executed statement by statement (the real methods, stepped under a tracer) with
    acknowledgements, data packets, next() calls and other operations delivered BETWEEN the statements"""
    cs = Case('interleave')
    els = make_toc(rng, 8)
    for l in connect_lines(5, els):
        cs.do(l)
    nconf = rng.choice([1, 1, 2, 3])
    for h in range(nconf):
        cs.do('newconf %d' % rng.choice([100, 100, 100, 0]))
        for _ in range(rng.choice([1, 2])):
            cs.do('addvar %d %d %s' % (h, rng.randrange(8 + (1 if rng.random() < 0.05 else 0)), rng.choice(['-'] + TYPE_NAMES)))
    cs.do('newsl ' + ','.join(map(str, range(nconf))))
    if rng.random() < 0.3:
        cs.do('newsl 0')

    def env():
        r = cs.r
        x = rng.random()
        live = [c for c in r.confs if c.cf is not None]
        if x < 0.45 and live:
            c = rng.choice(live)
            cmd = rng.choice([6, 6, 6, 3, 3, 4, 2])
            cs.do('rx 1 %s' % hexs([cmd, c.id, rng.choice([0, 0, 0, 0, 17, 2, 12])]))
        elif x < 0.80 and live:
            cs.do(cs.data_line(rng, r.confs.index(rng.choice(live)), mangle=False))
        elif x < 0.90:
            cs.do('slnext %d' % rng.randrange(len(r.sls)))
        elif x < 0.93:
            cs.do(rng.choice(['start', 'stop', 'delete']) + ' %d' % rng.randrange(nconf))
        elif x < 0.96 and len(r.sls) > 1:
            cs.do(rng.choice(['slconnect 1', 'sldisconnect 1', 'slbegin 1 connect', 'slrun 1']))
        elif x < 0.98:
            cs.do('linklost')
            for l in connect_lines(5, els):
                cs.do(l)
        else:
            cs.do('addconfig %d' % rng.randrange(nconf))

    def call(which):
        rep = cs.do('slbegin 0 ' + which)
        for _ in range(rng.choice([0, 0, 1, 2])):
            env()
        guard = 0
        while 0 in cs.r.calls and guard < 60:
            guard += 1
            rep = cs.do('slrun 0')
            # after a statement that transmitted (start/stop/delete): the incoming thread may answer before the next statement
            burst = 3 if 'tx:' in rep and rng.random() < 0.7 else rng.choice([0, 0, 1, 2])
            if 'tx:06' in rep and rng.random() < 0.6:
                for c in cs.r.confs:
                    if c.cf is not None and c.pending:
                        cs.do('rx 1 %s' % hexs([6, c.id, 0]))
                        cs.do('rx 1 %s' % hexs([3, c.id, 0]))
                        cs.do(cs.data_line(rng, cs.r.confs.index(c), mangle=False))
            for _ in range(burst):
                env()
    for _ in range(rng.choice([1, 1, 2])):
        call('connect')
        for _ in range(rng.randrange(0, 6)):
            env()
        if rng.random() < 0.7:
            call('disconnect')
        for _ in range(rng.randrange(0, 3)):
            env()
    for sidx in range(len(cs.r.sls)):
        for _ in range(3):
            cs.do('slnext %d' % sidx)
    cs.r.close()
    return cs


def gen_malformed_case(rng):
    cs = Case('malformed')
    els = make_toc(rng, 6)
    for l in connect_lines(5, els):
        cs.do(l)
    cs.do('newconf 100')
    cs.do('addvar 0 1 -')
    cs.do('addvar 0 2 uint32_t')
    cs.do('addconfig 0')
    cs.do('start 0')
    for _ in range(10):
        chan = rng.choice([0, 1, 1, 2, 2, 3])
        n = rng.choice([0, 1, 2, 3, 4, 5, 9])
        data = bytes(rng.choice([rng.randrange(256), rng.randrange(8), 1]) for _ in range(n))
        cs.do('rx %d %s' % (chan, hexs(data)))
    return cs


def gen_wrap_case(rng):
    """more than 255 add_config calls: the id counter wraps ((c + 1) % 255) and ids collide; acks go to the first block with the id"""
    cs = Case('idwrap')
    els = make_toc(rng, 4)
    for l in connect_lines(5, els):
        cs.do(l)
    cs.do('newconf 100')
    cs.do('addvar 0 1 -')
    cs.do('newconf 200')
    cs.do('addvar 1 2 uint8_t')
    for i in range(rng.choice([254, 255, 256, 300])):
        cs.do('addconfig %d' % (i % 2))
    for h in (0, 1):
        cs.do('start %d' % h)
        c = cs.r.confs[h]
        cs.do('rx 1 %s' % hexs([6, c.id, 0]))
        cs.do('rx 1 %s' % hexs([3, c.id, 0]))
        cs.do(cs.data_line(rng, h, mangle=False))
    cs.do('rx 1 %s' % hexs([2, rng.randrange(256), 0]))
    return cs


def gen_budget_case(rng):
    """MAX_BLOCKS / MAX_VARIABLES checks of create(): many pending blocks, many variables"""
    cs = Case('budget')
    els = [(k, k, 'uint8_t') for k in range(26)]
    for l in connect_lines(5, els):
        cs.do(l)
    nconf = rng.choice([17, 18, 6])
    nvars = 3 if nconf > 6 else rng.choice([22, 25, 26])
    for h in range(nconf):
        cs.do('newconf 100')
        for k in range(nvars):
            cs.do('addvar %d %d uint8_t' % (h, k))
        cs.do('addconfig %d' % h)
    for h in range(nconf):
        cs.do('start %d' % h)
        if rng.random() < 0.3:
            cs.do('rx 1 %s' % hexs([6, cs.r.confs[h].id, rng.choice([0, 12])]))
        if rng.random() < 0.1:
            cs.do('rx 1 %s' % hexs([2, cs.r.confs[h].id, 0]))
    cs.do('start 0')
    return cs


def corpus_cases():
    import glob
    import json
    import os
    out = []
    for f in sorted(glob.glob(os.path.join(os.path.dirname(os.path.dirname(os.path.abspath(__file__))), 'corpus', 'c05', '*.json'))):
        d = json.load(open(f))
        cs = Case('corpus')
        for l in d['lines'][1:]:
            cs.do(l)
        out.append(cs)
    return out


def gen_cases(ctx):
    rng = ctx.rng
    th = ctx.tier == 'thorough'
    cases = corpus_cases()
    for _ in range(4 if th else 1):
        cases.append(gen_wrap_case(rng))
    for _ in range(12 if th else 3):
        cases.append(gen_budget_case(rng))
    for n in list(range(0, 31)) + [40, 127, 128, 129]:
        cases.append(gen_boundary_case(rng, n, True, rng.choice([0, 250, 65500])))
    for n in (0, 1, 13, 14, 15, 26, 27):
        cases.append(gen_boundary_case(rng, n, False, rng.choice([0, 245])))
    for ndef in range(1, 7):                      # a missing default-typed variable at EVERY position of the list
        for miss in range(ndef):
            cases.append(gen_reject_readd_case(rng, ndef, miss))
    for _ in range(3000 if th else 500):
        cases.append(gen_reject_readd_case(rng))
    for _ in range(400 if th else 80):
        cases.append(gen_boundary_case(rng, rng.randrange(8, 28), rng.random() < 0.85, rng.choice([0, 100, 250, 65500])))
    for _ in range(9000 if th else 1500):
        cases.append(gen_accept_case(rng, v2=rng.random() < 0.85))
    for _ in range(15000 if th else 2500):
        cases.append(gen_history_case(rng, rng.randrange(1, 13)))
    for _ in range(5000 if th else 800):
        cases.append(gen_sync_case(rng))
    for _ in range(2500 if th else 400):
        cases.append(gen_interleave_case(rng))
    for _ in range(1200 if th else 200):
        cases.append(gen_malformed_case(rng))
    return cases


def correspond(ctx):
    cases = gen_cases(ctx)
    for c in cases:
        c.do('txlog')          # the link transmits after the whole burst: every packet object serialised again
        c.r.close()
    lines = [l for c in cases for l in c.lines]
    replies = ctx.lean(DRIVER, lines)
    i = 0
    for c in cases:
        n = len(c.lines)
        model = replies[i:i + n]
        i += n
        ctx.count('case:' + c.kind)
        bad = None
        for k, (l, a, b) in enumerate(zip(c.lines, c.real, model)):
            op = l.split()[0]
            ctx.count('op:' + op)
            head = a.split(' ')[0]
            if head != 'ok':
                ctx.count('result:' + head)
            for o in (a.split(' ')[1][5:].split(';') if ' outs=' in a else []):
                if o != '-':
                    ctx.count('out:' + o.split(':')[0])
            if op == 'addconfig':
                ctx.count('addconfig:' + ('accepted' if 'badd:' in a else 'nolink' if head == 'ok' else 'rejected:' + head[4:]))
            if op == 'start' and head == 'ok':
                ctx.count('start:msgs=%d' % a.count('tx:'))
            if a != b and bad is None:
                bad = k
        ctx.case({'kind': c.kind, 'ops': c.lines[1:8]}, (c.kind, tuple(c.lines)))
        if bad is not None:
            ctx.disagree(c.kind + ':' + c.lines[bad].split()[0], {'history': c.lines[:bad + 1][-14:]}, model[bad][:400], c.real[bad][:400])


# ---- direct evaluation of the property on the real code (failing-input search) --------------------------------------
def _spec_ack(cmd, status, f):
    """Spec.ackEffect"""
    added, started = f
    if cmd in (0, 6):
        return (True, started) if status in (0, 17) else f
    if cmd == 3:
        return (added, True) if status == 0 else f
    if cmd == 4:
        return (added, False) if status == 0 else f
    if cmd == 2:
        return (False, False) if status in (0, 2) else f
    return f


def _fw_entries(msg):
    """firmware view of a V2 create/append message: floor((len-2)/3) entries (logType, id16)"""
    body = msg[2:]
    return [(body[3 * k], body[3 * k + 1] | body[3 * k + 2] << 8) for k in range(len(body) // 3)]


def _tx(ev):
    return [bytes.fromhex(e.split(':')[1].replace('-', '')) for e in ev if e.startswith('tx:')]


def _connect(r, ver, els):
    for l in connect_lines(ver, els):
        r.do(l.split())


def search(ctx):
    import struct
    rng = ctx.rng
    th = ctx.tier == 'thorough'
    els40 = [(k, k, TYPE_NAMES[k % 8]) for k in range(40)]

    # (1) accepted iff (all names in table, 10 <= ms < 2550, payload <= 26); nothing sent by add_config; a rejected
    #     (never accepted) configuration cannot transmit
    for trial in range(3000 if th else 500):
        r = Real()
        _connect(r, 5, els40)
        ms = rng.choice(PERIODS + [rng.randrange(0, 2601), 100, 100, 100, 9.999, 10.0, 2549.99, 2550.0, 15.5])
        r.do(['newconf', '0'])
        r.confs[0].__init__('x', ms)
        r.new_conf_hooks = None
        vars_, missing, payload = [], False, 0
        for t in types_for_payload(rng, rng.choice([0, 5, 20, 25, 26, 26, 27, 28, 30])):
            k = rng.randrange(40)
            x = rng.random()
            if x < 0.04:
                k, missing = rng.choice([40, 47, BAD_NAME_BASE, BAD_NAME_BASE + 1]), True
            if x < 0.5 or k >= 40:
                r.confs[0].add_variable(name_str(k), t)
                payload += TYPE_SIZE[TYPE_IDS[t]]
            else:
                k = rng.choice([e[0] for e in els40 if e[2] == t])
                r.confs[0].add_variable(name_str(k))
                payload += TYPE_SIZE[TYPE_IDS[t]]
            vars_.append((k, t))
        want = (not missing) and 10 <= ms < 2550 and payload <= 26
        rep = r.do(['addconfig', '0'])
        got = rep.startswith('ok ')
        inp = {'period_ms': ms, 'variables': vars_, 'payload': payload}
        if got != want:
            ctx.witness('accept-iff', 'add_config accepts/rejects against the stated condition', inp, accepted=got, expected=want)
        if 'tx:' in rep:
            ctx.witness('add-config-sends', 'add_config transmitted a packet', inp, reply=rep)
        if not got:
            for op in ('start', 'stop', 'delete'):
                rep2 = r.do([op, '0'])
                if 'tx:' in rep2 or rep2.startswith('ok '):
                    ctx.witness('rejected-transmits', '%s() on a rejected configuration did not raise / transmitted' % op, inp, reply=rep2)
            continue
        # (2) accepted: the create/append messages enumerate exactly the variables (firmware view), each <= 30 bytes
        c = r.confs[0]
        expected = [(TYPE_IDS[t] << 4 | TYPE_IDS[t], k) for (k, t) in vars_]
        expected = [(((v.stored_as << 4) | v.fetch_as), name_key(v.name)) for v in c.variables]   # idents == keys in els40
        if sorted(name_key(v.name) for v in c.variables) != sorted(k for k, _ in vars_):
            ctx.witness('variables-changed', 'accepted configuration does not hold exactly the requested variables', inp)
        rep = r.do(['start', '0'])
        msgs = _tx(r.ev)
        seen = [e for m in msgs for e in _fw_entries(m)]
        bad = (not rep.startswith('ok ') or not msgs or any(len(m) > 30 for m in msgs) or msgs[0][:2] != bytes([6, c.id])
               or any(m[:2] != bytes([7, c.id]) for m in msgs[1:]) or seen != expected)
        if bad:
            ctx.witness('create-enumerates', 'create/append messages do not enumerate the variables once each in order',
                        inp, messages=[m.hex() for m in msgs], firmware_view=seen, expected=expected, reply=rep[:200])

    # (2b) every variable count 0..26 (one-byte variables) and the same through the shared simulated firmware
    try:
        from harness.sim import crazyflie_device as S
    except Exception as e:     # pragma: no cover
        S = None
        ctx.note('harness.sim not importable: %r' % (e,))
    for n in range(0, 27):
        r = Real()
        els = [(k, k, 'uint8_t' if k % 2 else 'int8_t') for k in range(max(n, 1))]
        _connect(r, 5, els)
        r.do(['newconf', '100'])
        for k in range(n):
            r.confs[0].add_variable(name_str(k), rng.choice([None, 'uint8_t', 'int8_t']))
        rep = r.do(['addconfig', '0'])
        rep2 = r.do(['start', '0'])
        msgs = _tx(r.ev)
        c = r.confs[0]
        expected = [((v.stored_as << 4) | v.fetch_as, name_key(v.name)) for v in c.variables]
        seen = [e for m in msgs for e in _fw_entries(m)]
        ok = rep.startswith('ok ') and rep2.startswith('ok ') and len(c.variables) == n and seen == expected and all(len(m) <= 30 for m in msgs) \
            and msgs[0][0] == 6 and all(m[0] == 7 for m in msgs[1:])
        if ok and S is not None:
            dev = S.CrazyflieDevice(log_toc=[S.LogVar(*name_str(k).split('.'), ctype=ct) for (k, _, ct) in els])
            acks = [dev.handle(5, 1, m) for m in msgs]
            ok = all(a and a[0][2][2] == 0 for a in acks) and dev.blocks.get(c.id, {}).get('vars') == expected
        if not ok:
            ctx.witness('create-enumerates', 'create/append messages do not enumerate the variables once each in order',
                        {'n_one_byte_variables': n}, messages=[m.hex() for m in msgs], firmware_view=seen, expected=expected)

    # (2c) what reaches the wire when the link serialises LATER than send_packet returns (out-queue, resend timer): a burst of
    #      start/stop/delete calls on several configurations, every packet object serialised only at the end
    for trial in range(150 if th else 40):
        r = Real()
        els = [(k, k, 'uint8_t') for k in range(30)]
        _connect(r, 5, els)
        ncfg = rng.choice([1, 2, 3])
        sizes = [rng.choice([1, 9, 10, 11, 18, 19, 20, 26]) for _ in range(ncfg)]
        for h, n in enumerate(sizes):
            r.do(['newconf', '100'])
            for k in rng.sample(range(30), n):
                r.confs[h].add_variable(name_str(k), 'uint8_t')
            r.do(['addconfig', str(h)])
        script = []
        for h in range(ncfg):
            script.append(('start', h))
        for _ in range(rng.randrange(0, 4)):
            script.append((rng.choice(['stop', 'delete', 'start']), rng.randrange(ncfg)))
        for op, h in script:
            r.do([op, str(h)])
        wire = [bytes.fromhex(t.split(':')[1].replace('-', '')) for t in r.txlog() if t.startswith('tx:')]
        blocks, order_ok = {}, True
        for m in wire:
            if m[0] == 6:
                blocks[m[1]] = list(_fw_entries(m))
            elif m[0] == 7:
                if m[1] not in blocks:
                    order_ok = False
                else:
                    blocks[m[1]] += _fw_entries(m)
        want = {c.id: [((v.stored_as << 4) | v.fetch_as, name_key(v.name)) for v in c.variables] for c in r.confs}
        if not order_ok or any(len(m) > 30 for m in wire) or {i: blocks.get(i) for i in want} != want:
            ctx.witness('create-wire-late-serialisation', 'with a link that serialises the queued packet objects after the calls returned, the block-creation '
                        'messages on the wire do not enumerate the variables (a packet object is reused / mutated after send_packet)',
                        {'variables_per_config': sizes, 'calls': script}, wire=[m.hex() for m in wire][:8], expected={k: len(v) for k, v in want.items()})
            break

    # (3) log data decodes to the device's values (every fetch type, extremes), 24-bit timestamp
    for trial in range(1500 if th else 300):
        r = Real()
        _connect(r, 5, els40)
        r.do(['newconf', '100'])
        ks = rng.sample(range(40), 13)
        tys = types_for_payload(rng, rng.choice([1, 8, 20, 26]))[:13]
        for k, t in zip(ks, tys):
            r.confs[0].add_variable(name_str(k), t)
        r.do(['addconfig', '0'])
        c = r.confs[0]
        raw = [rand_value_bytes(rng, TYPE_IDS[t]) for t in tys]
        ts = rng.choice([0, 0xFFFFFF, 0x800000, rng.getrandbits(24)])
        pkt = bytes([c.id]) + ts.to_bytes(3, 'little') + b''.join(raw)
        rep = r.do(['rx', '2', pkt.hex()])
        want = 'data:0:%d:%s' % (ts, ','.join('%d=%s%d' % (k, 'f' if t in ('float', 'FP16') else 'i',
                                                           int.from_bytes(b, 'little', signed=t.startswith('int')) if t not in ('float', 'FP16')
                                                           else int.from_bytes(b, 'little')) for k, t, b in zip(ks, tys, raw)))
        if not rep.startswith('ok ') or r.ev != [want]:
            ctx.witness('unpack-inverse', 'log data packet not decoded into the device values', {'types': tys, 'packet': pkt.hex()}, got=r.ev[:3], want=want)

    # (4) flags and callbacks follow the acknowledgements
    for trial in range(1500 if th else 300):
        r = Real()
        _connect(r, 5, els40)
        r.do(['newconf', '100'])
        r.confs[0].add_variable(name_str(3))
        r.do(['addconfig', '0'])
        c = r.confs[0]
        f = (False, False)
        hist = []
        for _ in range(rng.randrange(1, 13)):
            x = rng.random()
            if x < 0.3:
                op = rng.choice(['start', 'stop', 'delete'])
                r.do([op, '0'])
                hist.append(op)
                evs = []
            else:
                cmd, status = rng.choice([0, 6, 6, 3, 3, 4, 2, 1, 7, 5]), rng.choice([0, 0, 0, 17, 2, 7, 12])
                r.do(['rx', '1', bytes([cmd, c.id, status]).hex()])
                hist.append((cmd, status))
                f2 = _spec_ack(cmd, status, f)
                evs = ([('started', f2[1])] if f2[1] != f[1] else []) + ([('added', f2[0])] if f2[0] != f[0] else [])
                f = f2
            got_evs = [(e.split(':')[0], e.split(':')[2] == '1') for e in r.ev if e.startswith('added:') or e.startswith('started:')]
            if (c.added, c.started) != f or got_evs != evs:
                ctx.witness('flags-follow-acks', 'added/started flags or callbacks do not follow the acknowledgements', {'history': hist},
                            flags=(c.added, c.started), expected=f, callbacks=got_evs, expected_callbacks=evs)
                break

    # (4b) late / duplicated control acknowledgements of EVERY command (create, append, start, stop, delete, RESET; for the block,
    #      for another id) delivered at EVERY point of a block's life: the block stays registered - later acknowledgements still
    #      drive its flags, its data packets are still decoded and a SyncLogger still yields them.  Also Log.reset() followed by
    #      add_config + start before the reset is acknowledged.
    life = ['add', 'start', 'ack-create', 'ack-start', 'data', 'stop', 'ack-stop', 'start', 'ack-start', 'data', 'delete', 'ack-delete']
    late = [(cmd, ident) for cmd in (5, 0, 6, 1, 7, 3, 4, 2) for ident in ('block', 'other')]
    combos = [(pos, lc_) for pos in range(1, len(life) + 1) for lc_ in late]
    extra = 400 if th else 60
    for trial in range(len(combos) + extra):
        with_sl = trial % 2 == 1
        r = Real()
        _connect(r, 5, els40)
        pre_reset = trial >= len(combos) and rng.random() < 0.5
        if pre_reset:
            r.do(['reset'])                                   # Log.reset(): its acknowledgement is still on its way
        r.do(['newconf', '100'])
        c = r.confs[0]
        c.add_variable(name_str(2), 'uint16_t')
        if with_sl:
            r.do(['newsl', '0'])
        if trial < len(combos):
            inject = {combos[trial][0]: [combos[trial][1]]}
        else:
            inject = {}
            for _ in range(rng.randrange(1, 4)):
                inject.setdefault(rng.randrange(1, len(life) + 1), []).append(rng.choice(late))
        f, hist, seq, ok = (False, False), [], 0, True
        for pos, stepname in enumerate(life, 1):
            if stepname == 'add':
                r.do(['slconnect', '0'] if with_sl else ['addconfig', '0'])
                if not with_sl:
                    pass
            elif stepname == 'start':
                if not (with_sl and pos == 2):
                    r.do(['start', '0'])
            elif stepname in ('stop', 'delete'):
                r.do([stepname, '0'])
            elif stepname.startswith('ack-'):
                cmd = {'create': 6, 'start': 3, 'stop': 4, 'delete': 2}[stepname[4:]]
                r.do(['rx', '1', bytes([cmd, c.id, 0]).hex()])
                f = _spec_ack(cmd, 0, f)
            elif stepname == 'data':
                seq += 1
                r.do(['rx', '2', (bytes([c.id]) + seq.to_bytes(3, 'little') + b'\x07\x00').hex()])
                dec = [e for e in r.ev if e.startswith('data:')]
                if dec != ['data:0:%d:2=i7' % seq]:
                    ctx.witness('late-ack-block-forgotten', 'after a late/duplicated control acknowledgement a data packet of a registered block is no '
                                'longer decoded', {'life': life[:pos], 'late_acks': hist, 'reset_before_add': pre_reset}, decoded=dec)
                    ok = False
                    break
                if with_sl:
                    r.do(['slnext', '0'])
                    if r.ev != ['yield:0:S/%d/0/2=i7' % seq]:
                        ctx.witness('late-ack-block-forgotten', 'after a late/duplicated control acknowledgement SyncLogger no longer yields the decoded '
                                    'sample', {'life': life[:pos], 'late_acks': hist, 'reset_before_add': pre_reset}, got=r.ev)
                        ok = False
                        break
            hist.append(stepname)
            for (cmd, ident) in inject.get(pos, []):
                idv = c.id if ident == 'block' else (c.id + 3) % 255
                r.do(['rx', '1', bytes([cmd, idv, 0]).hex()])
                hist.append(('late', cmd, ident))
                if ident == 'block':
                    f = _spec_ack(cmd, 0, f)
            if (c.added, c.started) != f:
                ctx.witness('late-ack-block-forgotten' if any(isinstance(x, tuple) for x in hist) else 'flags-follow-acks',
                            'flags of a registered block do not follow the acknowledgements after a late/duplicated control acknowledgement',
                            {'life': life[:pos], 'history': hist, 'reset_before_add': pre_reset}, flags=(c.added, c.started), expected=f)
                ok = False
                break
        if not ok:
            break

    # (5) re-adding a configuration after a reconnect does not change its variable list (D6)
    for ndef, ntyped in ((1, 0), (2, 1), (7, 0), (13, 0), (14, 0), (3, 2)):
        r = Real()
        _connect(r, 5, els40)
        r.do(['newconf', '100'])
        for k in range(ndef):
            r.confs[0].add_variable(name_str(8 * k % 40))           # uint8_t elements
        for k in range(ntyped):
            r.confs[0].add_variable(name_str(1 + k), 'uint8_t')
        r.do(['addconfig', '0'])
        before = [(v.name, v.fetch_as, v.stored_as) for v in r.confs[0].variables]
        r.do(['linklost'])
        _connect(r, 5, els40)
        rep = r.do(['addconfig', '0'])
        after = [(v.name, v.fetch_as, v.stored_as) for v in r.confs[0].variables]
        if after != before or not rep.startswith('ok '):
            ctx.witness('D6-readd-duplicates', 'add_config on an already resolved LogConfig (reconnect + re-add) changes its variable list',
                        {'default_typed': ndef, 'typed': ntyped}, before=len(before), after=len(after), second_add_config=rep.split(' ')[0])
            break

    # (5b) REJECTED then re-added: after any sequence of failed and successful add_config calls against different tables the
    #      variable list is the configured list, once each and in order; a failed add_config sends nothing; the create messages of
    #      the finally accepted configuration enumerate exactly the configured variables
    full = [(k, k, TYPE_NAMES[k % 8]) for k in range(14)]
    plans = [(nd, m, nty) for nd in range(1, 7) for m in range(nd) for nty in (0, 2)]
    for trial in range(len(plans) + (1500 if th else 250)):
        if trial < len(plans):
            ndef, miss, ntyped = plans[trial]
        else:
            ndef = rng.randrange(1, 8)
            miss, ntyped = rng.randrange(ndef), rng.choice([0, 1, 3])
        dnames = rng.sample(range(14), ndef)
        tvars = [(rng.randrange(14), rng.choice(TYPE_NAMES)) for _ in range(ntyped)]
        r = Real()
        r.do(['newconf', str(rng.choice([100, 100, 100, 5]))])
        c = r.confs[0]
        for n in dnames:
            c.add_variable(name_str(n))
        for n, t in tvars:
            c.add_variable(name_str(n), t)
        configured = sorted([(n, TYPE_IDS[TYPE_NAMES[n % 8]]) for n in dnames] + [(n, TYPE_IDS[t]) for n, t in tvars])
        hist = []
        # attempts: each against a table that lacks some configured names (possibly none)
        nfail = rng.choice([1, 1, 2, 3])
        attempts = []
        for a in range(nfail):
            lack = {dnames[miss]} if a == 0 else set(rng.sample(dnames + [n for n, _ in tvars], rng.randrange(0, 2)))
            attempts.append(lack)
        attempts.append(set())
        ok = True
        for a, lack in enumerate(attempts):
            base = rng.choice([0, 9, 300])
            els = [(k, base + i, ct) for i, (k, _, ct) in enumerate(e for e in full if e[0] not in lack)]
            if a:
                r.do(['linklost'])
            _connect(r, 5, els)
            rep = r.do(['addconfig', '0'])
            hist.append({'table_lacks': sorted(lack), 'add_config': rep.split(' ')[0]})
            if 'tx:' in rep:
                ctx.witness('add-config-sends', 'add_config transmitted a packet', {'history': hist}, reply=rep[:200])
            import collections
            now = [name_key(v.name) for v in c.variables]
            accepted = rep.startswith('ok ')
            cnt, cfg = collections.Counter(now), collections.Counter(n for n, _ in configured)
            # observable judgement: never MORE typed entries of a name than configured; exactly the configured ones once accepted
            if any(cnt[n] > cfg[n] for n in cnt) or (accepted and cnt != cfg):
                ctx.witness('readd-after-reject-changes-variables', 'after a rejected add_config and a re-add the LogConfig no longer holds exactly its '
                            'configured variables (once each)', {'default_typed': dnames, 'typed': tvars, 'history': hist}, holds=now)
                ok = False
                break
            payload = sum(TYPE_SIZE[t] for _, t in configured)
            want_accept = not (lack & set(n for n, _ in configured)) and payload <= 26 and c.period > 0
            if rep.startswith('ok ') != want_accept:
                ctx.witness('accept-iff', 'add_config accepts/rejects against the stated condition', {'default_typed': dnames, 'typed': tvars, 'history': hist},
                            payload=payload)
                ok = False
                break
            if want_accept:
                ident = {k: i for (k, i, _) in els}
                expected = sorted(((v.stored_as << 4) | v.fetch_as, ident[name_key(v.name)]) for v in c.variables)
                rep2 = r.do(['start', '0'])
                msgs = _tx(r.ev)
                seen = [e for m in msgs for e in _fw_entries(m)]
                want = sorted((t << 4 | t, ident[n]) for n, t in configured)
                if not rep2.startswith('ok ') or sorted(seen) != want or len(seen) != len(configured) or c.default_fetch_as or any(len(m) > 30 for m in msgs):
                    ctx.witness('readd-after-reject-changes-variables', 'the create messages of a configuration accepted after an earlier rejection do not '
                                'enumerate exactly its configured variables', {'default_typed': dnames, 'typed': tvars, 'history': hist},
                                firmware_view=seen, expected=want)
                    ok = False
                break
        if not ok:
            break

    # (6) raw-memory variables (D8)
    r = Real()
    _connect(r, 5, els40)
    r.do(['newconf', '100'])
    r.confs[0].add_memory('mem.x', 'uint32_t', 'uint32_t', 0x20001000)
    a = r.do(['addconfig', '0'])
    b = r.do(['start', '0'])
    if a.startswith('ok ') and not (b.startswith('ok ') and _tx(r.ev)):
        ctx.witness('D8-add-memory-create-raises', 'a configuration with an add_memory variable is accepted but create() raises (bytearray.append(bytes))',
                    {'variables': [['mem.x', 'uint32_t', 'uint32_t', 0x20001000]]}, start=b.split(' ')[0])

    # (7) SyncLogger: every decoded sample once, in order, ending at disconnect
    for trial in range(400 if th else 100):
        r = Real()
        _connect(r, 5, els40)
        r.do(['newconf', '100'])
        r.confs[0].add_variable(name_str(2), 'uint16_t')
        r.do(['newsl', '0'])
        r.do(['slconnect', '0'])
        c = r.confs[0]
        r.do(['rx', '1', bytes([6, c.id, 0]).hex()])
        sent, got, ended = [], [], False
        nsamples = rng.randrange(0, 8)
        script = ['s'] * nsamples + ['n'] * rng.randrange(0, 10)
        rng.shuffle(script)
        for a in script:
            if a == 's':
                v = rng.getrandbits(16)
                sent.append((len(sent), v))
                r.do(['rx', '2', (bytes([c.id]) + len(sent).to_bytes(3, 'little') + v.to_bytes(2, 'little')).hex()])
            else:
                r.do(['slnext', '0'])
                if r.ev and r.ev[0].startswith('yield:'):
                    got.append(r.ev[0])
        drained = len(got) == len(sent)
        r.do(['linklost'])
        r.do(['slnext', '0'])
        ended = bool(r.ev) and r.ev[0].startswith('stop:')
        want = ['yield:0:S/%d/0/2=i%d' % (i + 1, v) for (i, v) in sent]
        if got != want[:len(got)] or not ended:
            ctx.witness('synclogger-fifo', 'SyncLogger did not yield the decoded samples once, in order, ending at disconnect',
                        {'script': ''.join(script)}, got=got, want=want, ended=ended, drained=drained)

    # (7b) the same over schedules of the incoming thread relative to connect(): the real connect() is executed statement by
    #      statement and the create ack, start ack and data packets of a block are delivered between ANY two statements after its
    #      start was requested; every sample decoded from then on must be yielded exactly once, in order
    for trial in range(60 + (600 if th else 120)):
        r = Real()
        _connect(r, 5, els40)
        nconf = 1 + trial % 3
        for h in range(nconf):
            r.do(['newconf', '100'])
            r.confs[h].add_variable(name_str(2 + 8 * h), 'uint16_t')
        r.do(['newsl', ','.join(map(str, range(nconf)))])
        # after which statement (0-based count of statements executed) the incoming thread gets to run, and how much
        slot = trial % 12 if trial < 60 else None
        decoded, requested, nstmt, seq = [], set(), 0, 0
        sched = []
        rep = r.do(['slbegin', '0', 'connect'])
        while 0 in r.calls and nstmt < 40:
            rep = r.do(['slrun', '0'])
            nstmt += 1
            for c in r.confs:
                if ('tx:06%02x' % c.id) in rep or ('tx:03%02x' % c.id) in rep:
                    requested.add(c.id)                  # config.start() was executed for this block
            deliver = (slot == nstmt) if slot is not None else rng.random() < 0.5
            if deliver:
                for c in r.confs:
                    if c.id in requested:
                        for pkt in ([6, c.id, 0], [3, c.id, 0]):
                            r.do(['rx', '1', bytes(pkt).hex()])
                        for _ in range(rng.choice([1, 2])):
                            seq += 1
                            v = rng.getrandbits(16)
                            r.do(['rx', '2', (bytes([c.id]) + seq.to_bytes(3, 'little') + v.to_bytes(2, 'little')).hex()])
                            decoded += [e for e in r.ev if e.startswith('data:')]
                            sched.append((nstmt, c.id, seq))
        for c in r.confs:                                # steady state: one more sample per block
            if c.id in requested:
                seq += 1
                r.do(['rx', '2', (bytes([c.id]) + seq.to_bytes(3, 'little') + b'\x07\x00').hex()])
                decoded += [e for e in r.ev if e.startswith('data:')]
        got = []
        for _ in range(len(decoded) + 2):
            r.do(['slnext', '0'])
            got += [e for e in r.ev if e.startswith('yield:')]
        r.close()
        want = ['yield:0:S/%s/%s/%s' % (d.split(':')[2], d.split(':')[1], d.split(':')[3]) for d in decoded]
        if got != want:
            ctx.witness('synclogger-sample-lost-interleaving', 'a sample decoded for a block after its start was requested (delivered between two '
                        'statements of SyncLogger.connect) was not yielded exactly once, in order',
                        {'configs': nconf, 'deliveries_after_statement_block_seq': sched}, decoded=decoded, yielded=got)
            break

    # (8) end to end against the shared simulated firmware (real Crazyflie object, real dispatch path)
    if S is not None:
        try:
            _end_to_end(ctx, S)
        except Exception as e:
            import traceback
            ctx.note('end-to-end run against harness.sim failed (infrastructure, not a verdict): ' + ''.join(traceback.format_exception_only(type(e), e))[:300])


def _end_to_end(ctx, S):
    import logging
    import struct
    logging.disable(logging.CRITICAL)
    from cflib.crazyflie.log import LogConfig
    from cflib.crazyflie.syncLogger import SyncLogger
    rng = ctx.rng
    cts = [TYPE_NAMES[k % 8] for k in range(16)]
    dev = S.CrazyflieDevice(log_toc=[S.LogVar('g', 'v%d' % k, cts[k], value=(k + 1) * 3) for k in range(16)], param_toc=[S.ParamVar('p', 'a')])
    s = S.SyncSession(dev)
    if not s.connect('connected'):
        ctx.note('end-to-end: simulated connection did not complete')
        return
    lc = LogConfig('e2e', 50)
    names = ['g.v%d' % k for k in (0, 9, 2, 4, 5, 6, 7, 3, 1, 8, 12)]          # 11 variables, 22 bytes: create + append
    for i, n in enumerate(names):
        lc.add_variable(n, None if i % 2 == 0 else cts[int(n[3:])])
    sl = SyncLogger(s.cf, lc)
    s.call(sl.connect)
    s.run()
    # LogConfig.variables holds the typed variables first; default-typed names are appended when add_config resolves them
    order = [n for i, n in enumerate(names) if i % 2 == 1] + [n for i, n in enumerate(names) if i % 2 == 0]
    want_vars = [(cts[int(n[3:])], int(n[3:])) for n in order]
    blk = dev.blocks.get(lc.id)
    seen = None if blk is None else [(S.LOG_TYPE_NAME[t & 15], ref) for (t, ref) in blk['vars']]
    if seen != want_vars or not blk['started'] or blk['period'] != 5 or not (lc.added and lc.started):
        ctx.witness('e2e-create', 'block on the simulated firmware differs from the configuration', {'names': names}, device=seen, want=want_vars,
                    flags=(lc.added, lc.started))
        return
    got = []
    for i in range(3):
        for k in range(16):
            dev.log_toc[k].value = (rng.choice([0, 1.5, -2.75, 1000, 65504, -65504, 6e-8]) if cts[k] == 'FP16' else
                                    rng.choice([0, 1, -1, 127, 128, 255, 65535, 2 ** 31, -2 ** 31, 1.5, -2.75, rng.randrange(-1000, 1000)]))
        p = dev.log_data(lc.id, 0xFFFFFE + i & 0xFFFFFF)
        s.inject(*p)
        s.run()
        want = {n: struct.unpack(S.LOG_TYPE_FMT[S.LOG_TYPE_ID[cts[int(n[3:])]]], S._cast(S.LOG_TYPE_FMT[S.LOG_TYPE_ID[cts[int(n[3:])]]], dev.log_toc[int(n[3:])].value))[0]
                for n in names}
        if sl._queue.empty():
            ctx.witness('e2e-data', 'no sample queued for a data packet of the block', {'packet': p[2].hex()})
            return
        ts, data, block = sl.__next__()
        if ts != (0xFFFFFE + i & 0xFFFFFF) or {k: struct.pack('<d', v) if isinstance(v, float) else v for k, v in data.items()} != \
                {k: struct.pack('<d', v) if isinstance(v, float) else v for k, v in want.items()} or block is not lc:
            ctx.witness('e2e-data', 'sample differs from the device values', {'packet': p[2].hex()}, got=str(data), want=str(want), ts=ts)
            return
    before = [(v.name, v.fetch_as) for v in lc.variables]
    s.close()
    try:
        sl.__next__()
        ctx.witness('e2e-end', 'SyncLogger iteration did not end at disconnect', {})
    except StopIteration:
        pass
    # reconnect + re-add through SyncLogger.connect
    s2 = S.SyncSession(dev)
    if s2.connect('connected'):
        sl2 = SyncLogger(s2.cf, lc)
        try:
            s2.call(sl2.connect)
            s2.run()
            after = [(v.name, v.fetch_as) for v in lc.variables]
            err = None
        except Exception as e:
            after, err = [(v.name, v.fetch_as) for v in lc.variables], repr(e)
        if after != before or err:
            ctx.witness('D6-readd-duplicates', 'add_config on an already resolved LogConfig (reconnect + re-add) changes its variable list',
                        {'via': 'SyncLogger.connect after reconnect (simulated firmware)'}, before=len(before), after=len(after), error=err)
        s2.close()
    ctx.count('e2e:completed')

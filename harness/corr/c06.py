"""C06 - Memory reads and writes are exact, complete and never wedge the subsystem.

Tie A: chunk limits, channels, struct formats + argument texts, the chunking / address comparisons, the
progress expression, the callback argument lists and the *lock discipline* of Memory.write /
Memory._handle_chan_write (acquire/release vs `with`, empty-queue guard) are re-extracted from
cflib/crazyflie/mem/__init__.py into Gen/C06.lean; the Lean model is parametrised by them.
Tie B: the real `Memory` (+ `_ReadRequest` / `_WriteRequest`, `MemoryTester`, `DeckMemoryManager` clients) over a
fake `cf` boundary object vs the Lean model (Driver/C06.lean) on generated histories: reads/writes at the chunk
boundary lengths, queued writes with/without flush_queue, arbitrary / duplicated / stale / error / malformed
replies, disconnect at every position; the state of `_write_requests_lock` is observed after every step.
"""
import ast
import contextlib
import io
import struct
import sys

from harness.lib import extract as X
from harness.lib.common import ExtractError, exc_enum, hexs

PID = 'C06'
LEAN_TARGETS = ['CfVerif.Props.C06']
PROPS_MODULES = ['CfVerif.Props.C06']
DRIVER = 'Driver/C06.lean'
SRC = 'cflib/crazyflie/mem/__init__.py'
CALLBACKS = 'cflib/utils/callbacks.py'


# =====================================================================================================
# Tie A
# =====================================================================================================
def _augs(node):
    res = [(n.lineno, n.col_offset, ast.unparse(n)) for n in ast.walk(node) if isinstance(n, ast.AugAssign)]
    return [s for _, _, s in sorted(res)]


def _calls(node, suffix):
    res = [(n.lineno, n.col_offset, ast.unparse(n)) for n in ast.walk(node)
           if isinstance(n, ast.Call) and ast.unparse(n.func).endswith(suffix)]
    return [s for _, _, s in sorted(res)]


def _assign_texts(node):
    res = [(n.lineno, n.col_offset, ast.unparse(n)) for n in ast.walk(node) if isinstance(n, ast.Assign)]
    return [s for _, _, s in sorted(res)]


def _parents(root):
    par = {}
    for n in ast.walk(root):
        for ch in ast.iter_child_nodes(n):
            par[ch] = n
    return par


LOCK = 'self._write_requests_lock'


def _lock_style(fn):
    """'with' | 'acquire-release' ; anything else is a shape the translator does not understand"""
    withs = [n for n in ast.walk(fn) if isinstance(n, ast.With) and any(ast.unparse(i.context_expr) == LOCK for i in n.items)]
    acq = _calls(fn, LOCK + '.acquire')
    rel = _calls(fn, LOCK + '.release')
    if len(withs) == 1 and not acq and not rel:
        return 'with', withs[0]
    if not withs and len(acq) == 1 and len(rel) == 1:
        return 'acquire-release', None
    raise ExtractError('%s: lock discipline not understood (with=%d acquire=%d release=%d)' % (fn.name, len(withs), len(acq), len(rel)))


def _inside(node, anc, par):
    while node in par:
        node = par[node]
        if node is anc:
            return True
    return False


def extract(ctx):
    g = X.GenFile(PID, [SRC, 'cflib/crtp/crtpstack.py', 'cflib/crazyflie/__init__.py', CALLBACKS])
    tree = X.parse(SRC)
    mod = X.int_assigns(ast.Module(body=[n for n in tree.body if isinstance(n, ast.Assign)], type_ignores=[]))
    for k in ('CHAN_INFO', 'CHAN_READ', 'CHAN_WRITE'):
        X.expect(k in mod, 'module constant %s not found' % k)
    g.nat('chanInfo', mod['CHAN_INFO'])
    g.nat('chanRead', mod['CHAN_READ'])
    g.nat('chanWrite', mod['CHAN_WRITE'])
    stack = X.parse('cflib/crtp/crtpstack.py')
    g.nat('portMem', X.int_assigns(X.find(stack, 'CRTPPort'))['MEM'])
    g.nat('maxDataSize', X.int_assigns(X.find(stack, 'CRTPPacket'))['MAX_DATA_SIZE'])
    sp = X.func('cflib/crazyflie/__init__.py', 'Crazyflie.send_packet')
    ifs = [n for n in sp.body if isinstance(n, ast.If)]
    X.expect(ifs and isinstance(ifs[0].body[0], ast.Raise), 'Crazyflie.send_packet: size check not found')
    g.string('sendSizeCheck', ast.unparse(ifs[0].test))
    g.string('dataSizeValid', ast.unparse(X.find(stack, 'CRTPPacket.is_data_size_valid').body[-1]))
    g.string('availableDataSize', ast.unparse(X.find(stack, 'CRTPPacket.available_data_size').body[-1]))

    # ---- _ReadRequest ----
    rr = X.find(tree, '_ReadRequest')
    g.nat('readMax', X.int_assigns(rr)['MAX_DATA_LENGTH'])
    f = X.find(rr, '_request_new_chunk')
    sc = X.struct_calls(f)
    X.expect(len(sc) == 2 and sc[0]['fn'] == 'pack' and sc[1]['fn'] == 'unpack', '_request_new_chunk: expected pack + unpack')
    g.string('readReqFmt', sc[0]['fmt'] or '?')
    g.strings('readReqArgs', sc[0]['args'])
    g.string('readExpFmt', sc[1]['fmt'] or '?')
    g.strings('readExpArgs', sc[1]['args'])
    g.strings('readChunkCompares', X.compares(f))
    g.strings('readChunkAssigns', [s for s in _assign_texts(f) if s.startswith('new_len')])
    g.strings('readHeader', _calls(f, '.set_header'))
    g.strings('readSend', _calls(f, '.send_packet'))
    f = X.find(rr, 'add_data')
    g.strings('addDataCompares', X.compares(f))
    g.strings('addDataAugs', _augs(f))
    g.strings('addDataTests', [ast.unparse(n.test) for n in f.body if isinstance(n, ast.If)])
    g.strings('addDataReturns', [ast.unparse(n) for n in ast.walk(f) if isinstance(n, ast.Return)])
    g.strings('readInit', _assign_texts(X.find(rr, '__init__')))

    # ---- _WriteRequest ----
    wr = X.find(tree, '_WriteRequest')
    g.nat('writeMax', X.int_assigns(wr)['MAX_DATA_LENGTH'])
    f = X.find(wr, '_write_new_chunk')
    sc = X.struct_calls(f)
    X.expect(len(sc) == 3 and [c['fn'] for c in sc] == ['pack', 'unpack', 'pack'], '_write_new_chunk: expected pack, unpack, pack')
    g.string('writeHdrFmt', sc[0]['fmt'] or '?')
    g.strings('writeHdrArgs', sc[0]['args'])
    g.string('writeExpFmt', sc[1]['fmt'] or '?')
    g.strings('writeExpArgs', sc[1]['args'])
    g.string('writeBodyFmt', sc[2]['fmt_src'])
    g.strings('writeBodyArgs', sc[2]['args'])
    g.strings('writeChunkCompares', X.compares(f))
    g.strings('writeChunkAssigns', [s for s in _assign_texts(f) if s.split(' = ')[0] in
                                    ('new_len', 'data', 'self._data', 'self._addr_add', 'pk.data')])
    g.strings('writeChunkAugs', _augs(f))
    g.strings('writeHeader', _calls(f, '.set_header'))
    g.strings('writeSend', _calls(f, '.send_packet'))
    def order_of(fn, keys):
        out = []
        for n in fn.body:
            t = ast.unparse(n)
            for k_ in keys:
                if k_ in t:
                    out.append(k_)
        return out
    g.strings('writeChunkOrder', order_of(f, ['self._data = self._data[new_len:]', 'self.cf.send_packet(', 'self._addr_add = len(data)',
                                              'self._bytes_left -= self._addr_add']))
    g.strings('readChunkOrder', order_of(X.find(rr, '_request_new_chunk'), ['struct.pack(', 'self.cf.send_packet(']))
    g.strings('addDataOrder', order_of(X.find(rr, 'add_data'), ['self.data += data', 'self._bytes_left -= data_len',
                                                                'self._current_addr += data_len', 'self._request_new_chunk()']))
    # who owns the data of a write: the constructor keeps the caller's object or a copy; `_write_new_chunk` works on slices
    ctor = X.find(wr, '__init__')
    own = [ast.unparse(n.value) for n in ast.walk(ctor) if isinstance(n, ast.Assign) and ast.unparse(n.targets[0]) == 'self._data']
    X.expect(len(own) == 1, '_WriteRequest.__init__: expected one assignment to self._data')
    if own[0] == 'data':
        copies = False
    elif own[0] in ('data[:]', 'bytes(data)', 'bytearray(data)', 'list(data)', 'tuple(data)', 'data.copy()', 'copy.copy(data)'):
        copies = True
    else:
        raise ExtractError('_WriteRequest.__init__: self._data = %s is neither the argument nor a recognised copy of it' % own[0])
    g.raw('def writeCtorCopiesData : Bool := %s' % ('true' if copies else 'false'))
    g.strings('writeDataUses', [ast.unparse(n) for n in ast.walk(wr)
                                if isinstance(n, (ast.Assign, ast.AugAssign, ast.Compare)) and 'self._data' in ast.unparse(n)
                                and not ast.unparse(n).startswith('self._data = data') and ast.unparse(n) != 'self._data = ' + own[0]])
    f = X.find(wr, 'write_done')
    g.strings('writeDoneCompares', X.compares(f))
    g.strings('writeDoneAugs', _augs(f))
    tests = [ast.unparse(n.test) for n in f.body if isinstance(n, ast.If)]
    g.strings('writeDoneTests', tests)
    X.expect(len(tests) == 3, 'write_done: expected three top-level ifs (address, progress, more data)')
    if tests[1] == 'self._progress_cb is not None':
        prog_guard = False
    elif tests[1] == 'self._progress_cb is not None and self._write_len > 0':
        prog_guard = True
    else:
        raise ExtractError('write_done: progress condition not understood: ' + tests[1])
    g.raw('def progGuardsZero : Bool := %s' % ('true' if prog_guard else 'false'))
    prog = [s for s in _assign_texts(f) if s.startswith('new_progress')]
    g.strings('progressExpr', prog)
    g.strings('progressCalls', _calls(f, 'self._progress_cb'))
    g.strings('writeDoneReturns', [ast.unparse(n) for n in ast.walk(f) if isinstance(n, ast.Return)])
    g.strings('writeInit', _assign_texts(X.find(wr, '__init__')))

    # ---- Memory ----
    mem = X.find(tree, 'Memory')
    f = X.find(mem, 'write')
    style, w = _lock_style(f)
    g.raw('def writeLockWith : Bool := %s' % ('true' if style == 'with' else 'false'))
    par = _parents(f)
    create = [n for n in ast.walk(f) if isinstance(n, ast.If) and ast.unparse(n.test) == 'memory.id not in self._write_requests']
    X.expect(len(create) == 1, 'Memory.write: queue creation test not found')
    g.raw('def writeCreateInsideLock : Bool := %s' % ('true' if w is not None and _inside(create[0], w, par) else 'false'))
    starts = [n for n in ast.walk(f) if isinstance(n, ast.Call) and ast.unparse(n.func) == 'wreq.start']
    X.expect(len(starts) == 1, 'Memory.write: expected one wreq.start() call')
    g.raw('def writeStartInsideLock : Bool := %s' % ('true' if w is not None and _inside(starts[0], w, par) else 'false'))
    g.strings('memWriteCompares', X.compares(f))
    g.strings('memWriteAssigns', [s.replace('\n', ' ') for s in _assign_texts(f)])
    g.strings('memWriteCalls', _calls(f, '.append') + _calls(f, '.start'))
    g.strings('memWriteReturns', [ast.unparse(n) for n in ast.walk(f) if isinstance(n, ast.Return)])
    sig = [a.arg for a in f.args.args] + ['%s' % ast.unparse(d) for d in f.args.defaults]
    g.strings('memWriteSig', sig)
    f = X.find(mem, 'read')
    g.strings('memReadOrder', [ast.unparse(n) for n in f.body if not (isinstance(n, ast.Expr) and isinstance(n.value, ast.Constant)) and not isinstance(n, ast.If)])
    g.strings('memReadCompares', X.compares(f))
    g.strings('memReadAssigns', _assign_texts(f))
    g.strings('memReadReturns', [ast.unparse(n) for n in ast.walk(f) if isinstance(n, ast.Return)])
    g.strings('memReadCalls', _calls(f, '.start'))

    # ---- Caller (cflib/utils/callbacks.py): the fan-out behind mem_read_cb / mem_read_failed_cb / mem_write_cb / mem_write_failed_cb
    cl = X.find(X.parse(CALLBACKS), 'Caller')

    def body_of(fn):
        return [n for n in fn.body if not (isinstance(n, ast.Expr) and isinstance(n.value, ast.Constant))]
    call = X.find(cl, 'call')
    loops = [n for n in ast.walk(call) if isinstance(n, ast.For)]
    X.expect(len(loops) == 1 and not loops[0].orelse, 'Caller.call: expected one for loop')
    it = loops[0].iter
    if isinstance(it, ast.Name):
        asg = [n for n in call.body if isinstance(n, ast.Assign) and ast.unparse(n.targets[0]) == it.id]
        X.expect(len(asg) == 1, 'Caller.call: iteration variable %s is not assigned exactly once' % it.id)
        it = asg[0].value
    src = ast.unparse(it)
    base = 'self.callbacks'
    if src == base:
        copies = False
    elif src in ('list(%s)' % base, 'tuple(%s)' % base, '%s[:]' % base, '%s.copy()' % base):
        copies = True
    else:
        raise ExtractError('Caller.call: iteration source %r is neither %s nor a recognised copy of it' % (src, base))
    g.raw('def callerCallCopies : Bool := %s' % ('true' if copies else 'false'))
    g.strings('callerCallLoopBody', [ast.unparse(n) for n in loops[0].body])
    g.string('callerCallArgs', ast.unparse(call.args))
    g.strings('callerAddBody', [ast.unparse(n) for n in body_of(X.find(cl, 'add_callback'))])
    g.strings('callerRemoveBody', [ast.unparse(n) for n in body_of(X.find(cl, 'remove_callback'))])
    g.strings('callerInitBody', [ast.unparse(n) for n in body_of(X.find(cl, '__init__'))])
    # which Callers Memory notifies through, and that _clear_state() replaces them (subscriptions do not survive a disconnect)
    g.strings('memNotifyCalls', sorted(set(ast.unparse(n.func) for n in ast.walk(mem) if isinstance(n, ast.Call)
                                           and ast.unparse(n.func).startswith('self.mem_') and ast.unparse(n.func).endswith('_cb.call'))))
    g.strings('clearStateCallers', [ast.unparse(n) for n in X.find(mem, '_clear_state').body
                                    if isinstance(n, ast.Assign) and ast.unparse(n.value) == 'Caller()'])

    f = X.find(mem, '_handle_chan_write')
    style, w = _lock_style(f)
    g.raw('def handleLockWith : Bool := %s' % ('true' if style == 'with' else 'false'))
    par = _parents(f)
    heads = [n for n in ast.walk(f) if isinstance(n, ast.Assign) and ast.unparse(n) == 'wreq = self._write_requests[id][0]']
    X.expect(len(heads) == 1, '_handle_chan_write: `wreq = self._write_requests[id][0]` not found')
    # the innermost `if` enclosing the head access, and whether everything is under the lock
    node, guards = heads[0], []
    while node in par:
        p = par[node]
        if isinstance(p, ast.If) and node in p.body:
            guards.append(ast.unparse(p.test))
        node = p
    g.strings('handleHeadGuards', guards)
    empty_guard = any('len(self._write_requests[id]) > 0' in t for t in guards)
    g.raw('def handleGuardsEmpty : Bool := %s' % ('true' if empty_guard else 'false'))
    idtest = [n for n in ast.walk(f) if isinstance(n, ast.If) and 'id in self._write_requests' in ast.unparse(n.test)]
    X.expect(len(idtest) == 1, '_handle_chan_write: `id in self._write_requests` test not found')
    g.raw('def handleLookupInsideLock : Bool := %s' % ('true' if w is not None and _inside(idtest[0], w, par) else 'false'))
    if w is not None:
        X.expect(_inside(heads[0], w, par), '_handle_chan_write: head access outside the lock')
        calls = [n for n in ast.walk(w) if isinstance(n, ast.Call) and ast.unparse(n.func).endswith('_cb.call')]
        X.expect(not calls, '_handle_chan_write: callbacks invoked while the lock is held')
    sc = X.struct_calls(f)
    X.expect(len(sc) == 1, '_handle_chan_write: expected one struct call')
    g.string('ackFmt', sc[0]['fmt'] or '?')
    g.strings('ackArgs', sc[0]['args'])
    g.strings('handleWriteCompares', X.compares(f))
    g.strings('handleWriteCalls', _calls(f, '.write_done') + _calls(f, '.pop') + _calls(f, '.start') + _calls(f, '_cb.call'))
    g.strings('handleWriteAssigns', _assign_texts(f))

    f = X.find(mem, '_handle_chan_read')
    sc = X.struct_calls(f)
    X.expect(len(sc) == 2, '_handle_chan_read: expected two struct calls')
    g.string('readReplyFmt', sc[0]['fmt'] or '?')
    g.strings('readReplyArgs', sc[0]['args'])
    g.string('readDataFmt', sc[1]['fmt_src'])
    g.strings('readDataArgs', sc[1]['args'])
    g.strings('handleReadCompares', X.compares(f))
    g.strings('handleReadCalls', _calls(f, '.add_data') + _calls(f, '.pop') + _calls(f, '_cb.call'))
    g.strings('handleReadAssigns', _assign_texts(f))

    f = X.find(mem, '_call_all_failed_callbacks')
    style, w = _lock_style(f)
    g.raw('def failAllLockWith : Bool := %s' % ('true' if style == 'with' else 'false'))
    g.strings('failAllCalls', _calls(f, '.clear') + _calls(f, '_cb.call'))
    g.strings('failAllAssigns', _assign_texts(f))
    g.strings('failAllAugs', _augs(f))
    g.strings('failAllLoops', [ast.unparse(n.target) + ' in ' + ast.unparse(n.iter) for n in ast.walk(f) if isinstance(n, ast.For)])
    f = X.find(mem, '_disconnected')
    g.strings('disconnectedBody', [ast.unparse(n) for n in f.body if not (isinstance(n, ast.Expr) and isinstance(n.value, ast.Constant))])
    f = X.find(mem, '_new_packet_cb')
    g.strings('newPacketCompares', X.compares(f))
    g.strings('newPacketAssigns', _assign_texts(f))
    g.strings('newPacketCalls', _calls(f, '._handle_chan_info') + _calls(f, '._handle_chan_write') + _calls(f, '._handle_chan_read'))
    f = X.find(mem, '__init__')
    g.strings('memInitCalls', _calls(f, '.add_port_callback') + _calls(f, '.add_callback'))
    # ---- the retransmission layer the chunk requests rely on (Crazyflie.send_packet / _check_for_answers) ----
    cft = X.parse('cflib/crazyflie/__init__.py')
    cfc = X.find(cft, 'Crazyflie')
    try:
        spl = X.find(cfc, '_send_packet_locked')
    except ExtractError:
        spl = X.find(cfc, 'send_packet')
    g.strings('retryPatternAssigns', sorted(set(s_ for s_ in _assign_texts(spl) if s_.startswith('pattern = ') or s_.startswith('self._answer_patterns['))))
    g.strings('retryArmTests', [ast.unparse(n.test) for n in ast.walk(spl) if isinstance(n, ast.If) and 'needs_resending' in ast.unparse(n.test)])
    cfa = X.find(cfc, '_check_for_answers')
    g.strings('retryMatchCompares', X.compares(cfa))
    g.strings('retryMatchAssigns', [s_ for s_ in _assign_texts(cfa) if s_.split(' = ')[0] in ('data', 'match', 'longest_match')])
    g.strings('retryMatchCalls', _calls(cfa, '.cancel') + [ast.unparse(n) for n in ast.walk(cfa) if isinstance(n, ast.Delete)])
    g.strings('retryHooks', [c_ for c_ in _calls(X.find(cfc, '__init__'), '.add_callback') if '_check_for_answers' in c_])
    g.strings('retryCancelAll', [ast.unparse(n) for n in X.find(cfc, '_cancel_answer_timers').body
                                 if not (isinstance(n, ast.Expr) and isinstance(n.value, ast.Constant))])
    # ---- the MemoryTester client ----
    tt = X.parse('cflib/crazyflie/mem/memory_tester.py')
    f = X.find(tt, 'MemoryTester.new_data')
    g.strings('testerNewDataCompares', X.compares(f))
    g.strings('testerNewDataAssigns', [s_ for s_ in _assign_texts(f) if s_.split(' = ')[0] in ('expectedValue', 'actualValue', 'self._update_finished_cb', 'self.readValidationSucess')])
    loops = [n for n in ast.walk(f) if isinstance(n, ast.For)]
    X.expect(len(loops) == 1, 'MemoryTester.new_data: expected one loop')
    par = _parents(f)
    cbcalls = [n for n in ast.walk(f) if isinstance(n, ast.Call) and ast.unparse(n.func) == 'self._update_finished_cb']
    X.expect(len(cbcalls) == 1, 'MemoryTester.new_data: expected one call of the finished callback')
    g.raw('def testerCbInsideLoop : Bool := %s' % ('true' if _inside(cbcalls[0], loops[0], par) else 'false'))
    g.string('testerLoop', ast.unparse(loops[0].target) + ' in ' + ast.unparse(loops[0].iter))
    f = X.find(tt, 'MemoryTester.read_data')
    g.strings('testerReadTests', [ast.unparse(n.test) for n in f.body if isinstance(n, ast.If)])
    g.strings('testerReadCalls', _calls(f, '.read'))
    f = X.find(tt, 'MemoryTester.write_data')
    g.strings('testerWriteAssigns', [s_ for s_ in _assign_texts(f) if s_.split(' = ')[0] in ('value', 'self._write_finished_cb')])
    g.strings('testerWriteCalls', _calls(f, '.write'))
    g.strings('testerWriteLoop', [ast.unparse(n.target) + ' in ' + ast.unparse(n.iter) for n in ast.walk(f) if isinstance(n, ast.For)])
    f = X.find(tt, 'MemoryTester.write_done')
    g.strings('testerWriteDoneTests', [ast.unparse(n.test) for n in f.body if isinstance(n, ast.If)])
    g.strings('testerWriteDoneCalls', _calls(f, 'self._write_finished_cb'))
    # how Memory wires a MemoryTester to its callbacks
    det = X.find(mem, '_handle_cmd_info_details')
    branch = [n for n in ast.walk(det) if isinstance(n, ast.If) and ast.unparse(n.test) == 'mem_type == MemoryElement.TYPE_MEMORY_TESTER']
    X.expect(len(branch) == 1, '_handle_cmd_info_details: MemoryTester branch not found')
    g.strings('testerWiring', sorted(ast.unparse(n) for st_ in branch[0].body for n in ast.walk(st_)
                                     if isinstance(n, ast.Call) and ast.unparse(n.func).endswith('.add_callback')))
    # ---- the DeckMemoryManager client (its own pending-request records) ----
    dt = X.parse('cflib/crazyflie/mem/deck_memory.py')
    mgr = X.find(dt, 'DeckMemoryManager')
    consts = {}
    for n in mgr.body:
        if isinstance(n, ast.Assign) and len(n.targets) == 1 and isinstance(n.targets[0], ast.Name):
            try:
                consts[n.targets[0].id] = eval(compile(ast.Expression(n.value), '<deck>', 'eval'), {'__builtins__': {}}, dict(consts))
            except Exception:
                pass
    for k in ('INFO_SECTION_ADDRESS', 'SIZE_OF_INFO_SECTION', 'SUPPORTED_VERSION', 'SIZE_OF_VERSION', 'SIZE_OF_DECK_MEM_INFO',
              'MAX_NR_OF_DECK_MEM_INFOS'):
        X.expect(isinstance(consts.get(k), int), 'DeckMemoryManager.%s not found' % k)
    g.nat('deckInfoAddr', consts['INFO_SECTION_ADDRESS'])
    g.nat('deckInfoSize', consts['SIZE_OF_INFO_SECTION'])
    g.nat('deckSupportedVersion', consts['SUPPORTED_VERSION'])
    dm = X.find(dt, 'DeckMemory')
    psc = X.struct_calls(X.find(dm, '_parse'))
    X.expect(psc and psc[0]['fmt'] is not None, 'DeckMemory._parse: first struct call not found')
    g.string('deckParseHeadFmt', psc[0]['fmt'])
    g.strings('deckParseHeadArgs', psc[0]['args'])
    # shortest info section whose last record still has the two flag bytes `_parse` unpacks outside its try block
    g.nat('deckMinInfoLen', consts['SIZE_OF_VERSION'] + consts['SIZE_OF_DECK_MEM_INFO'] * (consts['MAX_NR_OF_DECK_MEM_INFOS'] - 1)
          + struct.calcsize(psc[0]['fmt']))
    pis = X.find(mgr, '_parse_info_section')
    g.strings('deckParseInfoCompares', X.compares(pis))
    g.strings('deckParseInfoLoop', [ast.unparse(n.target) + ' in ' + ast.unparse(n.iter) for n in ast.walk(pis) if isinstance(n, ast.For)])
    g.strings('deckParseInfoAssigns', [s_ for s_ in _assign_texts(pis) if s_.split(' = ')[0] in ('version', 'start', 'end')])

    def stmts(fn):
        # the statements of a function in source order, one line each, docstring and logging dropped
        out = []

        def walk(body, depth):
            for n in body:
                if isinstance(n, ast.Expr) and isinstance(n.value, ast.Constant):
                    continue
                if isinstance(n, ast.Expr) and ast.unparse(n).startswith('logger.'):
                    continue
                if isinstance(n, ast.If):
                    out.append('%sif %s:' % ('  ' * depth, ast.unparse(n.test)))
                    walk(n.body, depth + 1)
                    if n.orelse:
                        out.append('%selse:' % ('  ' * depth))
                        walk(n.orelse, depth + 1)
                elif isinstance(n, ast.Try):
                    out.append('%stry:' % ('  ' * depth))
                    walk(n.body, depth + 1)
                    for hnd in n.handlers:
                        out.append('%sexcept %s:' % ('  ' * depth, ast.unparse(hnd.type) if hnd.type else ''))
                        walk(hnd.body, depth + 1)
                else:
                    out.append('  ' * depth + ast.unparse(n))
        walk(fn.body, 0)
        return out
    for name in ('query_decks', '_read', '_write', '_new_data', '_new_data_failed', '_write_done', '_write_failed',
                 '_clear_query_cb', '_clear_read_cb', '_clear_write_cb', 'disconnect'):
        g.strings('deck' + ''.join(w.capitalize() for w in name.strip('_').split('_')) + 'Body', stmts(X.find(mgr, name)))
    ndf = stmts(X.find(mgr, '_new_data_failed'))
    X.expect(ndf and ndf[0] == 'if mem.id == self.id:' and '  if addr == self.INFO_SECTION_ADDRESS:' in ndf and '  else:' in ndf,
             '_new_data_failed: shape not understood')
    qpart = ndf[ndf.index('  if addr == self.INFO_SECTION_ADDRESS:') + 1:ndf.index('  else:')]
    rpart = ndf[ndf.index('  else:') + 1:]
    g.raw('def deckQueryFailNotifies : Bool := %s' % ('true' if any('_query_failed_cb' in l for l in qpart) and any('tmp_cb(' in l for l in qpart) else 'false'))
    X.expect(any(l.strip() == 'self._clear_read_cb()' for l in rpart), '_new_data_failed: the read record is never cleared')
    g.raw('def deckReadFailClearsAlways : Bool := %s' % ('true' if '    self._clear_read_cb()' in rpart else 'false'))
    wf = stmts(X.find(mgr, '_write_failed'))
    guarded = any(l.strip().startswith('if tmp_cb') for l in wf)
    g.raw('def deckWriteFailGuard : Bool := %s' % ('true' if guarded else 'false'))

    def read_checked(fn):
        calls = [n for n in ast.walk(fn) if isinstance(n, ast.Call) and ast.unparse(n.func) == 'self.mem_handler.read']
        X.expect(len(calls) == 1, fn.name + ': expected one mem_handler.read call')
        par_ = _parents(fn)
        return not isinstance(par_[calls[0]], ast.Expr)
    rc1, rc2 = read_checked(X.find(mgr, 'query_decks')), read_checked(X.find(mgr, '_read'))
    X.expect(rc1 == rc2, 'query_decks and _read treat the result of mem_handler.read differently')
    g.raw('def deckReadAcceptedCheck : Bool := %s' % ('true' if rc1 else 'false'))
    g.strings('deckMemoryReadBody', stmts(X.find(dm, 'read')))
    g.strings('deckMemoryWriteBody', stmts(X.find(dm, 'write')))
    branch = [n for n in ast.walk(det) if isinstance(n, ast.If) and ast.unparse(n.test) == 'mem_type == MemoryElement.TYPE_DECK_MEMORY']
    X.expect(len(branch) == 1, '_handle_cmd_info_details: DeckMemoryManager branch not found')
    g.strings('deckWiring', sorted(ast.unparse(n) for st_ in branch[0].body for n in ast.walk(st_)
                                   if isinstance(n, ast.Call) and ast.unparse(n.func).endswith('.add_callback')))
    return {'C06.lean': g.render()}


# =====================================================================================================
# the real code behind a fake `cf` boundary object
# =====================================================================================================
class Hang(BaseException):
    """`_write_requests_lock.acquire()` on a lock that is already held: in the single-threaded harness the call
    would block forever.  BaseException, so that no `except Exception` of the library swallows it."""


class CheckedLock:
    """a real threading.Lock whose blocking acquire raises Hang instead of deadlocking the harness"""

    def __init__(self):
        import threading
        self._l = threading.Lock()

    def acquire(self, blocking=True, timeout=-1):
        if not self._l.acquire(False):
            raise Hang()
        return True

    def release(self):
        self._l.release()

    def locked(self):
        return self._l.locked()

    def __enter__(self):
        return self.acquire()

    def __exit__(self, *a):
        self._l.release()


class MemProxy:
    """stands for the `memory` argument: the code only reads `.id` and hands the object back to the callbacks"""

    def __init__(self, id, tag):
        self.id = id
        self.tag = tag


def _lib():
    import logging
    logging.disable(logging.CRITICAL)
    import cflib.crazyflie.mem as memmod
    from cflib.crtp.crtpstack import CRTPPacket
    from cflib.utils.callbacks import Caller
    return memmod, CRTPPacket, Caller


class RealMem:
    """the real `Memory` object; `cf` is faked at the three attributes Memory uses"""

    def __init__(self):
        memmod, CRTPPacket, Caller = _lib()
        self.CRTPPacket = CRTPPacket
        outs = self.outs = self._make_outs()
        real = self

        class FakeCF:
            def __init__(self):
                self.disconnected = Caller()
                self.port_cb = None

            def add_port_callback(self, port, cb):
                assert self.port_cb is None
                self.port, self.port_cb = port, cb

            def send_packet(self, pk, expected_reply=(), resend=False, timeout=0.2):
                # first statement of Crazyflie.send_packet (pinned by Gen.sendSizeCheck)
                if not pk.is_data_size_valid():
                    raise Exception('Data part of packet is too large')
                data = bytes(pk.data)
                s = 'S%d:%s' % (pk.channel, hexs(data))
                if pk.port != 4:
                    s += '!port=%d' % pk.port
                if tuple(expected_reply) != tuple(data[:5]) or resend or timeout != 1:
                    s += '!exp=%s,%d,%s' % ('.'.join(str(x) for x in expected_reply), bool(resend), timeout)
                outs.append(s)
                real.sent.append((pk.channel, data))
        self.sent = []
        self.cf = FakeCF()
        self.mem = memmod.Memory(self.cf)
        self.lock_kind = type(self.mem._write_requests_lock)      # the code's kind of lock (Lock / RLock)
        self.mem._write_requests_lock = CheckedLock()
        self._hook()

    def _make_outs(self):
        return []

    def _hook(self):
        m, outs = self.mem, self.outs
        self._hooked_on = m.mem_read_cb
        m.mem_read_cb.add_callback(lambda mem, addr, data: outs.append('RO:%d:%d:%d:%s' % (mem.tag, mem.id, addr, hexs(data))))
        m.mem_read_failed_cb.add_callback(lambda mem, addr, data: outs.append('RF:%d:%d:%d:%s' % (mem.tag, mem.id, addr, hexs(data))))
        m.mem_write_cb.add_callback(lambda mem, addr: outs.append('WO:%d:%d:%d' % (mem.tag, mem.id, addr)))
        m.mem_write_failed_cb.add_callback(lambda mem, addr: outs.append('WF:%d:%d:%d' % (mem.tag, mem.id, addr)))

    def locked(self):
        return self.mem._write_requests_lock.locked()

    def _do(self, thunk):
        del self.outs[:]
        try:
            r = thunk()
            res = 'T' if r is True else 'F' if r is False else 'N' if r is None else 'R:%r' % (r,)
        except Hang:
            res = 'H'
        except Exception as e:
            res = 'E:' + exc_enum(e)
        return '%s %s L%d' % (res, ';'.join(self.outs) or '-', 1 if self.locked() else 0)

    def read(self, tag, id, addr, length):
        return self._do(lambda: self.mem.read(MemProxy(id, tag), addr, length))

    def write(self, tag, id, addr, data, flush, prog):
        def cb(msg, pct):
            self.outs.append('P:%d:%d' % (tag, pct) + ('' if msg == 'Writing to memory' else '!msg=' + msg))
        # the object handed to write() is the application's own mutable buffer: it may refill it afterwards (`refill`)
        buf = bytearray(data)
        if not hasattr(self, 'bufs'):
            self.bufs = {}
        self.bufs[tag] = buf
        return self._do(lambda: self.mem.write(MemProxy(id, tag), addr, buf, flush_queue=bool(flush),
                                               progress_cb=cb if prog else None))

    def refill(self, tag, data):
        """the application overwrites, in place, the buffer it passed to write(tag ..) (same length)"""
        buf = getattr(self, 'bufs', {}).get(tag)
        if buf is not None and len(buf) == len(data):
            buf[:] = data
        return 'ok'

    def pkt(self, chan, data):
        pk = self.CRTPPacket()
        pk.set_header(4, chan)
        pk.data = bytes(data)
        return self._do(lambda: self.cf.port_cb(pk))

    def disc(self):
        def go():
            try:
                self.cf.disconnected.call('sim://0')
            finally:
                # _clear_state() replaces the Caller objects: an application re-registers (it does not run when a
                # subscriber raised inside _call_all_failed_callbacks: then the old subscriptions are still there)
                if self.mem.mem_read_cb is not self._hooked_on:
                    self._hook()
        return self._do(go)

    def line(self, ws):
        if ws[0] == 'read':
            return self.read(int(ws[1]), int(ws[2]), int(ws[3]), int(ws[4]))
        if ws[0] == 'write':
            return self.write(int(ws[1]), int(ws[2]), int(ws[3]), b'' if ws[4] == '-' else bytes.fromhex(ws[4]), ws[5] == '1', ws[6] == '1')
        if ws[0] == 'pkt':
            return self.pkt(int(ws[1]), b'' if ws[2] == '-' else bytes.fromhex(ws[2]))
        if ws[0] == 'disc':
            return self.disc()
        if ws[0] == 'oneshot':
            return self.oneshot()
        if ws[0] == 'refill':
            return self.refill(int(ws[1]), b'' if ws[2] == '-' else bytes.fromhex(ws[2]))
        raise ValueError(ws)

    CALLERS = ['mem_read_cb', 'mem_read_failed_cb', 'mem_write_cb', 'mem_write_failed_cb']

    def oneshot(self):
        """an application registers a one-shot listener (it un-registers itself when called) on each notification Caller
        BEFORE the library's own listeners (as an application does that subscribes before the memories are enumerated):
        through the API, everything after this check's observer is taken off and put back behind the new listener"""
        for name in self.CALLERS:
            caller = getattr(self.mem, name)
            rest = list(caller.callbacks)[1:]
            for cb in rest:
                caller.remove_callback(cb)

            def make(caller=caller):
                def once(*a):
                    caller.remove_callback(once)
                return once
            caller.add_callback(make())
            for cb in rest:
                caller.add_callback(cb)
        return 'ok'


class RealTester(RealMem):
    """the real `MemoryTester` client on top of the real `Memory`; wired as `_handle_cmd_info_details` does"""
    TAG = 900

    def __init__(self, tid):
        RealMem.__init__(self)
        memmod, _, _ = _lib()
        self.touts = []
        self.tester = memmod.MemoryTester(id=tid, type=memmod.MemoryElement.TYPE_MEMORY_TESTER, size=1 << 20, mem_handler=self.mem)
        self.tester.tag = self.TAG
        self._wire()

    def _wire(self):
        self.mem.mem_read_cb.add_callback(self.tester.new_data)
        self.mem.mem_write_cb.add_callback(self.tester.write_done)

    def _hook(self):
        RealMem._hook(self)
        if hasattr(self, 'tester'):
            self._wire()

    def _tdo(self, thunk):
        del self.touts[:]
        r = self._do(thunk)
        return '%s %s V%d' % (r, ';'.join(self.touts) or '-', 1 if self.tester.readValidationSucess else 0)

    def line(self, ws):
        t = self.tester
        if ws[0] == 'tread':
            cb = int(ws[4])
            return self._tdo(lambda: t.read_data(int(ws[2]), int(ws[3]), lambda who: self.touts.append('TU:%d' % cb)))
        if ws[0] == 'twrite':
            cb = int(ws[4])
            return self._tdo(lambda: t.write_data(int(ws[2]), int(ws[3]), lambda who, addr: self.touts.append('TW:%d:%d' % (cb, addr))))
        if ws[0] == 'tpkt':
            pk = self.CRTPPacket()
            pk.set_header(4, int(ws[1]))
            pk.data = b'' if ws[2] == '-' else bytes.fromhex(ws[2])
            return self._tdo(lambda: self.cf.port_cb(pk))
        if ws[0] == 'tdisc':
            t.disconnect()
            return 'ok'
        return RealMem.line(self, ws)


class RealDeck(RealMem):
    """the real `DeckMemoryManager` (+ a `DeckMemory` front end) on top of the real `Memory`, wired as
    `_handle_cmd_info_details` does (after the observers of this check, so that they see a notification first)"""
    TAG = 800

    def __init__(self, did):
        RealMem.__init__(self)
        memmod, _, _ = _lib()
        from cflib.crazyflie.mem.deck_memory import DeckMemory
        self.douts = []
        self.mgr = memmod.DeckMemoryManager(id=did, type=memmod.MemoryElement.TYPE_DECK_MEMORY, size=1 << 20, mem_handler=self.mem)
        self.mgr.tag = self.TAG
        self.dm = DeckMemory(self.mgr, 0x1000)
        self.dm._bit_field1 = DeckMemory.MASK_IS_VALID | DeckMemory.MASK_IS_STARTED | DeckMemory.MASK_SUPPORTS_READ | DeckMemory.MASK_SUPPORTS_WRITE
        self._wire()

    def _wire(self):
        m, g = self.mem, self.mgr
        m.mem_read_cb.add_callback(g._new_data)
        m.mem_read_failed_cb.add_callback(g._new_data_failed)
        m.mem_write_cb.add_callback(g._write_done)
        m.mem_write_failed_cb.add_callback(g._write_failed)

    def _hook(self):
        RealMem._hook(self)
        if hasattr(self, 'mgr'):
            self._wire()

    def _ddo(self, thunk):
        del self.douts[:]
        r = self._do(thunk)
        return '%s %s' % (r, ';'.join(self.douts) or '-')

    def line(self, ws):
        D = self.douts
        if ws[0] == 'dquery':
            rid, hf = int(ws[2]), ws[3] == '1'
            return self._ddo(lambda: self.mgr.query_decks(lambda decks: D.append('DQ:%d' % rid),
                                                          (lambda msg: D.append('DQF:%d' % rid)) if hf else None))
        if ws[0] == 'dread':
            base, address, length, rid, hf = int(ws[2]), int(ws[3]), int(ws[4]), int(ws[5]), ws[6] == '1'
            self.dm._base_address = base
            return self._ddo(lambda: self.dm.read(address, length, lambda a, d: D.append('DR:%d:%d:%s' % (rid, a, hexs(d))),
                                                  read_failed_cb=(lambda a: D.append('DRF:%d:%d' % (rid, a))) if hf else None))
        if ws[0] == 'dwrite':
            base, address, rid, hf, prog = int(ws[2]), int(ws[3]), int(ws[5]), ws[6] == '1', ws[7] == '1'
            data = b'' if ws[4] == '-' else bytes.fromhex(ws[4])
            self.dm._base_address = base

            def pcb(msg, pct):
                self.outs.append('P:%d:%d' % (self.TAG, pct))
            return self._ddo(lambda: self.dm.write(address, bytearray(data), lambda a: D.append('DW:%d:%d' % (rid, a)),
                                                   write_failed_cb=(lambda a: D.append('DWF:%d:%d' % (rid, a))) if hf else None,
                                                   progress_cb=pcb if prog else None))
        if ws[0] == 'dpkt':
            pk = self.CRTPPacket()
            pk.set_header(4, int(ws[1]))
            pk.data = b'' if ws[2] == '-' else bytes.fromhex(ws[2])
            return self._ddo(lambda: self.cf.port_cb(pk))
        if ws[0] == 'ddisc':
            del self.douts[:]
            r = self.disc()
            return '%s %s' % (r, ';'.join(self.douts) or '-')
        if ws[0] == 'ddisconnect':
            self.mgr.disconnect()
            return 'ok'
        return RealMem.line(self, ws)


class RealSubs(RealMem):
    """the real Memory with scripted subscribers on its four notification Callers.  Subscriber c has one callable per
    Caller (so add_callback's duplicate check and remove_callback work as for any application callback); when called it
    writes down `c=<notification>` and performs the entry of its script for this (its n-th) invocation: subscribe /
    unsubscribe (guarded: only when registered) any subscriber - itself included - on any of the Callers."""
    TAGS = ['RO', 'RF', 'WO', 'WF']

    def __init__(self):
        RealMem.__init__(self)
        self.told, self.scripts, self.count, self.cbs = [], {}, {}, {}

    def cb(self, c, k):
        if (c, k) not in self.cbs:
            def f(mem, addr, *data):
                note = '%s:%d:%d:%d' % (self.TAGS[k], mem.tag, mem.id, addr) + (':' + hexs(data[0]) if k < 2 else '')
                self.told.append('%d=%s' % (c, note))
                n = self.count.get(c, 0)
                self.count[c] = n + 1
                sc = self.scripts.get(c, [])
                for act in (sc[n] if n < len(sc) else []):
                    self.act(act)
            self.cbs[(c, k)] = f
        return self.cbs[(c, k)]

    def act(self, act):
        op, k, c = act
        caller = getattr(self.mem, self.CALLERS[k])
        g = self.cb(c, k)
        if op == 'a':
            caller.add_callback(g)
        elif g in caller.callbacks:
            caller.remove_callback(g)

    def line(self, ws):
        if ws[0] == 'fbeh':
            self.scripts[int(ws[1])] = [[] if inv == '-' else [(a[0], int(a[1]), int(a.split(':')[1])) for a in inv.split(',')]
                                        for inv in ws[2].split('/')]
            return 'ok'
        del self.told[:]
        if ws[0] in ('fsub', 'funsub'):
            r = self._do(lambda: self.act(('a' if ws[0] == 'fsub' else 'r', int(ws[1]), int(ws[2]))))
        else:
            r = RealMem.line(self, [ws[0][1:]] + ws[1:])
        return '%s %s' % (r, ';'.join(self.told) or '-')


# =====================================================================================================
# the calling thread statement by statement, the incoming thread in between (round 4)
# =====================================================================================================
class _RoutedOuts(list):
    """what a thread of a StepMem run does is recorded in that thread's own buffer"""

    def append(self, x):
        import threading
        buf = getattr(threading.current_thread(), 'outs_buf', None)
        (buf if buf is not None else super()).append(x)


class ObservedLock:
    """the code's own kind of lock (threading.Lock / RLock), really blocking, but observable: a thread that finds it
    taken reports that it is waiting, and goes on waiting for the lock when the driver lets it run again"""

    def __init__(self, inner, owner):
        self._l, self.owner, self.depth, self.holder = inner, owner, 0, None

    def acquire(self, blocking=True, timeout=-1):
        import threading
        if not self._l.acquire(False):
            if not blocking:
                return False
            self.owner._waiting(threading.current_thread())
            self._l.acquire()
        self.depth += 1
        self.holder = threading.current_thread()
        self.owner._lock_event(self.holder, 'acquired', self.depth)
        return True

    def release(self):
        h = self.holder
        self.depth -= 1
        if self.depth == 0:
            self.holder = None
        self._l.release()
        self.owner._lock_event(h, 'released', self.depth)

    def locked(self):
        return self.depth > 0

    def __enter__(self):
        return self.acquire()

    def __exit__(self, *a):
        self.release()


class StepMem(RealMem):
    """the real Memory object + the simulated device, with the application call run LINE BY LINE (sys.settrace in its
    own thread, lines of Memory.write / Memory.read / start / _write_new_chunk / _request_new_chunk) and, additionally,
    stopped inside cf.send_packet before it returns; at every stop the incoming thread (another real thread) may be
    given replies in flight - it really blocks on _write_requests_lock when the caller holds it.  Handshakes by events
    only (no sleeps); a reply to a packet sent by the incoming thread's own handler waits until that handler is done
    (cflib has one incoming thread).  Every stop / delivery is also written down as a line for the Lean driver:
      cwrite / cread ...   the call begins                      csteps <k>   the caller's next k model statements
      cpkt <chan> <hex>    the incoming thread is given a packet ('blocked': it waits for the lock)
      cend                 the call has returned"""

    STUCK = 20.0        # fail-safe for a harness bug only; never reached in a correct run (no timing dependence)

    def __init__(self, dev):
        import threading
        RealMem.__init__(self)
        self.threading = threading
        self.dev = dev
        self.lock = ObservedLock(self.lock_kind(), self)
        self.mem._write_requests_lock = self.lock
        self.inflight = []
        self.lines, self.replies = ['creset'], ['ok']
        self.app = None            # the application call in progress
        self.blocked = None        # the incoming thread, waiting for the lock
        self.problems = []
        self.tag = 0
        memmod = sys.modules['cflib.crazyflie.mem']
        fns = [memmod.Memory.write, memmod.Memory.read, memmod._WriteRequest.start, memmod._WriteRequest._write_new_chunk,
               memmod._ReadRequest.start, memmod._ReadRequest._request_new_chunk]
        self.traced = {f.__code__: f.__qualname__ for f in fns}
        inner = self.cf.send_packet

        def send_packet(pk, *a, **kw):
            inner(pk, *a, **kw)
            self._after_send()
        self.cf.send_packet = send_packet

    def _make_outs(self):
        return _RoutedOuts()

    # ---- observations -------------------------------------------------------------------------------
    def _after_send(self):
        t = self.threading.current_thread()
        for chan, data in self.sent:
            for (_, c, d) in self.dev.handle(4, chan, data):
                self.inflight.append((c, bytes(d)))
        del self.sent[:]
        if t is self.app:
            t.mile('sent')
            t.stop('in send_packet')

    def _waiting(self, t):
        if getattr(t, 'is_delivery', False):
            t.was_blocked = True
            t.rest.set()
            t.go.wait(self.STUCK)
            t.go.clear()
            return
        raise Hang()       # the application thread itself would wait for ever: nobody else holds the lock legitimately

    def _lock_event(self, t, what, depth):
        if t is self.app and t is not None:
            if what == 'acquired' and depth == 1:
                t.mile('locked')
            if what == 'released' and depth == 0:
                t.mile('released')

    # ---- the application call -----------------------------------------------------------------------
    def begin(self, kind, mid, addr, arg, flush=False, prog=False):
        """start mem.write / mem.read in its own traced thread; it stops before its first line"""
        import linecache
        self.tag += 1
        tag, sm, threading = self.tag, self, self.threading
        proxy = MemProxy(mid, tag)

        class App(threading.Thread):
            def __init__(self):
                threading.Thread.__init__(self, daemon=True)
                self.outs_buf, self.rest, self.resume = [], threading.Event(), threading.Event()
                self.kind, self.id = kind, mid
                self.miles, self.reported, self.where, self.finished, self.res = [], 0, None, False, None
                self.last = {}

            def mile(self, m):
                self.miles.append(m)

            def stop(self, where):
                self.where = where
                self.rest.set()
                self.resume.wait(sm.STUCK)
                self.resume.clear()

            def local(self, frame, event, arg):
                key = id(frame)
                done = self.last.get(key)
                if done is not None and event in ('line', 'return'):
                    if done == 'self._data = self._data[new_len:]':
                        self.mile('cut')
                    if done == 'self._bytes_left -= self._addr_add':
                        self.mile('booked')
                    if done == 'self._read_requests[memory.id] = rreq':
                        self.mile('registered')
                if event == 'line':
                    text = linecache.getline(frame.f_code.co_filename, frame.f_lineno).strip()
                    if sm.traced[frame.f_code] == 'Memory.read' and 'checked' not in self.miles and \
                            not text.startswith('if memory.id in self._read_requests'):
                        self.mile('checked')        # `if memory.id in self._read_requests` has been evaluated
                    self.last[key] = text
                    self.stop('%s: %s' % (sm.traced[frame.f_code], text))
                elif event == 'return':
                    self.last.pop(key, None)
                return self.local

            def tracer(self, frame, event, arg):
                return self.local if frame.f_code in sm.traced else None

            def run(self):
                def cb(msg, pct):
                    sm.outs.append('P:%d:%d' % (tag, pct) + ('' if msg == 'Writing to memory' else '!msg=' + msg))
                sys.settrace(self.tracer)
                try:
                    if kind == 'w':
                        r = sm.mem.write(proxy, addr, bytearray(arg), flush_queue=bool(flush), progress_cb=cb if prog else None)
                    else:
                        r = sm.mem.read(proxy, addr, arg)
                    self.res = 'T' if r is True else 'F' if r is False else 'R:%r' % (r,)
                except Hang:
                    self.res = 'H'
                except Exception as e:
                    self.res = 'E:' + exc_enum(e)
                finally:
                    sys.settrace(None)
                    self.finished = True
                    self.rest.set()

        self.app = App()
        if kind == 'w':
            self._line('cwrite %d %d %d %s %d %d' % (tag, mid, addr, hexs(arg), flush, prog), 'ok')
        else:
            self._line('cread %d %d %d %d' % (tag, mid, addr, arg), 'ok')
        self.app.start()
        self._wait(self.app)
        return tag

    def _wait(self, t):
        if not t.rest.wait(self.STUCK):
            self.problems.append('harness: thread did not come to rest')
        t.rest.clear()

    def _line(self, line, reply):
        self.lines.append(line)
        self.replies.append(reply)

    def _steps_done(self):
        """how many statements of the model the caller has executed (from what was observed of the real call)"""
        a = self.app
        if a.kind == 'w':
            order = ['locked', 'cut', 'sent', 'booked', 'released']
        else:
            order = ['checked', 'registered', 'sent']
        n = 0
        for m in a.miles:
            if m in order:
                n += 1
        if a.kind == 'r' and a.finished and a.res == 'F' and n == 0:
            n = 1          # `return False`: the check was the only statement
        return n

    def report(self):
        """write down the caller's progress since the last report"""
        a = self.app
        n = self._steps_done()
        if n > a.reported:
            outs = ';'.join(a.outs_buf) or '-'
            del a.outs_buf[:]
            self._line('csteps %d' % (n - a.reported), '%s L%d' % (outs, 1 if self.lock.locked() else 0))
            a.reported = n

    def advance(self):
        """let the caller run to its next stop; False when the call has returned"""
        a = self.app
        if a.finished:
            return False
        a.resume.set()
        self._wait(a)
        if a.finished:
            a.join(self.STUCK)
            self.report()
            self._line('cend', a.res)
            if self.blocked is not None:
                self.resume_blocked()
            return False
        return True

    def in_read_window(self, c, d):
        """between registering a read request and sending its packet no reply for that memory is in flight (A1)"""
        a = self.app
        return (a is not None and not a.finished and a.kind == 'r' and 'registered' in a.miles and 'sent' not in a.miles
                and c == 1 and d[:1] == bytes([a.id & 0xFF]))

    # ---- the incoming thread ------------------------------------------------------------------------
    def deliver(self, i=0, keep=False):
        """hand reply i in flight to the incoming thread (a fresh thread per packet, one at a time); returns the reply
        string, or 'blocked'"""
        if self.blocked is not None:
            return None
        c, d = self.inflight[i] if keep else self.inflight.pop(i)
        if self.app is not None and not self.app.finished:
            self.report()
        sm, threading = self, self.threading
        pk = self.CRTPPacket()
        pk.set_header(4, c)
        pk.data = bytes(d)

        class Delivery(threading.Thread):
            is_delivery = True

            def __init__(self):
                threading.Thread.__init__(self, daemon=True)
                self.outs_buf, self.rest, self.go = [], threading.Event(), threading.Event()
                self.was_blocked, self.finished, self.res, self.pkt = False, False, None, (c, d)

            def run(self):
                try:
                    r = sm.cf.port_cb(pk)
                    self.res = 'N' if r is None else 'R:%r' % (r,)
                except Hang:
                    self.res = 'H'
                except Exception as e:
                    self.res = 'E:' + exc_enum(e)
                self.finished = True
                self.rest.set()

        t = Delivery()
        t.start()
        self._wait(t)
        return self._delivered(t)

    def _delivered(self, t):
        c, d = t.pkt
        if not t.finished:
            self.blocked = t
            self._line('cpkt %d %s' % (c, hexs(d)), 'blocked')
            return 'blocked'
        t.join(self.STUCK)
        self.blocked = None
        r = '%s %s L%d' % (t.res, ';'.join(t.outs_buf) or '-', 1 if self.lock.locked() else 0)
        self._line('cpkt %d %s' % (c, hexs(d)), r)
        return r

    def resume_blocked(self):
        """the lock is free again: the incoming thread goes on"""
        t = self.blocked
        if t is None or self.lock.locked():
            return None
        if self.app is not None and not self.app.finished:
            self.report()
        t.go.set()
        self._wait(t)
        return self._delivered(t)

    def locked(self):
        return self.lock.locked()


STEP_KEY = 'interleaving'


class StepScenario:
    """One application call run line by line on the real Memory (StepMem) with the incoming thread given the replies in
    flight at the chosen stops; before it, complete calls that leave replies in flight.  Afterwards everything is
    delivered and the property is evaluated (spec twin): device image, exactly one notification, read data, lock."""

    def __init__(self, rng, desc):
        self.rng, self.desc = rng, desc
        self.dev = make_device(rng)
        self.base = [bytes(m.data) for m in self.dev.mems]
        self.sm = StepMem(self.dev)
        self.reqs = []
        self.bad = []

    def pump(self, limit=40):
        sm = self.sm
        if sm.blocked is not None:
            if sm.lock.locked():
                return
            sm.resume_blocked()
        n = 0
        while sm.blocked is None and n < limit:
            i = next((j for j, (c, d) in enumerate(sm.inflight) if not sm.in_read_window(c, d)), None)
            if i is None:
                break
            sm.deliver(i)
            n += 1

    def call(self, kind, mid, addr, arg, stops, flush=False, prog=False):
        """stops: 'all' | 'send' (inside send_packet only: the synchronous link) | a set of stop indices"""
        sm = self.sm
        tag = sm.begin(kind, mid, addr, arg, flush, prog)
        k = 0
        while True:
            here = stops == 'all' or (stops == 'send' and sm.app.where == 'in send_packet') or (not isinstance(stops, str) and k in stops)
            if here:
                self.pump()
            elif sm.blocked is not None and not sm.lock.locked():
                sm.resume_blocked()
            k += 1
            if not sm.advance():
                break
        self.reqs.append({'tag': tag, 'kind': kind, 'id': mid, 'addr': addr, 'arg': arg, 'res': sm.app.res, 'stops': k,
                          'snapshot': bytes(self.dev.mems[mid].data)})
        return tag

    def finish(self):
        g = 0
        while (self.sm.inflight or self.sm.blocked is not None) and g < 60:
            self.pump(400)
            g += 1

    def evaluate(self):
        """-> list of (what, details) the property forbids"""
        sm, out = self.sm, []
        outs = [o for r in sm.replies for o in (r.split(' ')[1] if r[:1] in 'NEH' and ' ' in r else r.split(' ')[0]).split(';')]
        for p_ in sm.problems:
            out.append((p_, {}))
        if sm.lock.locked():
            out.append(('_write_requests_lock is held although no call into Memory is executing', {}))
        for r in sm.replies:
            if r[:2] in ('E:', 'H ') or r == 'H':
                out.append(('a call into Memory raised / would block for ever', {'reply': r}))
        img = [bytearray(b) for b in self.base]
        for rq in self.reqs:
            notes = [o for o in outs if o.split(':')[0] in ('RO', 'RF', 'WO', 'WF') and o.split(':')[1] == str(rq['tag'])]
            if rq['res'] != 'T':
                if notes:
                    out.append(('a rejected request was notified', {'tag': rq['tag'], 'notes': notes}))
                continue
            want = 'WO' if rq['kind'] == 'w' else 'RO'
            if [n[:2] for n in notes] != [want]:
                out.append(('an accepted request (no error status, no link loss) was not notified exactly once with success',
                            {'tag': rq['tag'], 'notes': notes}))
            if rq['kind'] == 'w':
                img[rq['id']][rq['addr']:rq['addr'] + len(rq['arg'])] = rq['arg']
            elif notes and notes[0][:2] == 'RO':
                got = notes[0].split(':')[4]
                got = b'' if got == '-' else bytes.fromhex(got)
                if got != rq['snapshot'][rq['addr']:rq['addr'] + rq['arg']]:
                    out.append(('a successful read returned bytes that differ from the device memory', {'tag': rq['tag']}))
        for i, m in enumerate(self.dev.mems):
            if bytes(m.data) != bytes(img[i]):
                diff = [j for j in range(len(img[i])) if m.data[j] != img[i][j]]
                out.append(('device memory differs from the data of the writes that were reported as successful',
                            {'memory': i, 'first_difference_at': diff[0], 'bytes_differing': len(diff),
                             'device': hexs(bytes(m.data[diff[0]:diff[0] + 8])), 'expected': hexs(bytes(img[i][diff[0]:diff[0] + 8]))}))
        return out


def step_scenarios(rng, thorough):
    """systematic: every boundary length, the replies offered at every single stop of the call (the stop inside
    send_packet - the synchronous link - included), at all stops, with other requests' replies in flight"""
    res = []

    def mk(desc, build):
        sc = StepScenario(rng, desc)
        build(sc)
        sc.finish()
        res.append(sc)
        return sc

    def data(n):
        return bytes(rng.randrange(256) for _ in range(n))

    wl = WRITE_LENS[:9] if thorough else [1, 25, 26, 51]
    rl = READ_LENS[:9] if thorough else [0, 20, 21, 41]
    # how many stops does a call have?  (measured on the code as it is, so new lines are covered automatically)
    probe = mk({'kind': 'probe'}, lambda sc: (sc.call('w', 2, 7, data(26), ()), sc.call('r', 1, 5, 21, ())))
    nw, nr = probe.reqs[0]['stops'], probe.reqs[1]['stops']
    for n in wl:
        d = data(n)
        mk({'kind': 'write', 'len': n, 'replies_at': 'inside send_packet (synchronous link)'}, lambda sc: sc.call('w', 2, 7, d, 'send'))
        mk({'kind': 'write', 'len': n, 'replies_at': 'every stop'}, lambda sc: sc.call('w', 2, 7, d, 'all', prog=n == 26))
    for k in range(nw):
        for prelude in (None, 'read', 'write', 'queued'):
            if not thorough and prelude is not None and k % 3 != 1:
                continue
            d = data(51)

            def build(sc):
                if prelude == 'read':
                    sc.call('r', 1, 5, 45, ())
                if prelude == 'write':
                    sc.call('w', 0, 3, data(30), ())
                if prelude == 'queued':
                    sc.call('w', 2, 90, data(30), ())
                sc.call('w', 2, 7, d, {k})
            mk({'kind': 'write', 'len': 51, 'replies_at_stop': k, 'in_flight_before': prelude}, build)
    for n in rl:
        mk({'kind': 'read', 'len': n, 'replies_at': 'inside send_packet (synchronous link)'}, lambda sc: sc.call('r', 1, 5, n, 'send'))
        mk({'kind': 'read', 'len': n, 'replies_at': 'every stop'}, lambda sc: sc.call('r', 1, 5, n, 'all'))
    for k in range(nr):
        for prelude in (None, 'read', 'write', 'busy'):
            if not thorough and prelude is not None and k % 3 != 1:
                continue

            def build(sc):
                if prelude == 'read':
                    sc.call('r', 0, 9, 45, ())
                if prelude == 'write':
                    sc.call('w', 2, 3, data(30), ())
                if prelude == 'busy':
                    sc.call('r', 1, 60, 30, ())
                sc.call('r', 1, 5, 41, {k})
            mk({'kind': 'read', 'len': 41, 'replies_at_stop': k, 'in_flight_before': prelude}, build)
    return res


def step_random(rng):
    """a few calls in a row, each with a random set of stops at which the replies in flight are offered"""
    sc = StepScenario(rng, {'kind': 'random'})
    used_w = set()
    for _ in range(rng.choice([1, 2, 3, 4])):
        stops = rng.choice(['all', 'send', set(rng.sample(range(32), rng.randrange(0, 6)))])
        if rng.random() < 0.6:
            mid = rng.choice([0, 2])
            n = rng.choice(WRITE_LENS[1:9])
            # non-overlapping ranges per memory, so that the expected image does not depend on the completion order
            slot = next((x for x in range(3) if (mid, x) not in used_w), None)
            if slot is None or 50 * slot + n > MEM_SIZE:
                continue
            used_w.add((mid, slot))
            sc.call('w', mid, 50 * slot + rng.randrange(0, 50 - min(n, 49) + (0 if n < 50 else 0)) if n < 50 else 50 * slot,
                    bytes(rng.randrange(256) for _ in range(n)) if 50 * slot + n <= MEM_SIZE else b'\x01', stops,
                    flush=False, prog=rng.random() < 0.2)
        else:
            sc.call('r', 1, rng.randrange(0, 60), rng.choice(READ_LENS[:9]), stops)
    sc.desc['calls'] = [(r['kind'], r['id'], r['addr'], len(r['arg']) if r['kind'] == 'w' else r['arg']) for r in sc.reqs]
    sc.finish()
    return sc


def probe_variant():
    """which lock discipline does the real code have? (behavioural probe; cross-checked against Gen by Tie A)
    -> (d9_fixed, d17_fixed)"""
    r = RealMem()
    r.write(1, 0, 0, b'\x01', False, False)
    ack = bytes([0]) + struct.pack('<IB', 0, 0)
    r.pkt(2, ack)
    d9 = not r.pkt(2, ack).startswith('E:index_error')
    r = RealMem()
    r.write(1, 0, 0, b'', False, True)
    d17 = not r.pkt(2, ack).startswith('E:zero_div')
    return d9, d17


# =====================================================================================================
# Tie B: generated histories
# =====================================================================================================
REQUIRED_THEOREMS = ['CfVerif.C06.' + t for t in (
    'gen_variant_is_repaired', 'quiescent_lock_free', 'never_blocks', 'writes_once_in_order', 'writes_at_most_once',
    'write_notified_queued_or_superseded', 'reads_exactly_once', 'disconnect_leaves_no_record', 'state_stays_wellformed',
    'read_exact', 'read_requests_are_chunks', 'stale_reply_counterexample',
    'write_exact', 'write_exact_single', 'unwritten_memory_unchanged', 'packets_within_limits',
    'read_reply_progress', 'write_ack_progress', 'd17_never_notified', 'd17_repaired', 'oob_write_raises',
    'gen_constants', 'gen_read_request', 'gen_write_request', 'gen_memory_api', 'gen_handlers', 'gen_disconnect', 'gen_tester',
    'tester_write_pattern', 'next_read_served', 'next_write_served',
    'gen_deck_variant', 'gen_deck_constants', 'gen_deck_records', 'deck_exactly_one', 'deck_records_follow_memory',
    'deck_next_request_accepted', 'deck_next_write_accepted', 'deck_exactly_one_any_variant',
    'deck_records_follow_memory_any_variant', 'deck_next_request_accepted_any_variant', 'deck_next_write_accepted_any_variant', 'deck_query_failure_unreported_counterexample',
    'deck_write_failure_without_callback_counterexample', 'deck_overlapping_requests_counterexample',
    'deck_read_record_must_always_be_cleared', 'gen_expected_reply', 'retransmissions_only_of_outstanding_chunks',
    'no_retransmission_pending_after_completion', 'device_answer_cancels_its_entry', 'retransmitted_write_is_idempotent',
    'wrong_pattern_outlives_request_counterexample',
    'gen_conc_discipline', 'every_interleaving_is_atomic', 'every_schedule_is_an_atomic_history', 'write_exact_every_schedule',
    'read_exact_every_schedule', 'start_outside_lock_counterexample', 'code_blocks_early_ack',
    'gen_caller_call', 'every_registered_subscriber_is_told_exactly_once', 'subscribers_are_told_what_is_due',
    'live_iteration_skips_the_next_subscriber',
    'gen_write_data_ownership', 'refill_cannot_touch_started_requests', 'copying_constructor_ignores_refills',
    'queued_write_aliases_caller_buffer_counterexample', 'refills_are_invisible',
    'd9_lock_left_held', 'd9_wedged')]
TRUSTED = ['harness/corr/c06.py extractor + correspondence (fake `cf` boundary object: add_port_callback, disconnected, send_packet with the '
           'size check of Crazyflie.send_packet; CheckedLock turns a blocking acquire of a held lock into `hang`; one MemProxy object per '
           'request carries the ghost tag through the callbacks)',
           'environment model Spec/C06 (device images, request/reply layout `id addr32 [len|data]` -> `id addr32 status [data]`, 30-byte CRTP '
           'payload => 24-byte read / 25-byte write limit, network that reorders/duplicates/drops) written from protocol knowledge; '
           'cross-checked against harness/sim/crazyflie_device.py in the spec-twin search',
           "struct '<BIB' '<BI' '<IB' '<BBBBB' as modelled in Base/Struct (little endian, range errors raise)",
           'threading.Lock semantics: acquire on a held lock blocks forever in a single-threaded history; `with` releases on exceptions',
           'Python dict insertion order = order of the failure callbacks on disconnect',
           'statement-level model (round 4): one source statement / one bytecode-level access of the shared request records is atomic (GIL); '
           'the split of write()/_write_new_chunk()/read() into model statements follows the assignments to shared fields (pinned: Gen '
           'writeChunkOrder, readChunkOrder, addDataOrder, memReadOrder, writeStartInsideLock); StepMem (sys.settrace line stepping in the '
           "calling thread, ObservedLock = the code's own lock kind that reports waiting threads) is search/correspondence machinery"]
ASSUMPTIONS = ['A1 (freshness, data-exactness theorems only): no reply belonging to an already notified request is delivered later; duplicates, '
               'delays and reordering within a request are unrestricted. Necessary: Props stale_reply_counterexample (the protocol has no '
               'request identity). The bookkeeping theorems (lock, exactly-one notification, order, records) hold for ARBITRARY packets.',
               'every packet handed to cf.send_packet reaches the device once and in order (link layer: C01/C10) in the closed system Sys; '
               'the retransmission layer of needs_resending links is modelled separately (Retry/rstep): its theorems assume that an error-status '
               'reply names the outstanding chunk (Ev.ErrAtCur: deterministic device + A1); retransmissions of the outstanding chunk itself '
               'are idempotent at the device (retransmitted_write_is_idempotent)',
               'requests are well-formed: memory id < 256, address range inside the 32-bit address space, data are bytes (otherwise struct.pack '
               'raises inside Memory.read/write: modelled, Props oob_write_raises, not covered by the property)',
               'one event (API call / packet handler / disconnect handler) is atomic: with the repaired lock discipline all accesses to '
               '_write_requests happen inside critical sections; _read_requests has no lock - two threads racing on it (e.g. the disconnect '
               'handler running concurrently with the final read reply) are outside the model',
               'interleaving theorems (round 4): ONE application thread calls into Memory at a time and ONE incoming thread handles packets '
               '(cflib: _IncomingPacketHandler), each handler atomic w.r.t. the other handlers; the two threads interleave at statement '
               'granularity. Between `self._read_requests[id] = rreq` and the send of its first packet no reply for memory id is in flight '
               '(A1 + the device answers only what it received) and a link loss inside that window, or while write() holds the lock, is '
               'treated as happening after the call (the disconnect callback is modelled as one step that waits for the lock). A reply '
               'dispatched synchronously on the CALLING thread (re-entering the RLock) and two application threads racing in read() are '
               'outside the model',
               'data ownership (round 7): the data of a write are the content of the buffer when write() is called; the application may '
               'refill that buffer in place (same length) at any later point (AEv.refill); other mutations (resizing the buffer) and '
               'mutation from another thread DURING write() are outside the model',
               'subscribers of the notification Callers (round 5): any behaviour that subscribes / unsubscribes anybody on any of the four '
               'Callers from inside a notification or between events, depending on everything told so far; an unsubscribe of somebody '
               'who is not subscribed is a guarded removal (a bare remove_callback would raise ValueError: covered by the next item)',
               'user callbacks do not raise (Caller.call would abort the remaining subscribers); requests issued while no link is open are '
               'outside the property; refresh()/info channel, DeckMemoryManager address mapping and progress texts are not modelled',
               "progress percentage: int(100*a/b) modelled as floor division (exact for transfer lengths < 2^45)"]
RULE = ('cases = whole histories driven adaptively on the REAL Memory object and replayed on the Lean model: reads (lengths 0,1,19,20,21,39,40,41,'
        '59,60,61,100 + random) and writes (0,1,24,25,26,49,50,51,74,75,76,100 + random) on memory ids 0-2, 255, 256 at addresses inside / '
        'partly outside the 160-byte device images and at / across the end of the 32-bit address space, queued writes with and without '
        'flush_queue and progress callbacks, delivery of the simulated device\'s replies in random order with duplicates, stale replies from '
        'the whole session, forged error statuses and addresses, truncated / empty / other-channel packets, disconnect at random positions; '
        'plus MemoryTester client histories (read_data / write_data / validation) and, in the search, spec-twin scenarios (fair network with '
        'dup/reorder/error/drop-at-k) and the real Crazyflie + SimLink stack. After EVERY step the call result (return / exception class / '
        'hang), the packets sent, the callbacks invoked (with request tag) and the lock state are compared. Round 4: the application call '
        'run LINE BY LINE in its own thread (StepMem) with the replies in flight handed to a second real thread at one chosen stop / at '
        'every stop / inside cf.send_packet before it returns (synchronous link), for every boundary length, with replies of other '
        'reads / writes / a queued write in flight; compared: what the caller did up to each stop, whether the incoming thread had to wait '
        "for the lock ('blocked'), what each handler did, lock state, call result. Round 5: scripted subscribers on the four notification Callers "
        "(one-shot self-removal at every position among permanent listeners, removing / adding others, scripts that change per invocation, "
        "(un)subscription between events, Callers replaced by a link loss): after every step, additionally, who was told what, in order; "
        "MemoryTester / DeckMemoryManager histories with self-removing application listeners registered ahead of the library's own. "
        "Round 7: every write hands over a mutable bytearray that the history later refills in place (`refill`), at random points. "
        "distinct+non-trivial = distinct history (op lines)")

READ_LENS = [0, 1, 19, 20, 21, 39, 40, 41, 59, 60, 61, 100]
WRITE_LENS = [0, 1, 24, 25, 26, 49, 50, 51, 74, 75, 76, 100]
MEM_SIZE = 160
N_MEMS = 3


def make_device(rng):
    from harness.sim import crazyflie_device as sim
    mems = [sim.Mem(0, data=bytes(rng.randrange(256) for _ in range(MEM_SIZE))) for _ in range(N_MEMS)]
    return sim.CrazyflieDevice(mems=mems)


def ack_bytes(id, addr, status):
    return bytes([id & 0xFF]) + struct.pack('<IB', addr & 0xFFFFFFFF, status & 0xFF)


class History:
    """drives the REAL code adaptively (the next step may depend on what the code sent) and records the op lines
    and the real replies; the same lines are replayed on the Lean driver afterwards."""
    P = ''             # op prefix (`f`: the Memory ops behind the subscriber fan-out, SubHistory)

    def __init__(self, rng, variant='code'):
        self.rng = rng
        self.real = self._make_real()
        self.dev = make_device(rng)
        self.lines = [self.P + 'reset' + ('' if self.P else ' ' + variant)]
        self.replies = ['ok']
        self.inflight = []     # replies the device produced, not yet (or to be re-) delivered: (chan, bytes)
        self.history = []      # every reply ever produced
        self.tag = 0
        self.kinds = set()

    def _after(self, line, reply):
        self.lines.append(line)
        self.replies.append(reply)
        # whatever the library sent reaches the device, in order; the replies go in flight
        for chan, data in self.real.sent:
            for (_, c, d) in self.dev.handle(4, chan, data):
                self.inflight.append((c, d))
                self.history.append((c, d))
        del self.real.sent[:]
        return reply

    def _make_real(self):
        return RealMem()

    def op(self, line):
        return self._after(line, self.real.line(line.split(' ')))

    def read(self, id, addr, length):
        self.tag += 1
        return self.op(self.P + 'read %d %d %d %d' % (self.tag, id, addr, length))

    def write(self, id, addr, data, flush=False, prog=False):
        self.tag += 1
        if not hasattr(self, 'wtags'):
            self.wtags = []
        self.wtags.append((self.tag, len(data)))
        return self.op(self.P + 'write %d %d %d %s %d %d' % (self.tag, id, addr, hexs(data), flush, prog))

    def refill(self, tag, data):
        """the application re-uses the buffer it passed to write(tag ..): overwritten in place with `data`"""
        return self.op('refill %d %s' % (tag, hexs(data)))

    def pkt(self, chan, data):
        return self.op(self.P + 'pkt %d %s' % (chan, hexs(data)))

    def disc(self):
        del self.inflight[:]
        return self.op(self.P + 'disc')

    def deliver(self, i=0, keep=False):
        chan, data = self.inflight[i] if keep else self.inflight.pop(i)
        return self.pkt(chan, data)

    def drain(self, limit=400):
        """deliver everything in flight in order until quiet"""
        n = 0
        while self.inflight and n < limit:
            self.deliver(0)
            n += 1


def rand_addr(rng, length):
    x = rng.random()
    if x < 0.7:
        return rng.randrange(0, max(1, MEM_SIZE - length + 1))
    if x < 0.8:
        return rng.randrange(0, MEM_SIZE + 40)               # partly / wholly outside the device memory
    if x < 0.9:
        return (1 << 32) - length - rng.choice([0, 1, 5])     # at the end of the 32-bit address space
    return (1 << 32) - rng.randrange(0, max(1, length)) - rng.choice([0, 1])   # crossing it / beyond it


def rand_history(rng, steps, variant='code'):
    h = History(rng, variant)
    for _ in range(steps):
        x = rng.random()
        if x < 0.16:
            n = rng.choice(READ_LENS) if rng.random() < 0.8 else rng.randrange(0, 130)
            h.read(rng.choice([0, 0, 1, 2, 255, 256]) if rng.random() < 0.15 else rng.randrange(N_MEMS), rand_addr(rng, n), n)
        elif x < 0.36:
            n = rng.choice(WRITE_LENS) if rng.random() < 0.8 else rng.randrange(0, 130)
            data = bytes(rng.randrange(256) for _ in range(n))
            h.write(rng.choice([0, 1, 255, 256]) if rng.random() < 0.1 else rng.randrange(N_MEMS), rand_addr(rng, n), data,
                    flush=rng.random() < 0.35, prog=rng.random() < 0.3)
        elif x < 0.75 and h.inflight:
            # the network: deliver the oldest / any reply, possibly keeping a copy in flight (duplicate)
            i = 0 if rng.random() < 0.6 else rng.randrange(len(h.inflight))
            h.deliver(i, keep=rng.random() < 0.25)
        elif x < 0.80 and h.history:
            c, d = rng.choice(h.history)                       # a stale reply from earlier in the session
            h.pkt(c, d)
        elif x < 0.86:
            # a reply with an error status / a forged address for something that may be outstanding
            chan = rng.choice([1, 2])
            h.pkt(chan, ack_bytes(rng.randrange(N_MEMS), rng.choice([0, 20, 25, rng.randrange(200)]), rng.choice([0, 2, 7, 12, 255]))
                  + (bytes(rng.randrange(256) for _ in range(rng.choice([0, 1, 20, 24]))) if chan == 1 and rng.random() < 0.7 else b''))
        elif x < 0.90:
            # malformed: truncated / empty / other channel
            src = rng.choice(h.history)[1] if h.history and rng.random() < 0.6 else bytes(rng.randrange(256) for _ in range(rng.randrange(0, 8)))
            h.pkt(rng.choice([1, 2, 3]), src[:rng.randrange(0, min(len(src), 6) + 1)])
        elif x < 0.94:
            h.disc()
        elif x < 0.97 and getattr(h, 'wtags', None):
            # the caller re-uses the buffer of one of its (recent) writes
            t, n = rng.choice(h.wtags[-4:])
            h.refill(t, bytes(rng.randrange(256) for _ in range(n)))
        elif h.inflight:
            h.deliver(0)
    if rng.random() < 0.7:
        h.drain()
    return h


class SubHistory(History):
    """History behind the subscriber fan-out; `twin` is the spec: who must be told (everybody registered when the
    notification is issued, exactly once, in registration order), computed independently of Caller.call"""
    P = 'f'

    def _make_real(self):
        return RealSubs()

    def __init__(self, rng):
        History.__init__(self, rng)
        self.reg = [[], [], [], []]       # spec twin: registered subscribers per Caller
        self.scripts, self.count = {}, {}
        self.violations = []

    def beh(self, c, script):
        """script: list (per invocation) of lists of (op, k, c)"""
        self.scripts[c] = script
        txt = '/'.join(','.join('%s%d:%d' % a for a in inv) or '-' for inv in script) or '-'
        return self.op('fbeh %d %s' % (c, txt))

    def _twin_act(self, act):
        op, k, c = act
        if op == 'a':
            if c not in self.reg[k]:
                self.reg[k].append(c)
        elif c in self.reg[k]:
            self.reg[k].remove(c)

    def sub(self, k, c):
        r = self.op('fsub %d %d' % (k, c))
        self._twin_act(('a', k, c))
        return r

    def unsub(self, k, c):
        r = self.op('funsub %d %d' % (k, c))
        self._twin_act(('r', k, c))
        return r

    def _after(self, line, reply):
        History._after(self, line, reply)
        f = reply.split(' ')
        if line.split(' ')[0] in ('fread', 'fwrite', 'fpkt', 'fdisc') and len(f) == 4:
            want = []
            for o in f[1].split(';'):
                tag = o.split(':')[0]
                if tag in RealSubs.TAGS:
                    k = RealSubs.TAGS.index(tag)
                    for c in list(self.reg[k]):           # the subscribers registered when the notification is issued
                        want.append('%d=%s' % (c, o))
                        n = self.count.get(c, 0)
                        self.count[c] = n + 1
                        sc = self.scripts.get(c, [])
                        for act in (sc[n] if n < len(sc) else []):
                            self._twin_act(act)
            got = [] if f[3] == '-' else f[3].split(';')
            if got != want and not f[0].startswith('E:'):
                self.violations.append({'step': line[:80], 'told': got, 'registered_when_issued': want})
            if line == 'fdisc':
                self.reg = [[], [], [], []]               # _clear_state(): new Caller objects
        return reply


def rand_script(rng, ids, me):
    """what a subscriber does at its 1st, 2nd, ... invocation: one-shot self-removal, removing / adding others"""
    x = rng.random()
    if x < 0.35:
        return [[('r', k, me) for k in range(4)]]                       # one-shot on every Caller
    if x < 0.5:
        return []
    sc = []
    for _ in range(rng.choice([1, 2, 3])):
        sc.append([(rng.choice('ar'), rng.randrange(4), rng.choice(ids + [me])) for _ in range(rng.choice([0, 1, 2, 3]))])
    return sc


def sub_history(rng, steps):
    h = SubHistory(rng)
    ids = list(range(1, rng.choice([2, 3, 5]) + 1))
    for c in ids:
        h.beh(c, rand_script(rng, ids, c))
    for c in ids:
        for k in range(4):
            if rng.random() < 0.7:
                h.sub(k, c)
    for _ in range(steps):
        x = rng.random()
        if x < 0.15:
            n = rng.choice(READ_LENS[:6])
            h.read(rng.randrange(N_MEMS), rng.randrange(0, MEM_SIZE - n + 10), n)
        elif x < 0.32:
            n = rng.choice(WRITE_LENS[:6])
            h.write(rng.randrange(N_MEMS), rng.randrange(0, MEM_SIZE - n + 10), bytes(rng.randrange(256) for _ in range(n)),
                    flush=rng.random() < 0.3, prog=rng.random() < 0.2)
        elif x < 0.72 and h.inflight:
            i = 0 if rng.random() < 0.7 else rng.randrange(len(h.inflight))
            h.deliver(i, keep=rng.random() < 0.15)
        elif x < 0.78:
            chan = rng.choice([1, 2])
            h.pkt(chan, ack_bytes(rng.randrange(N_MEMS), rng.choice([0, 20, 25, rng.randrange(160)]), rng.choice([2, 7, 12])))
        elif x < 0.86:
            (h.sub if rng.random() < 0.6 else h.unsub)(rng.randrange(4), rng.choice(ids))
        elif x < 0.90:
            c = rng.choice(ids)
            h.beh(c, rand_script(rng, ids, c))
        elif x < 0.94:
            h.disc()
            for c in ids:
                if rng.random() < 0.6:
                    h.sub(rng.randrange(4), c)
        elif h.inflight:
            h.deliver(0)
    h.drain()
    return h


def sub_systematic(rng):
    """one-shot listeners at every position among 1..3 permanent ones, on each Caller: read ok / read failed / write ok /
    write failed / link loss with both kinds of request pending"""
    res = []
    for n_perm in (1, 2, 3):
        for pos in range(n_perm + 1):
            for mode in ('ok', 'fail', 'drop'):
                h = SubHistory(rng)
                order = list(range(1, n_perm + 1))
                order.insert(pos, 9)
                h.beh(9, [[('r', k, 9) for k in range(4)]])
                if n_perm >= 2:
                    h.beh(1, [[('r', 0, 2), ('a', 0, 7)], [('a', 2, 7)]])     # removes a later one, adds a new one
                for c in order:
                    for k in range(4):
                        h.sub(k, c)
                if mode == 'fail':
                    h.dev.force_status(4, 1, bytes([1]) + struct.pack('<I', 5), 7, times=1)
                    h.dev.force_status(4, 2, bytes([2]) + struct.pack('<I', 7), 13, times=1)
                h.read(1, 5, 21)
                h.write(2, 7, bytes(rng.randrange(256) for _ in range(26)))
                if mode == 'drop':
                    h.deliver(0)
                    h.disc()
                h.drain()
                del h.dev.forced[:]
                for k in range(4):
                    h.sub(k, 9)
                h.read(1, 5, 3)
                h.write(2, 7, b'\x01\x02')
                h.drain()
                res.append(h)
    return res


def tester_history(rng, steps):
    tid = rng.randrange(N_MEMS)
    h = History(rng)
    h.real = RealTester(tid)
    h.lines.append('treset %d' % tid)
    h.replies.append('ok')
    if rng.random() < 0.5:
        h.op('oneshot')        # an application's self-removing listeners ahead of MemoryTester.new_data / write_done
    # memory 0..2 hold the tester pattern at some places so that validation succeeds and fails
    for m in h.dev.mems:
        for k in range(0, MEM_SIZE):
            if rng.random() < 0.85:
                m.data[k] = k & 0xFF
    cb = 0
    for _ in range(steps):
        x = rng.random()
        cb += 1
        if x < 0.2:
            n = rng.choice([0, 1, 19, 20, 21, 41, 1, 20, 21, 41, 40, 60])
            h.op('tread %d %d %d %d' % (RealTester.TAG, rng.randrange(0, MEM_SIZE - n + 1) if rng.random() < 0.9 else 250, n, cb))
        elif x < 0.4:
            n = rng.choice([0, 1, 24, 25, 26, 51])
            h.op('twrite %d %d %d %d' % (RealTester.TAG, rng.randrange(0, MEM_SIZE - n + 1) if rng.random() < 0.9 else 250, n, cb))
        elif x < 0.85 and h.inflight:
            i = 0 if rng.random() < 0.7 else rng.randrange(len(h.inflight))
            c, d = h.inflight[i] if rng.random() < 0.2 else h.inflight.pop(i)
            h.op('tpkt %d %s' % (c, hexs(d)))
        elif x < 0.9:
            h.op('tpkt %d %s' % (rng.choice([1, 2]), hexs(ack_bytes(tid, rng.choice([0, 20, 25]), rng.choice([0, 7])))))
        elif x < 0.93:
            del h.inflight[:]
            h.op('disc')
            h.op('tdisc')
            if rng.random() < 0.5:
                h.op('oneshot')
    return h


def systematic_histories(rng, thorough):
    """boundary lengths x {clean, every reply duplicated, error status at chunk j, link drop after k deliveries},
    queued second write with / without flush_queue: deterministic coverage of every chunk boundary"""
    hs = []
    lens_r = READ_LENS if thorough else READ_LENS[:9]
    lens_w = WRITE_LENS if thorough else WRITE_LENS[:9]
    for n in lens_r:
        chunks = max(1, -(-n // 20))
        for mode in ['clean', 'dup'] + ['err%d' % j for j in range(chunks)] + ['drop%d' % k for k in range(chunks + 1)]:
            h = History(rng)
            addr = 3
            if mode.startswith('err'):
                j = int(mode[3:])
                # the device answers the j-th chunk request with an error status
                h.dev.force_status(4, 1, bytes([1]) + struct.pack('<I', addr + 20 * j), 7, times=1)
            h.read(1, addr, n)
            k = 0
            while h.inflight and k < 50:
                if mode.startswith('drop') and k == int(mode[4:]):
                    h.disc()
                    break
                h.deliver(0, keep=(mode == 'dup'))
                if mode == 'dup':
                    h.deliver(0)
                k += 1
            h.read(1, addr, n)          # afterwards a further request is served
            h.drain()
            hs.append(h)
    for n in lens_w:
        chunks = max(1, -(-n // 25))
        data = bytes(rng.randrange(256) for _ in range(n))
        for mode in ['clean', 'dup', 'queued', 'queued-flush'] + ['err%d' % j for j in range(chunks)] + \
                ['drop%d' % k for k in range(chunks + 1)]:
            h = History(rng)
            addr = 7
            if mode.startswith('err'):
                j = int(mode[3:])
                h.dev.force_status(4, 2, bytes([2]) + struct.pack('<I', addr + 25 * j), 13, times=1)
            h.write(2, addr, data, prog=(n % 2 == 0))
            if mode.startswith('queued'):
                h.write(2, addr + 1, data[:30])
                h.write(2, addr + 2, data[:3], flush=(mode == 'queued-flush'))
            k = 0
            while h.inflight and k < 80:
                if mode.startswith('drop') and k == int(mode[4:]):
                    h.disc()
                    break
                h.deliver(0, keep=(mode == 'dup'))
                if mode == 'dup':
                    h.deliver(0)
                k += 1
            h.write(2, addr, data[:26])
            h.drain()
            hs.append(h)
    return hs


DECK_MEM_SIZE = 640
DECK_BASE = 320


def deck_device(rng, did, version=3):
    from harness.sim import crazyflie_device as sim
    mems = []
    for i in range(N_MEMS):
        data = bytearray(rng.randrange(256) for _ in range(DECK_MEM_SIZE))
        data[0] = version
        mems.append(sim.Mem(0x19 if i == did else 0, data=bytes(data)))
    return sim.CrazyflieDevice(mems=mems)


def new_deck_history(rng, did, version=3):
    h = History(rng)
    h.real = RealDeck(did)
    h.dev = deck_device(rng, did, version)
    h.lines.append('dreset %d code' % did)
    h.replies.append('ok')
    return h


def deck_history(rng, steps):
    """the DeckMemoryManager client: queries / reads / writes with and without the optional failure callbacks, overlapping
    requests (refused with an exception), replies in any order with duplicates, error statuses, unsupported info version,
    Memory-level disconnect and manager.disconnect()"""
    did = rng.randrange(N_MEMS)
    h = new_deck_history(rng, did, version=rng.choice([3, 3, 3, 2]))
    if rng.random() < 0.5:
        h.op('oneshot')        # an application's self-removing listeners ahead of the manager's four subscribers
    rid = 0
    for _ in range(steps):
        x = rng.random()
        rid += 1
        if x < 0.10:
            h.op('dquery %d %d %d' % (RealDeck.TAG, rid, rng.random() < 0.5))
        elif x < 0.25:
            n = rng.choice([0, 1, 20, 21, 41])
            a = rng.randrange(0, 200) if rng.random() < 0.85 else DECK_MEM_SIZE
            h.op('dread %d %d %d %d %d %d' % (RealDeck.TAG, DECK_BASE, a, n, rid, rng.random() < 0.5))
        elif x < 0.40:
            n = rng.choice([0, 1, 25, 26, 51])
            a = rng.randrange(0, 200) if rng.random() < 0.85 else DECK_MEM_SIZE
            h.op('dwrite %d %d %d %s %d %d %d' % (RealDeck.TAG, rng.choice([DECK_BASE, DECK_BASE, 0x100]), a,
                                                 hexs(bytes(rng.randrange(256) for _ in range(n))), rid, rng.random() < 0.5, rng.random() < 0.3))
        elif x < 0.85 and h.inflight:
            i = 0 if rng.random() < 0.7 else rng.randrange(len(h.inflight))
            c, d = h.inflight[i] if rng.random() < 0.2 else h.inflight.pop(i)
            h.op('dpkt %d %s' % (c, hexs(d)))
        elif x < 0.91:
            chan = rng.choice([1, 2])
            h.op('dpkt %d %s' % (chan, hexs(ack_bytes(did, rng.choice([0, DECK_BASE, DECK_BASE + 5, 0x100]), rng.choice([0, 7, 13])))))
        elif x < 0.95:
            del h.inflight[:]
            h.op('ddisc')
            if rng.random() < 0.5:
                h.op('oneshot')
        elif x < 0.97:
            h.op('ddisconnect')
    return h


def deck_systematic(rng, thorough):
    """every kind of deck request x {with, without failure callback} x {success, error status at chunk j, Memory-level
    disconnect after k deliveries, unsupported info version}, each followed by a further request of the same kind"""
    hs = []
    T = RealDeck.TAG

    def pump(h, stop_after=None):
        k = 0
        while h.inflight and k < 60:
            if stop_after is not None and k == stop_after:
                del h.inflight[:]
                h.op('ddisc')
                return
            c, d = h.inflight.pop(0)
            h.op('dpkt %d %s' % (c, hexs(d)))
            k += 1
    for hf in (0, 1):
        for version in (3, 2):
            for mode in ['ok', 'err0', 'err5', 'drop0', 'drop3']:
                h = new_deck_history(rng, 1, version)
                if mode.startswith('err'):
                    h.dev.force_status(4, 1, bytes([1]) + struct.pack('<I', 20 * int(mode[3:])), 7, times=1)
                h.op('dquery %d 1 %d' % (T, hf))
                pump(h, int(mode[4:]) if mode.startswith('drop') else None)
                h.op('dquery %d 2 %d' % (T, hf))
                pump(h)
                hs.append(h)
        for n in ([0, 1, 20, 21, 41, 60] if thorough else [0, 21, 41]):
            chunks = max(1, -(-n // 20))
            for mode in ['ok'] + ['err%d' % j for j in range(chunks)] + ['drop%d' % k for k in range(chunks + 1)]:
                h = new_deck_history(rng, 1)
                a = 9
                if mode.startswith('err'):
                    h.dev.force_status(4, 1, bytes([1]) + struct.pack('<I', DECK_BASE + a + 20 * int(mode[3:])), 7, times=1)
                h.op('dread %d %d %d %d 1 %d' % (T, DECK_BASE, a, n, hf))
                pump(h, int(mode[4:]) if mode.startswith('drop') else None)
                h.op('dread %d %d %d %d 2 %d' % (T, DECK_BASE, a, n, hf))
                pump(h)
                hs.append(h)
        for n in ([0, 1, 25, 26, 51] if thorough else [0, 26, 51]):
            chunks = max(1, -(-n // 25))
            data = bytes(rng.randrange(256) for _ in range(n))
            for mode in ['ok'] + ['err%d' % j for j in range(chunks)] + ['drop%d' % k for k in range(chunks + 1)]:
                h = new_deck_history(rng, 1)
                a = 9
                if mode.startswith('err'):
                    h.dev.force_status(4, 2, bytes([1]) + struct.pack('<I', DECK_BASE + a + 25 * int(mode[3:])), 13, times=1)
                h.op('dwrite %d %d %d %s 1 %d %d' % (T, DECK_BASE, a, hexs(data), hf, n % 2))
                pump(h, int(mode[4:]) if mode.startswith('drop') else None)
                h.op('dwrite %d %d %d %s 2 %d 0' % (T, DECK_BASE, a, hexs(data), hf))
                pump(h)
                hs.append(h)
    # overlapping requests: a query while a read is pending and vice versa; a second read / write while one is pending
    for first, second in [('dread %d %d 9 21 1 1' % (T, DECK_BASE), 'dquery %d 2 1' % T), ('dquery %d 1 1' % T, 'dread %d %d 9 21 2 1' % (T, DECK_BASE)),
                          ('dread %d %d 9 21 1 0' % (T, DECK_BASE), 'dread %d %d 40 5 2 0' % (T, DECK_BASE)),
                          ('dwrite %d %d 9 0102 1 1 0' % (T, DECK_BASE), 'dwrite %d %d 40 03 2 1 0' % (T, DECK_BASE))]:
        h = new_deck_history(rng, 1)
        h.op(first)
        h.op(second)
        pump(h)
        h.op(second)
        pump(h)
        h.op(first.replace(' 1 ', ' 3 ', 1) if False else first)
        pump(h)
        hs.append(h)
    return hs


def corpus_histories(rng):
    """minimised past witnesses (harness/corpus/c06/*.json): fixed op lines, run first"""
    import glob
    import json
    import os
    hs = []
    here = os.path.join(os.path.dirname(os.path.dirname(os.path.abspath(__file__))), 'corpus', 'c06')
    for f in sorted(glob.glob(os.path.join(here, '*.json'))):
        h = History(rng)
        for line in json.load(open(f))['lines']:
            h.op(line)
        hs.append(h)
    return hs


def classify(reply, counts):
    if reply == 'blocked':
        counts('incoming-thread-waits-for-lock')
    f = reply.split(' ')
    if len(f) < 3:
        return
    res, outs, lock = f[:3]
    if len(f) == 4:
        for o in f[3].split(';'):
            if o != '-':
                counts(('subscriber-told:' + o.split('=')[1].split(':')[0]) if '=' in o else 'deck:' + o.split(':')[0])
    if len(f) > 4:
        for o in f[3].split(';'):
            if o != '-':
                counts('tester:' + o.split(':')[0])
        counts('tester:valid=' + f[4])
    counts('res:' + res)
    if lock == 'L1':
        counts('lock-held-after-step')
    for o in outs.split(';'):
        if o != '-':
            counts('out:' + o.split(':')[0][:2])


def correspond(ctx):
    rng = ctx.rng
    d9, d17 = probe_variant()
    ctx.note('behavioural probe of the real code: D9 repaired=%s, D17 repaired=%s' % (d9, d17))
    thorough = ctx.tier == 'thorough'
    hs = []
    hs += corpus_histories(rng)
    ctx.count('histories:corpus', len(hs))
    hs += systematic_histories(rng, thorough)
    hs += deck_systematic(rng, thorough)
    ctx.count('histories:systematic', len(hs))
    for k in range(20000 if thorough else 220):
        hs.append(rand_history(rng, rng.choice([6, 12, 25, 60])))
    for k in range(4000 if thorough else 60):
        hs.append(tester_history(rng, rng.choice([6, 15, 40])))
    for k in range(6000 if thorough else 150):
        hs.append(deck_history(rng, rng.choice([6, 15, 40])))
    # subscribers on the notification Callers that (un)subscribe from inside a notification
    subs = sub_systematic(rng)
    for k in range(5000 if thorough else 80):
        subs.append(sub_history(rng, rng.choice([10, 25, 50])))
    ctx.count('histories:subscribers', len(subs))
    hs += subs
    # the calling thread line by line, the incoming thread in between (StepMem): same protocol, own ops
    steps = step_scenarios(rng, thorough)
    for k in range(3000 if thorough else 40):
        steps.append(step_random(rng))
    ctx.count('histories:interleaved', len(steps))
    for sc in steps:
        hs.append(sc.sm)
        for p_ in sc.sm.problems:
            ctx.disagree('interleaved-run', {'scenario': sc.desc}, 'a run that comes to rest', p_)
    lines = [l for h in hs for l in h.lines]
    model = ctx.lean(DRIVER, lines)
    pos = 0
    for h in hs:
        n = len(h.lines)
        mine = model[pos:pos + n]
        pos += n
        bad = next((i for i in range(n) if mine[i] != h.replies[i]), None)
        for l, r in zip(h.lines[1:], h.replies[1:]):
            ctx.count('op:' + l.split(' ')[0])
            classify(r, ctx.count)
        ctx.case({'history': h.lines[1:6], 'steps': n - 1}, ('hist', tuple(h.lines)))
        if bad is not None:
            ctx.disagree('history', {'lines': h.lines[:bad + 1][-12:], 'step': bad}, mine[bad][:300], h.replies[bad][:300])


# =====================================================================================================
# failing-input search: the property itself, evaluated on the real code against the simulated device
# =====================================================================================================
READ_LIMIT = 24      # protocol: a read reply (id, addr32, status, data) must fit a 30 byte CRTP payload
WRITE_LIMIT = 25     # protocol: a write request (id, addr32, data) must fit a 30 byte CRTP payload

D9_KEY = 'D9-duplicated-final-write-ack-leaves-lock-held'
D17_KEY = 'D17-zero-length-write-with-progress-callback-never-completes'


def notes_of(reply):
    outs = reply.split(' ')[1]
    return [o for o in outs.split(';') if o[:2] in ('RO', 'RF', 'WO', 'WF')]


def replay_d9(ctx):
    """witness of D9: one 1-byte write, its acknowledgement delivered twice, then a further write"""
    r = RealMem()
    ack = ack_bytes(0, 0, 0)
    trace = [r.write(1, 0, 0, b'\x2a', False, False), r.pkt(2, ack), r.pkt(2, ack)]
    held = r.locked()
    trace.append(r.write(2, 0, 0, b'\x2b', False, False))
    trace.append(r.disc())
    if held or trace[3].startswith('H') or trace[4].startswith('H'):
        try:
            full = d9_full_stack()
        except Exception as e:      # the shared simulator is not part of this finding
            full = 'not run (%s)' % type(e).__name__
        ctx.witness(D9_KEY, 'a duplicated final write acknowledgement raises IndexError inside _handle_chan_write with '
                    '_write_requests_lock held: every later write() and the disconnect handler block forever',
                    {'ops': ['write 1 0 0 2a 0 0', 'pkt 2 000000000000', 'pkt 2 000000000000', 'write 2 0 0 2b 0 0', 'disc']},
                    observed=trace, lock_held=held, lock_held_on_real_crazyflie_stack=full)
        return True
    return False


def d9_full_stack():
    """the same witness on the real Crazyflie object (real send_packet, real incoming-packet dispatch, which logs and
    swallows the IndexError) over the simulated link: is the lock still held afterwards?"""
    from harness.sim import crazyflie_device as sim
    dev = sim.CrazyflieDevice(mems=[sim.Mem(0x18, data=bytes(64))])
    s = sim.SyncSession(dev)
    if not s.connect('connected'):
        return None
    mem = s.cf.mem
    s.call(mem.write, MemProxy(0, 1), 0, bytearray(b'\x2a'))
    s.run()
    acks = [i for i, p in enumerate(s.link.history) if p[0] == 4 and p[1] == 2]
    if not acks:
        return None
    s.link.replay(acks[-1])
    s.run()
    return mem._write_requests_lock.locked()


def full_stack_scenarios(ctx, rng, n):
    """real Crazyflie + real Memory + simulated device over a link that duplicates and delays replies; every request uses
    its own address range, so that a late duplicate can never be mistaken for the reply to a later request (A1)"""
    from harness.sim import crazyflie_device as sim
    for k in range(n):
        # memory type 0x18 (TYPE_APP): Memory creates a plain MemoryElement for it, which subscribes to no callback,
        # so no element-specific parser sits between Memory and the observers of this check
        dev = sim.CrazyflieDevice(mems=[sim.Mem(0x18, data=bytes(rng.randrange(256) for _ in range(400))),
                                        sim.Mem(0x18, data=bytes(400))])
        pol = sim.RandomPolicy(rng, p_dup=rng.choice([0, 0.3, 0.6]), p_delay=rng.choice([0, 0.3]), p_stale=0.0)
        s = sim.SyncSession(dev)
        if not s.connect('connected') or s.run(max_steps=5000) != 'quiescent':
            ctx.note('full-stack scenario: could not connect to the simulated device')
            return
        # the connection sequence (TOC download, memory refresh on the info channel) is not the subject of C06:
        # the adversarial link policy is switched on once the session is up
        s.cfg.policy = pol
        mem = s.cf.mem
        got = {}
        mem.mem_read_cb.add_callback(lambda m, a, d: got.setdefault(m.tag, []).append(('RO', a, bytes(d))))
        mem.mem_read_failed_cb.add_callback(lambda m, a, d: got.setdefault(m.tag, []).append(('RF', a, bytes(d))))
        mem.mem_write_cb.add_callback(lambda m, a: got.setdefault(m.tag, []).append(('WO', a)))
        mem.mem_write_failed_cb.add_callback(lambda m, a: got.setdefault(m.tag, []).append(('WF', a)))
        snapshot = bytes(dev.mems[0].data)
        expect = bytearray(dev.mems[1].data)
        reqs, ra, wa, tag = [], 0, 0, 0
        for _ in range(rng.choice([2, 4, 6])):
            tag += 1
            if rng.random() < 0.5:
                n_ = rng.choice(READ_LENS[:9])
                reqs.append((tag, 'r', ra, n_))
                s.call(mem.read, MemProxy(0, tag), ra, n_)
                s.run(max_steps=20000)        # one read per memory at a time
                ra += n_ + 1
            else:
                n_ = rng.choice(WRITE_LENS[:9])
                data = bytes(rng.randrange(256) for _ in range(n_))
                reqs.append((tag, 'w', wa, data))
                s.call(mem.write, MemProxy(1, tag), wa, bytearray(data))
                expect[wa:wa + n_] = data
                wa += n_ + 1
                if rng.random() < 0.5:
                    s.run(max_steps=20000)
        s.run(max_steps=20000)
        held = mem._write_requests_lock.locked()
        bad = held
        for (t, kind, a, x) in reqs:
            ns = got.get(t, [])
            if len(ns) != 1 or (kind == 'r' and ns[0] != ('RO', a, snapshot[a:a + x])) or (kind == 'w' and ns[0] != ('WO', a)):
                bad = True
        if bytes(dev.mems[1].data) != bytes(expect) or bytes(dev.mems[0].data) != snapshot:
            bad = True
        ctx.count('search:full-stack-scenarios')
        if bad:
            ctx.witness('full-stack', 'reads/writes through the real Crazyflie object over a duplicating/delaying link are not exact / '
                        'not notified exactly once / leave the lock held',
                        {'requests': [(t, kind, a, x if isinstance(x, int) else x.hex()) for (t, kind, a, x) in reqs]},
                        notifications={t: [tuple(y if not isinstance(y, bytes) else y.hex() for y in n) for n in v] for t, v in got.items()},
                        lock_held=held)
            return


def resend_stack_scenarios(ctx, rng, n):
    """Links that need resending (retry timers of Crazyflie.send_packet, virtual in the SyncSession): a multi-chunk write
    completes; every retry timer still alive is fired; a later write that covers the range of the first one's last chunk
    (different start address) completes; timers are fired again; the range is read back.  The device memory must be the
    two writes applied in order, the read-back must return it, and no memory-port retransmission may be pending."""
    from harness.sim import crazyflie_device as sim
    for k in range(n):
        size = 400
        dev = sim.CrazyflieDevice(mems=[sim.Mem(0x18, data=bytes(rng.randrange(256) for _ in range(size))),
                                        sim.Mem(0x18, data=bytes(rng.randrange(256) for _ in range(size)))])
        s = sim.SyncSession(dev, needs_resending=True)
        if not s.connect('connected') or s.run(max_steps=5000) != 'quiescent':
            ctx.note('resend scenario: could not connect to the simulated device')
            return
        if rng.random() < 0.5:
            s.cfg.policy = sim.RandomPolicy(rng, p_dup=0.4, p_delay=0.0, p_stale=0.0)
        mem = s.cf.mem
        got = {}
        mem.mem_read_cb.add_callback(lambda m, a, d: got.setdefault(m.tag, []).append(('RO', a, bytes(d))))
        mem.mem_read_failed_cb.add_callback(lambda m, a, d: got.setdefault(m.tag, []).append(('RF', a, bytes(d))))
        mem.mem_write_cb.add_callback(lambda m, a: got.setdefault(m.tag, []).append(('WO', a)))
        mem.mem_write_failed_cb.add_callback(lambda m, a: got.setdefault(m.tag, []).append(('WF', a)))

        def fire_all(rounds=4):
            fired = 0
            for _ in range(rounds):
                if not s.timers:
                    break
                s.fire_timer()
                fired += 1
                s.run(max_steps=300, idle=('workers', 'flush'))
            return fired

        def mem_patterns():
            return sorted(p for p in s.cf._answer_patterns if p and (p[0] >> 4) & 0x0F == 4)
        expect = bytearray(dev.mems[1].data)
        len_a = rng.choice([26, 50, 51, 76])
        addr_a = rng.randrange(0, 100)
        data_a = bytes(rng.randrange(256) for _ in range(len_a))
        last_chunk = addr_a + 25 * ((len_a - 1) // 25)
        s.call(mem.write, MemProxy(1, 1), addr_a, bytearray(data_a))
        s.run(max_steps=3000, idle=('workers', 'flush'))
        expect[addr_a:addr_a + len_a] = data_a
        pending_a = mem_patterns()
        fired_a = fire_all()
        # a later write covering the last chunk of the first one, from a different start address
        addr_b = max(0, last_chunk - rng.randrange(1, 20))
        len_b = (addr_a + len_a - addr_b) + rng.randrange(0, 10)
        data_b = bytes(rng.randrange(256) for _ in range(len_b))
        s.call(mem.write, MemProxy(1, 2), addr_b, bytearray(data_b))
        s.run(max_steps=3000, idle=('workers', 'flush'))
        expect[addr_b:addr_b + len_b] = data_b
        fired_b = fire_all()
        s.call(mem.read, MemProxy(1, 3), addr_b, len_b)
        s.run(max_steps=3000, idle=('workers', 'flush'))
        fire_all()
        ctx.count('search:resend-scenarios')
        image = bytes(dev.mems[1].data)
        ok_notes = got.get(1) == [('WO', addr_a)] and got.get(2) == [('WO', addr_b)]
        readback = got.get(3)
        if image != bytes(expect) or not ok_notes or readback != [('RO', addr_b, bytes(data_b))] or pending_a or mem_patterns():
            diff = [i for i in range(size) if image[i] != expect[i]]
            ctx.witness('resend-link', 'on a link that needs resending a completed write does not leave the device memory equal to the written '
                        'data (a chunk is retransmitted after its request completed) / a retransmission stays pending',
                        {'needs_resending': True, 'write_a': {'addr': addr_a, 'data': data_a.hex()},
                         'write_b': {'addr': addr_b, 'data': data_b.hex()}, 'timers_fired_after_a': fired_a, 'timers_fired_after_b': fired_b},
                        device_differs_at=diff[:8], device=image[addr_b:addr_b + len_b].hex(), expected=bytes(expect[addr_b:addr_b + len_b]).hex(),
                        notifications={t: [tuple(y.hex() if isinstance(y, bytes) else y for y in n_) for n_ in v] for t, v in got.items()},
                        pending_patterns_after_first_write=[list(p) for p in pending_a], pending_patterns_at_end=[list(p) for p in mem_patterns()])
            return


def replay_d17(ctx):
    """witness of D17: zero-length write with a progress callback"""
    r = RealMem()
    trace = [r.write(1, 0, 0, b'', False, True), r.pkt(2, ack_bytes(0, 0, 0))]
    held = r.locked()
    done = [n for t in trace for n in notes_of(t)]
    if len(done) != 1 or held:
        ctx.witness(D17_KEY, 'a zero-length write with a progress callback raises ZeroDivisionError in write_done: the request is never '
                    'completed (no success/failure notification), stays at the head of the queue of its memory and, before the D9 '
                    'repair, leaves _write_requests_lock held',
                    {'ops': ['write 1 0 0 - 0 1', 'pkt 2 000000000000']}, observed=trace, lock_held=held)
        return True
    return False


class Scenario:
    """Spec twin.  Real Memory + simulated device + an adversarial network that duplicates, delays, reorders replies,
    makes the device answer with error statuses and drops the link; the property is evaluated on what comes out."""

    def __init__(self, ctx, rng, desc):
        self.ctx, self.rng, self.desc = ctx, rng, desc
        self.h = History(rng)
        self.req = {}          # tag -> dict(kind, id, addr, len/data, accepted, superseded)
        self.notes = {}        # tag -> [notification strings]
        self.order = []        # write tags per id in acceptance order
        self.bad = []
        self.steps = []

    def fail(self, key, what, **kw):
        self.bad.append(key)
        self.ctx.witness(key, what, {'scenario': self.desc, 'ops': self.h.lines[-40:]}, **kw)

    def _absorb(self, reply):
        res, outs, lock = reply.split(' ')
        if lock != 'L0':
            self.fail('lock-held', '_write_requests_lock is held while no call into Memory is executing', reply=reply)
        if res == 'H':
            self.fail('hang', 'a call into Memory blocks forever on _write_requests_lock', reply=reply)
        for o in outs.split(';'):
            f = o.split(':')
            if f[0] in ('RO', 'RF', 'WO', 'WF'):
                self.notes.setdefault(int(f[1]), []).append(o)
                # A1: replies that belong to a finished request are not delivered any more
                chan = 1 if f[0][0] == 'R' else 2
                mid = int(f[2])
                self.h.inflight[:] = [p for p in self.h.inflight if not (p[0] == chan and p[1][:1] == bytes([mid & 0xFF]))]
            if f[0] in ('S1', 'S2'):
                self._check_send(int(f[0][1]), bytes.fromhex(f[1].split('!')[0]), o)
        return res

    def _check_send(self, chan, data, o):
        if '!' in o:
            self.fail('send-shape', 'packet sent with unexpected port / expected_reply / timeout', out=o)
        if len(data) > 30:
            self.fail('limit', 'packet payload longer than 30 bytes', out=o)
        if chan == 1 and (len(data) != 6 or data[5] > READ_LIMIT):
            self.fail('limit', 'read request asks for more than the protocol limit', out=o)
        if chan == 2 and len(data) - 5 > WRITE_LIMIT:
            self.fail('limit', 'write request carries more than the protocol limit', out=o)

    def read(self, id, addr, n):
        before = len(self.h.inflight)
        reply = self.h.read(id, addr, n)
        tag = self.h.tag
        # replies produced by the packets of this very step must survive the purge in _absorb
        new = self.h.inflight[before:]
        res = self._absorb(reply)
        self.req[tag] = {'kind': 'r', 'id': id, 'addr': addr, 'len': n, 'accepted': res == 'T', 'snapshot': bytes(self.h.dev.mems[id].data)}
        return tag

    def write(self, id, addr, data, flush=False, prog=False):
        reply = self.h.write(id, addr, data, flush, prog)
        tag = self.h.tag
        res = self._absorb(reply)
        self.req[tag] = {'kind': 'w', 'id': id, 'addr': addr, 'data': data, 'accepted': res == 'T', 'superseded': False}
        return tag

    def deliver(self, i, keep):
        c, d = self.h.inflight[i]
        before = list(self.h.inflight)
        if not keep:
            self.h.inflight.pop(i)
        # deliver; replies generated during this step (by packets sent from the handler) are appended by History._after
        n0 = len(self.h.inflight)
        reply = self.h.pkt(c, d)
        fresh = self.h.inflight[n0:]
        self._absorb(reply)
        for p in fresh:           # the purge must not remove replies to packets sent in this very step
            if p not in self.h.inflight:
                self.h.inflight.append(p)

    def disc(self):
        self._absorb(self.h.disc())


def run_scenario(ctx, rng, n_ops, p_dup, p_reorder, p_err, drop_at, desc):
    sc = Scenario(ctx, rng, desc)
    h = sc.h
    dev = h.dev
    read_ids = [0]
    write_ids = [1, 2]
    expect = {i: bytearray(dev.mems[i].data) for i in range(N_MEMS)}
    queue = {i: [] for i in write_ids}      # spec twin of the per-memory FIFO: tags not yet finished
    started = {}
    delivered = 0
    pending_ops = []
    for _ in range(n_ops):
        if rng.random() < 0.4:
            n = rng.choice(READ_LENS)
            pending_ops.append(('r', rng.choice(read_ids), rng.randrange(0, MEM_SIZE - n + 1), n))
        else:
            n = rng.choice(WRITE_LENS)
            pending_ops.append(('w', rng.choice(write_ids), rng.randrange(0, MEM_SIZE - n + 1),
                                bytes(rng.randrange(256) for _ in range(n)), rng.random() < 0.3, rng.random() < 0.3))
    dropped = False
    guard = 0
    while (pending_ops or h.inflight) and guard < 5000:
        guard += 1
        if drop_at is not None and delivered >= drop_at and not dropped:
            sc.disc()
            dropped = True
            for i in write_ids:
                queue[i] = []
            break
        if pending_ops and (not h.inflight or rng.random() < 0.35):
            op = pending_ops.pop(0)
            if op[0] == 'r':
                if rng.random() < p_err:
                    dev.force_status(4, 1, bytes([op[1]]), rng.choice([2, 7, 13]), times=1)
                sc.read(op[1], op[2], op[3])
            else:
                if rng.random() < p_err:
                    dev.force_status(4, 2, bytes([op[1]]), rng.choice([2, 12, 13]), times=1)
                tag = None
                q = queue[op[1]]
                if op[4] and len(q) > 1:                      # flush_queue: everything but the head is superseded
                    for t in q[1:]:
                        sc.req[t]['superseded'] = True
                    del q[1:]
                tag = sc.write(op[1], op[2], op[3], op[4], op[5])
                q.append(tag)
        elif h.inflight:
            i = rng.randrange(len(h.inflight)) if rng.random() < p_reorder else 0
            sc.deliver(i, keep=rng.random() < p_dup)
            delivered += 1
        for i in write_ids:                                   # finished requests leave the twin queue
            queue[i] = [t for t in queue[i] if t not in sc.notes]
    # ---- evaluate ----
    for tag, rq in sc.req.items():
        ns = sc.notes.get(tag, [])
        if not rq['accepted']:
            if ns:
                sc.fail('notified-refused', 'a refused request was notified', tag=tag, notes=ns)
            continue
        if rq.get('superseded'):
            if ns:
                sc.fail('notified-superseded', 'a write removed by flush_queue was notified', tag=tag, notes=ns)
            continue
        if len(ns) != 1:
            sc.fail('exactly-one', 'an accepted request that was not superseded got %d notifications' % len(ns), tag=tag, request={k: (v.hex() if isinstance(v, bytes) else v) for k, v in rq.items()}, notes=ns)
            continue
        f = ns[0].split(':')
        if rq['kind'] == 'r' and f[0] == 'RO':
            want = rq['snapshot'][rq['addr']:rq['addr'] + rq['len']]
            got = b'' if f[4] == '-' else bytes.fromhex(f[4])
            if got != want or int(f[3]) != rq['addr']:
                sc.fail('read-exact', 'read result differs from the device memory', tag=tag, want=want.hex(), got=got.hex())
    # device images: writes that succeeded are applied in acceptance order, failed ones may have written a prefix
    for i in write_ids:
        img = bytearray(expect[i])
        unknown = set()
        for tag in sorted(t for t, rq in sc.req.items() if rq['kind'] == 'w' and rq['id'] == i and rq['accepted'] and not rq.get('superseded')):
            rq = sc.req[tag]
            ns = sc.notes.get(tag, [])
            a, d = rq['addr'], rq['data']
            if ns and ns[0].startswith('WO'):
                img[a:a + len(d)] = d
                unknown -= set(range(a, a + len(d)))
            else:
                unknown |= set(range(a, a + len(d)))
        real = dev.mems[i].data
        diff = [k for k in range(MEM_SIZE) if k not in unknown and real[k] != img[k]]
        if diff:
            sc.fail('write-exact', 'device memory differs from the completed writes applied in order', mem=i, first=diff[:5])
    # afterwards further requests are served
    if not sc.bad:
        h.inflight[:] = []
        del dev.forced[:]                 # unconsumed forced error statuses are not part of this phase
        t1 = sc.read(0, 3, 41)
        t2 = sc.write(1, 5, bytes(range(51)))
        g = 0
        while h.inflight and g < 50:
            sc.deliver(0, False)
            g += 1
        for t in (t1, t2):
            ns = sc.notes.get(t, [])
            if len(ns) != 1 or ns[0][:2] not in ('RO', 'WO'):
                sc.fail('next-request-served', 'a request issued after the history is not served', tag=t, notes=ns)
        if bytes(dev.mems[1].data[5:56]) != bytes(range(51)):
            sc.fail('next-request-served', 'the write issued after the history did not reach the device')
    ctx.count('search:scenarios')
    ctx.count('search:requests', len(sc.req))
    ctx.count('search:notified', sum(1 for t in sc.req if t in sc.notes))
    return sc


def evaluate_simple(sc, expect_ok):
    """every accepted, not superseded request of the scenario got exactly one notification, of the expected kind"""
    for tag, rq in sc.req.items():
        ns = sc.notes.get(tag, [])
        if rq.get('superseded'):
            continue
        if len(ns) != 1:
            sc.fail('exactly-one', 'an accepted request that was not superseded got %d notifications' % len(ns), tag=tag, notes=ns)
        elif tag in expect_ok and ns[0][:2] != expect_ok[tag]:
            sc.fail('outcome', 'request notified with the wrong outcome', tag=tag, notes=ns, want=expect_ok[tag])


def status_sweep(ctx):
    """every error status 1..255 (whatever tables the library has for them) in the reply to the first, a middle and the
    last chunk of a three-chunk read and write - independent of the seed: the request fails with exactly one failure
    notification, nothing raises, what was acknowledged before is on the device, and the next request is served"""
    rng = ctx.rng
    classes = [1, 2, 7, 8, 12, 13, 17, 22, 127, 128, 254, 255]
    todo = [(st, st % 3) for st in range(1, 256)] + [(st, j) for st in classes for j in range(3)]
    for kind in ('r', 'w'):
        for st, j in todo:
            sc = Scenario(ctx, rng, {'kind': 'read' if kind == 'r' else 'write', 'chunks': 3, 'error_status': st, 'in_reply_to_chunk': j})
            h, dev = sc.h, sc.h.dev
            a = 9
            base = bytes(dev.mems[1].data)
            if kind == 'r':
                dev.force_status(4, 1, bytes([1]) + struct.pack('<I', a + 20 * j), st, times=1)
                t1 = sc.read(1, a, 55)
            else:
                d = bytes(rng.randrange(256) for _ in range(70))
                dev.force_status(4, 2, bytes([1]) + struct.pack('<I', a + 25 * j), st, times=1)
                t1 = sc.write(1, a, d)
            g = 0
            while h.inflight and g < 20:
                sc.deliver(0, keep=False)
                g += 1
            evaluate_simple(sc, {t1: 'RF' if kind == 'r' else 'WF'})
            if kind == 'w':
                img = bytearray(base)
                img[a:a + 25 * j] = d[:25 * j]
                if bytes(dev.mems[1].data) != bytes(img):
                    sc.fail('write-exact', 'after a write that failed at chunk %d the device memory is not the acknowledged prefix' % j, status=st)
            del dev.forced[:]
            t2 = sc.read(1, a, 21) if kind == 'r' else sc.write(1, a, bytes(range(30)))
            while h.inflight:
                sc.deliver(0, keep=False)
            if [x[:2] for x in sc.notes.get(t2, [])] != (['RO'] if kind == 'r' else ['WO']):
                sc.fail('next-request-served', 'a request issued after a request that failed with status %d is not served' % st, notes=sc.notes.get(t2))
            ctx.count('search:status-sweep')
            if sc.bad:
                return True
    return False


def systematic_search(ctx):
    """deterministic boundary scenarios: every chunk count, an error status at every chunk, a queue behind the failing
    write, every reply duplicated, link drop after every k-th reply; judged by the spec twin"""
    rng = ctx.rng
    if status_sweep(ctx):
        return True
    for n in WRITE_LENS[:9]:
        chunks = max(1, -(-n // 25))
        for j in list(range(chunks)) + [None]:
            for dup in (False, True):
                sc = Scenario(ctx, rng, {'kind': 'queued-writes', 'len': n, 'error_at_chunk': j, 'dup': dup})
                h, dev = sc.h, sc.h.dev
                base = bytes(dev.mems[2].data)
                a = 7
                d1 = bytes(rng.randrange(256) for _ in range(n))
                d2 = bytes(rng.randrange(256) for _ in range(30))
                d3 = bytes(rng.randrange(256) for _ in range(3))
                if j is not None:
                    dev.force_status(4, 2, bytes([2]) + struct.pack('<I', a + 25 * j), 13, times=1)
                t1 = sc.write(2, a, d1)
                t2 = sc.write(2, a + 60, d2)
                t3 = sc.write(2, a + 100, d3)
                g = 0
                while h.inflight and g < 200:
                    sc.deliver(0, keep=dup and g % 2 == 0)
                    g += 1
                evaluate_simple(sc, {t1: 'WO' if j is None else 'WF', t2: 'WO', t3: 'WO'})
                img = bytearray(base)
                if j is None:
                    img[a:a + n] = d1
                else:
                    img[a:a + 25 * j] = d1[:25 * j]
                img[a + 60:a + 90] = d2
                img[a + 100:a + 103] = d3
                if bytes(dev.mems[2].data) != bytes(img):
                    sc.fail('write-exact', 'device memory differs from the writes performed in order', len=n, error_at_chunk=j)
                ctx.count('search:systematic')
                if sc.bad:
                    return True
    for n in READ_LENS[:9]:
        chunks = max(1, -(-n // 20))
        for j in list(range(chunks)) + [None]:
            for drop in [None] + list(range(chunks + 1)):
                sc = Scenario(ctx, rng, {'kind': 'read', 'len': n, 'error_at_chunk': j, 'drop_after': drop})
                h, dev = sc.h, sc.h.dev
                a = 5
                if j is not None:
                    dev.force_status(4, 1, bytes([1]) + struct.pack('<I', a + 20 * j), 7, times=1)
                t1 = sc.read(1, a, n)
                g = 0
                while h.inflight and g < 100:
                    if drop is not None and g == drop:
                        break
                    sc.deliver(0, keep=False)
                    g += 1
                dropped = drop is not None and t1 not in sc.notes
                if dropped or (drop is not None and g == drop and h.inflight):
                    sc.disc()
                want = 'RF' if (j is not None and (drop is None or drop > j)) or (t1 in sc.notes and sc.notes[t1][0][:2] == 'RF') else None
                evaluate_simple(sc, {t1: want} if want else {})
                ns = sc.notes.get(t1, [])
                if ns and ns[0].startswith('RO'):
                    got = ns[0].split(':')[4]
                    if (b'' if got == '-' else bytes.fromhex(got)) != bytes(dev.mems[1].data[a:a + n]):
                        sc.fail('read-exact', 'read result differs from the device memory', len=n)
                del dev.forced[:]
                t2 = sc.read(1, a, n)
                while h.inflight:
                    sc.deliver(0, keep=False)
                if [x[:2] for x in sc.notes.get(t2, [])] != ['RO']:
                    sc.fail('next-request-served', 'a read issued after the history is not served', notes=sc.notes.get(t2))
                ctx.count('search:systematic')
                if sc.bad:
                    return True
    return False


D61_KEY = 'D61-deck-query-failure-not-reported'
D62_KEY = 'D62-deck-write-failure-without-callback-raises-in-dispatch'
D63_KEY = 'D63-deck-overlapping-query-and-read-leaves-record'
D64_KEY = 'D64-memorytester-read-record-left-behind'


def client_search(ctx):
    """Spec twin for the client layers that keep their own pending-request records (DeckMemoryManager / DeckMemory,
    MemoryTester).  For every kind of request x {with, without the optional failure callback} x {success, error status on
    chunk j, link drop after k replies}: the request is closed by exactly one callback (or silently when the callback that
    would report it was not supplied), no exception escapes from Memory's notification dispatch, the notifications of
    OTHER requests are not lost, and a following request of the same kind is accepted and completes."""
    rng = ctx.rng
    T = RealDeck.TAG

    def pump(h, opname, stop_after=None):
        k, replies = 0, []
        while h.inflight and k < 80:
            if stop_after is not None and k == stop_after:
                del h.inflight[:]
                replies.append(h.op('ddisc' if opname == 'dpkt' else 'disc'))
                return replies
            c, d = h.inflight.pop(0)
            replies.append(h.op('%s %d %s' % (opname, c, hexs(d))))
            k += 1
        return replies

    def cbs(replies):
        out = []
        for r in replies:
            f = r.split(' ')
            if len(f) > 3 and f[3] != '-':
                out += f[3].split(';')
        return out

    def report(key, what, h, **kw):
        ctx.witness(key, what, {'ops': h.lines[-14:]}, **kw)

    cases = []
    for hf in (0, 1):
        for mode in ['ok', 'err0', 'err5', 'drop0', 'drop3']:
            cases.append(('query', hf, 257, mode))
        for n in (0, 21, 41):
            chunks = max(1, -(-n // 20))
            for mode in ['ok'] + ['err%d' % j for j in range(chunks)] + ['drop%d' % k for k in range(chunks + 1)]:
                cases.append(('read', hf, n, mode))
        for n in (0, 26, 51):
            chunks = max(1, -(-n // 25))
            for mode in ['ok'] + ['err%d' % j for j in range(chunks)] + ['drop%d' % k for k in range(chunks + 1)]:
                cases.append(('write', hf, n, mode))
    for ahead, (kind, hf, n, mode) in [(False, c) for c in cases] + [(True, c) for c in cases]:
        h = new_deck_history(rng, 1)
        if ahead:
            h.op('oneshot')        # self-removing application listeners registered ahead of the manager's subscribers
        a = 9
        data = bytes(rng.randrange(256) for _ in range(n)) if kind == 'write' else b''
        if mode.startswith('err'):
            j = int(mode[3:])
            if kind == 'query':
                h.dev.force_status(4, 1, bytes([1]) + struct.pack('<I', 20 * j), 7, times=1)
            elif kind == 'read':
                h.dev.force_status(4, 1, bytes([1]) + struct.pack('<I', DECK_BASE + a + 20 * j), 7, times=1)
            else:
                h.dev.force_status(4, 2, bytes([1]) + struct.pack('<I', DECK_BASE + a + 25 * j), 13, times=1)

        def issue(rid):
            if kind == 'query':
                return h.op('dquery %d %d %d' % (T, rid, hf))
            if kind == 'read':
                return h.op('dread %d %d %d %d %d %d' % (T, DECK_BASE, a, n, rid, hf))
            return h.op('dwrite %d %d %d %s %d %d 0' % (T, DECK_BASE, a, hexs(data), rid, hf))
        # a write to another memory is pending as well: its notification must not get lost
        other = h.op('write 77 0 3 0102 0 0')
        r0 = issue(1)
        snapshot = bytes(h.dev.mems[1].data)
        replies = pump(h, 'dpkt', int(mode[4:]) if mode.startswith('drop') else None)
        got = cbs(replies)
        failed = mode != 'ok'
        desc = {'kind': kind, 'failure_callback': bool(hf), 'len': n, 'outcome': mode, 'one_shot_listeners_ahead': ahead}
        done_tag = {'query': 'DQ', 'read': 'DR', 'write': 'DW'}[kind]
        fail_tag = done_tag + 'F'
        mine = [g for g in got if g.split(':')[1] == '1']
        want = [fail_tag] if (failed and hf) else ([] if failed else [done_tag])
        raised = [r for r in replies if r.startswith('E:')]
        other_notes = [o for r in replies for o in r.split(' ')[1].split(';') if o.startswith('WO:77') or o.startswith('WF:77')]
        bad = None
        if r0.split(' ')[0] != 'N':
            bad = ('deck-client:not-accepted', 'a deck request on an idle manager was not accepted')
        elif raised:
            bad = (D62_KEY if kind == 'write' and not hf and failed else 'deck-client:dispatch-raised',
                   'an exception escaped from the notification dispatch of Memory (a subscriber raised)')
        elif [m.split(':')[0] for m in mine] != want:
            bad = (D61_KEY if kind == 'query' and hf and failed else 'deck-client:exactly-one',
                   'a deck request was not closed by exactly one callback (expected %s, got %s)' % (want, mine))
        elif len(other_notes) != 1:
            bad = ('deck-client:other-request-lost', 'the notification of another pending request got lost')
        elif kind == 'read' and not failed and mine[0] != 'DR:1:%d:%s' % (a, hexs(snapshot[DECK_BASE + a:DECK_BASE + a + n])):
            bad = ('deck-client:read-exact', 'deck read callback carries the wrong address or data')
        if bad is None:
            del h.dev.forced[:]
            r1 = issue(2)
            rep2 = pump(h, 'dpkt')
            mine2 = [g for g in cbs(rep2) if g.split(':')[1] == '2']
            if r1.split(' ')[0] != 'N' or [m.split(':')[0] for m in mine2] != [done_tag]:
                bad = ('deck-client:next-request-served', 'a further deck request after this one is not accepted / not completed')
        ctx.count('search:client-scenarios')
        if bad is not None:
            report(bad[0], bad[1], h, scenario=desc, callbacks=got, first_call=r0)
            if bad[0].startswith('deck-client'):
                return True
    # overlapping requests of different kinds on the manager
    for first, second, kind2 in [('dread %d %d 9 21 1 1' % (T, DECK_BASE), 'dquery %d 2 1' % T, 'query'),
                                 ('dquery %d 1 1' % T, 'dread %d %d 9 21 2 1' % (T, DECK_BASE), 'read')]:
        h = new_deck_history(rng, 1)
        h.op(first)
        r = h.op(second)
        replies = pump(h, 'dpkt')
        got = cbs(replies)
        accepted = r.split(' ')[0] == 'N'
        closed2 = [g for g in got if g.split(':')[1] == '2']
        follow = h.op(second.replace(' 2 1', ' 3 1'))
        ctx.count('search:client-scenarios')
        if accepted and not closed2:
            report(D63_KEY, 'a deck %s issued while the other kind of read is in progress returns normally but is never sent and never '
                   'notified; its record stays and every later one raises' % kind2, h, callbacks=got, follow_up=follow)
        elif not accepted and follow.split(' ')[0] != 'N':
            report('deck-client:next-request-served', 'after a refused overlapping request a further request is not accepted', h)
            return True
    # MemoryTester: its read record (_update_finished_cb) must be free again once the read is over, however it ended
    tcases = [(21, 'ok'), (0, 'ok'), (21, 'err0'), (41, 'err1'), (21, 'drop0'), (21, 'drop1')]
    for ahead, (n, mode) in [(False, c) for c in tcases] + [(True, c) for c in tcases]:
        h = History(rng)
        h.real = RealTester(1)
        for k in range(MEM_SIZE):
            h.dev.mems[1].data[k] = k & 0xFF
        h.lines.append('treset 1')
        h.replies.append('ok')
        if ahead:
            h.op('oneshot')
        if mode.startswith('err'):
            h.dev.force_status(4, 1, bytes([1]) + struct.pack('<I', 4 + 20 * int(mode[3:])), 7, times=1)
        h.op('tread %d 4 %d 1' % (RealTester.TAG, n))
        replies = pump(h, 'tpkt', int(mode[4:]) if mode.startswith('drop') else None)
        del h.dev.forced[:]
        r = h.op('tread %d 4 21 2' % RealTester.TAG)
        rep2 = pump(h, 'tpkt')
        served = 'S1:' in r and any('TU:2' in x for x in rep2)
        ctx.count('search:client-scenarios')
        if not served:
            key = D64_KEY if (n == 0 or mode != 'ok') else 'tester-client:next-request-served'
            report(key, 'MemoryTester.read_data after a read that %s: the request is silently ignored (the record _update_finished_cb is '
                   'only cleared inside the loop over received bytes)' % ('returned no bytes' if mode == 'ok' else 'failed'), h,
                   scenario={'len': n, 'outcome': mode, 'one_shot_listeners_ahead': ahead})
            if key != D64_KEY:
                return True
    return False


D65_KEY = 'D65-queued-write-sends-the-callers-later-buffer-content'
ALIAS_KEY = 'write-aliasing'


def aliasing_search(ctx):
    """"the device memory equals the written data" = the data at the time of the call: the caller refills, in place, the
    (mutable) buffer it passed to write() - right after write() returned, or after the k-th reply - and the device image
    must still be the data of the call.  Writes that start at once (all boundary lengths) and writes queued behind
    another one (D65, repaired: before the repair a waiting request still referred to the caller's buffer)."""
    rng = ctx.rng
    found = False
    for n in WRITE_LENS[1:]:
        chunks = max(1, -(-n // 25))
        for after in range(chunks):
            sc = Scenario(ctx, rng, {'kind': 'write, then the caller refills its buffer', 'len': n, 'refill_after_reply': after})
            h, dev = sc.h, sc.h.dev
            base = bytes(dev.mems[2].data)
            a = 11
            d = bytes(rng.randrange(256) for _ in range(n))
            t = sc.write(2, a, d)
            for _ in range(after):
                sc.deliver(0, keep=False)
            h.refill(t, bytes(x ^ 0xFF for x in d))
            g = 0
            while h.inflight and g < 60:
                sc.deliver(0, keep=False)
                g += 1
            ctx.count('search:aliasing')
            img = bytearray(base)
            img[a:a + n] = d
            got = bytes(dev.mems[2].data)
            if sc.notes.get(t, [''])[0][:2] == 'WO' and got != bytes(img):
                diff = [j for j in range(len(img)) if got[j] != img[j]]
                sc.fail(ALIAS_KEY, 'the caller re-used (refilled in place) the buffer it had passed to write() after write() had returned: '
                        'the write is reported as successful but the device memory holds bytes of the NEW buffer content, not the '
                        'data of the call', len=n, refill_after_reply=after, first_difference_at=diff[0] - a, bytes_differing=len(diff),
                        device=hexs(got[diff[0]:diff[0] + 8]), data_of_the_call=hexs(bytes(img[diff[0]:diff[0] + 8])))
                found = True
            evaluate_simple(sc, {t: 'WO'})
            if sc.bad:
                return True
    # queued behind another write
    for n in (1, 26):
        sc = Scenario(ctx, rng, {'kind': 'queued write, then the caller refills its buffer', 'len': n})
        h, dev = sc.h, sc.h.dev
        base = bytes(dev.mems[2].data)
        d1 = bytes(rng.randrange(256) for _ in range(30))
        d2 = bytes(rng.randrange(256) for _ in range(n))
        t1 = sc.write(2, 5, d1)
        t2 = sc.write(2, 60, d2)
        h.refill(t2, bytes(x ^ 0xFF for x in d2))
        g = 0
        while h.inflight and g < 60:
            sc.deliver(0, keep=False)
            g += 1
        ctx.count('search:aliasing')
        img = bytearray(base)
        img[5:35] = d1
        img[60:60 + n] = d2
        if bytes(dev.mems[2].data) != bytes(img) and not sc.bad:
            ctx.witness(D65_KEY, 'a write queued behind another write of the same memory keeps a reference to the caller\'s buffer until it is '
                        'started by the reply handler: refilled by the caller in the meantime, the device receives the new content',
                        {'scenario': sc.desc, 'ops': h.lines[-12:]}, device=hexs(bytes(dev.mems[2].data[60:60 + min(n, 8)])),
                        data_of_the_call=hexs(d2[:8]))
        if sc.bad:
            return True
    return found


SUBS_KEY = 'subscriber-exactly-one'


def subscriber_search(ctx):
    """the property as the SUBSCRIBERS of the four notification Callers see it: every subscriber registered when a
    notification is issued is told exactly once (in registration order, nobody else) although subscribers unsubscribe
    themselves (one-shot listeners) / others and subscribe others from inside a notification"""
    rng = ctx.rng
    hs = sub_systematic(rng)
    for k in range(3000 if ctx.tier == 'thorough' else 60):
        hs.append(sub_history(rng, rng.choice([10, 25, 50])))
    bad = [h for h in hs if h.violations]
    ctx.count('search:subscriber-histories', len(hs))
    bad.sort(key=lambda h: len(h.lines))
    for h in bad[:3]:
        v = h.violations[0]
        ctx.witness(SUBS_KEY, 'a subscriber that was registered on the Caller when Memory issued the notification was not told exactly '
                    'once (another subscriber changed the subscriptions from inside the notification)',
                    {'ops': h.lines[:h.lines.index(next(l for l in h.lines if l.startswith(v['step']))) + 1][-40:]}, **v)
    if bad:
        ctx.note('subscriber search: %d of %d histories violate the property' % (len(bad), len(hs)))
    return bool(bad)


def interleaving_search(ctx):
    """the property on the real code with the application call run line by line and the replies handled by another
    thread in between (at one stop, at every stop, inside send_packet = synchronous link); judged by the spec twin"""
    rng = ctx.rng
    thorough = ctx.tier == 'thorough'
    scs = step_scenarios(rng, thorough)
    for k in range(4000 if thorough else 60):
        scs.append(step_random(rng))
    found = []
    for sc in scs:
        ctx.count('search:interleaved')
        ev = sc.evaluate()
        if ev:
            found.append((0 if any('device memory differs' in w for w, _ in ev) else 1, len(sc.sm.lines), sc, ev))
    found.sort(key=lambda x: x[:2])
    for _, _, sc, ev in found[:3]:
        what, details = next(((w, d) for w, d in ev if 'device memory differs' in w), ev[0])
        ctx.witness(STEP_KEY, 'replies handled by the incoming thread while the application call is between two statements: ' + what,
                    {'scenario': sc.desc, 'schedule': sc.sm.lines, 'observed': sc.sm.replies}, details=details,
                    all_violations=[w for w, _ in ev][:6])
    if found:
        ctx.note('interleaving search: %d of %d schedules violate the property' % (len(found), len(scs)))
    return bool(found)


def search(ctx):
    rng = ctx.rng
    d9 = replay_d9(ctx)
    d17 = replay_d17(ctx)
    if d9 or d17:
        return        # the remaining scenarios presuppose a subsystem that does not wedge
    # links that need resending first: their failures are device-memory differences on the real Crazyflie stack
    try:
        resend_stack_scenarios(ctx, rng, 8 if ctx.tier == 'quick' else 200)
    except Exception as e:
        ctx.note('resend scenarios not run: %s: %s' % (type(e).__name__, e))
    if any(w['key'] == 'resend-link' for w in ctx.witnesses):
        return
    if interleaving_search(ctx):
        return
    if subscriber_search(ctx):
        return
    if aliasing_search(ctx):
        return
    if systematic_search(ctx):
        return
    if client_search(ctx):
        return
    n = 60 if ctx.tier == 'quick' else 12000
    for k in range(n):
        drop = None if rng.random() < 0.6 else rng.randrange(0, 25)
        desc = {'k': k, 'drop_at': drop}
        sc = run_scenario(ctx, rng, rng.choice([1, 2, 4, 8]), p_dup=rng.choice([0, 0.2, 0.5]), p_reorder=rng.choice([0, 0.3, 1.0]),
                          p_err=rng.choice([0, 0, 0.2]), drop_at=drop, desc=desc)
        if sc.bad:
            break
    try:
        full_stack_scenarios(ctx, rng, 6 if ctx.tier == 'quick' else 400)
    except Exception as e:
        ctx.note('full-stack scenarios not run: %s: %s' % (type(e).__name__, e))
    # client-level observation (not a finding): see Props tester_zero_length_read_observation
    t = RealTester(1)
    t.line('tread 900 0 0 1'.split(' '))
    r = t.line(['tpkt', '1', hexs(ack_bytes(1, 0, 0))])
    if 'RO:900' in r and 'TU' not in r:
        ctx.note('observation: MemoryTester.read_data(size=0): Memory completes the read (mem_read_cb fires) but the tester calls its '
                 'own finished-callback inside the loop over the data bytes, i.e. never; later read_data calls are ignored')

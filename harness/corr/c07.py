"""C07 - received packets reach exactly the matching callbacks, once, in order.

Tie A: the header->port/channel expressions of CRTPPacket, the match condition of the dispatcher's generator,
the iteration sources (live list vs snapshot) of the dispatch loop / remove_header_callback / Caller.call, the
try/except shape around the port callback, the namedtuple field order, the argument orders and literals of
add/remove_port_callback and the public Crazyflie wrappers are re-extracted into Gen/C07.lean.
Tie B: the real _IncomingPacketHandler.run (driven synchronously, and through a real start()/join() for a
fraction of the cases) fed by a scripted fake link, with real Caller / CRTPPacket objects and instrumented
callbacks that add/remove registrations and raise as scripted, against the Lean model (Driver/C07.lean).
"""
import ast

from harness.lib import extract as X
from harness.lib.common import ExtractError

PID = 'C07'
LEAN_TARGETS = ['CfVerif.Props.C07']
PROPS_MODULES = ['CfVerif.Props.C07']
DRIVER = 'Driver/C07.lean'
REQUIRED_THEOREMS = []
TRUSTED = []
ASSUMPTIONS = []
RULE = ''

CF = 'cflib/crazyflie/__init__.py'
CB = 'cflib/utils/callbacks.py'
CRTP = 'cflib/crtp/crtpstack.py'


# ---- Tie A ---------------------------------------------------------------------------------------------
def _bool_to_lean(e, env):
    """and/or/not over ==/!= comparisons of integer expressions -> Lean Bool term"""
    if isinstance(e, ast.BoolOp):
        op = ' && ' if isinstance(e.op, ast.And) else ' || '
        return '(' + op.join(_bool_to_lean(v, env) for v in e.values) + ')'
    if isinstance(e, ast.UnaryOp) and isinstance(e.op, ast.Not):
        return '(!' + _bool_to_lean(e.operand, env) + ')'
    if isinstance(e, ast.Compare) and len(e.ops) == 1 and isinstance(e.ops[0], (ast.Eq, ast.NotEq)):
        op = '==' if isinstance(e.ops[0], ast.Eq) else '!='
        return '(%s %s %s)' % (X.expr_to_lean(e.left, env), op, X.expr_to_lean(e.comparators[0], env))
    raise ExtractError('untranslatable condition ' + ast.unparse(e))


def _iter_kind(it, base, where):
    """classify an iteration source: the live list `base` or a snapshot of it"""
    s = ast.unparse(it)
    if s == base:
        return False
    if s in ('list(%s)' % base, 'tuple(%s)' % base, '%s[:]' % base, '%s.copy()' % base, 'copy.copy(%s)' % base,
             'copy(%s)' % base):
        return True
    raise ExtractError('%s: iteration source %r is neither %s nor a recognised copy of it' % (where, s, base))


def _lbool(b):
    return 'true' if b else 'false'


def _has(node_list, types):
    return any(isinstance(n, types) for st in node_list for n in ast.walk(st))


def _bind_call(call, fdef, where):
    """bind the arguments of `call` to the parameters of fdef (skipping self); returns {param: ast expr}"""
    params = [a.arg for a in fdef.args.args][1:]
    defaults = fdef.args.defaults
    dmap = dict(zip(params[len(params) - len(defaults):], defaults))
    X.expect(len(call.args) <= len(params), where + ': too many arguments')
    res = dict(zip(params, call.args))
    for k in call.keywords:
        X.expect(k.arg in params and k.arg not in res, where + ': bad keyword ' + str(k.arg))
        res[k.arg] = k.value
    for p in params:
        if p not in res:
            X.expect(p in dmap, where + ': missing argument ' + p)
            res[p] = dmap[p]
    return res


def _lit(e, where):
    try:
        v = ast.literal_eval(e)
    except Exception:
        raise ExtractError(where + ': expected an integer literal, got ' + ast.unparse(e))
    X.expect(isinstance(v, int) and not isinstance(v, bool) and v >= 0, where + ': expected a natural literal')
    return v


def extract(ctx):
    g = X.GenFile(PID, [CF, CB, CRTP])
    # -- CRTPPacket: header -> port / channel, and the property getters the dispatcher reads
    ptree = X.parse(CRTP)
    pk = X.find(ptree, 'CRTPPacket')
    init = X.find(pk, '__init__')
    cas = {ast.unparse(n.targets[0]): n.value for n in ast.walk(init) if isinstance(n, ast.Assign) and len(n.targets) == 1}
    X.expect('self._port' in cas and 'self._channel' in cas, 'CRTPPacket.__init__: _port/_channel assignments not found')
    hname = init.args.args[1].arg
    g.raw('def crtpPortExpr (h : Nat) : Nat := ' + X.expr_to_lean(cas['self._port'], {hname: 'h'}))
    g.raw('def crtpChanExpr (h : Nat) : Nat := ' + X.expr_to_lean(cas['self._channel'], {hname: 'h'}))
    props = {}
    for n in pk.body:
        if isinstance(n, ast.Assign) and isinstance(n.value, ast.Call) and ast.unparse(n.value.func) == 'property' and n.value.args:
            props[ast.unparse(n.targets[0])] = ast.unparse(n.value.args[0])
    for nm in ('port', 'channel'):
        X.expect(nm in props, 'CRTPPacket.%s property not found' % nm)
        getter = X.find(pk, props[nm])
        rets = [ast.unparse(n.value) for n in ast.walk(getter) if isinstance(n, ast.Return) and n.value is not None]
        X.expect(len(rets) == 1, 'CRTPPacket.%s getter: expected a single return' % nm)
        g.string(nm + 'Getter', rets[0])

    # -- the dispatcher
    tree = X.parse(CF)
    h = X.find(tree, '_IncomingPacketHandler')
    cont = [n for n in tree.body if isinstance(n, ast.Assign) and ast.unparse(n.targets[0]) == '_CallbackContainer']
    X.expect(len(cont) == 1 and isinstance(cont[0].value, ast.Call) and ast.unparse(cont[0].value.func) == 'namedtuple'
             and len(cont[0].value.args) == 2, '_CallbackContainer is no longer a namedtuple(...)')
    fields = ast.literal_eval(cont[0].value.args[1])
    fields = fields.replace(',', ' ').split() if isinstance(fields, str) else list(fields)
    ah = X.find(h, 'add_header_callback')
    ctor = [n for n in ast.walk(ah) if isinstance(n, ast.Call) and ast.unparse(n.func) == '_CallbackContainer']
    X.expect(len(ctor) == 1 and not ctor[0].keywords and len(ctor[0].args) == len(fields),
             'add_header_callback: expected one positional _CallbackContainer(...)')
    app = [n for n in ast.walk(ah) if isinstance(n, ast.Call) and ast.unparse(n.func) == 'self.cb.append']
    X.expect(len(app) == 1 and app[0].args and app[0].args[0] is ctor[0], 'add_header_callback: expected self.cb.append(_CallbackContainer(...))')
    g.strings('containerInit', ['%s=%s' % (f, ast.unparse(a)) for f, a in zip(fields, ctor[0].args)])
    params = [a.arg for a in ah.args.args][1:]
    g.strings('addHeaderParams', params)
    dflt = dict(zip(params[len(params) - len(ah.args.defaults):], ah.args.defaults))
    g.nat('defaultPortMask', _lit(dflt.get('port_mask', ast.Constant(-1)), 'add_header_callback port_mask default'))
    g.nat('defaultChanMask', _lit(dflt.get('channel_mask', ast.Constant(-1)), 'add_header_callback channel_mask default'))

    rh = X.find(h, 'remove_header_callback')
    rparams = [a.arg for a in rh.args.args][1:]
    rdflt = dict(zip(rparams[len(rparams) - len(rh.args.defaults):], rh.args.defaults))
    g.strings('removeHeaderParams', rparams)
    g.nat('removeDefaultPortMask', _lit(rdflt.get('port_mask', ast.Constant(-1)), 'remove_header_callback port_mask default'))
    g.nat('removeDefaultChanMask', _lit(rdflt.get('channel_mask', ast.Constant(-1)), 'remove_header_callback channel_mask default'))
    loops = [n for n in ast.walk(rh) if isinstance(n, ast.For)]
    X.expect(len(loops) == 1 and isinstance(loops[0].target, ast.Name), 'remove_header_callback: expected one for loop')
    lp = loops[0]
    g.raw('def removeSnapshot : Bool := ' + _lbool(_iter_kind(lp.iter, 'self.cb', 'remove_header_callback')))
    X.expect(len(lp.body) == 1 and isinstance(lp.body[0], ast.If) and not lp.body[0].orelse and not lp.orelse,
             'remove_header_callback: loop body is not a single if')
    cond = lp.body[0].test
    v = lp.target.id
    cmps = []
    X.expect(isinstance(cond, ast.BoolOp) and isinstance(cond.op, ast.And), 'remove_header_callback: condition is not a conjunction')
    for c in cond.values:
        X.expect(isinstance(c, ast.Compare) and len(c.ops) == 1 and isinstance(c.ops[0], ast.Eq), 'remove_header_callback: non-== comparison')
        a, b = c.left, c.comparators[0]
        if isinstance(b, ast.Attribute):
            a, b = b, a
        X.expect(isinstance(a, ast.Attribute) and ast.unparse(a.value) == v and isinstance(b, ast.Name),
                 'remove_header_callback: comparison shape changed: ' + ast.unparse(c))
        cmps.append('%s==%s' % (a.attr, b.id))
    g.strings('removeCompares', sorted(cmps))
    body = lp.body[0].body
    X.expect(len(body) == 1, 'remove_header_callback: if body changed')
    g.string('removeBody', ast.unparse(body[0]).replace(v, 'x'))

    for nm, target in (('add_port_callback', ah), ('remove_port_callback', rh)):
        f = X.find(h, nm)
        calls = [n for n in ast.walk(f) if isinstance(n, ast.Call) and ast.unparse(n.func) == 'self.' + target.name]
        X.expect(len(calls) == 1, '%s: expected one call of %s' % (nm, target.name))
        b = _bind_call(calls[0], target, nm)
        pre = 'addPort' if nm.startswith('add') else 'removePort'
        g.strings(pre + 'Pass', ['%s=%s' % (k, ast.unparse(b[k])) for k in ('cb', 'port')])
        g.nat(pre + 'Channel', _lit(b['channel'], nm + ' channel'))
        g.nat(pre + 'PortMask', _lit(b['port_mask'], nm + ' port_mask'))
        g.nat(pre + 'ChanMask', _lit(b['channel_mask'], nm + ' channel_mask'))
        g.strings(pre + 'Params', [a.arg for a in f.args.args][1:])

    # public wrappers on Crazyflie: pure pass-through
    cfc = X.find(tree, 'Crazyflie')
    for nm in ('add_port_callback', 'remove_port_callback', 'add_header_callback', 'remove_header_callback'):
        f = X.find(cfc, nm)
        calls = [n for n in ast.walk(f) if isinstance(n, ast.Call) and ast.unparse(n.func) == 'self.incoming.' + nm]
        X.expect(len(calls) == 1, 'Crazyflie.%s: expected one call of self.incoming.%s' % (nm, nm))
        b = _bind_call(calls[0], X.find(h, nm), 'Crazyflie.' + nm)
        own = [a.arg for a in f.args.args][1:]
        od = dict(zip(own[len(own) - len(f.args.defaults):], f.args.defaults))
        camel = ''.join(w.capitalize() for w in nm.split('_'))
        g.strings('cf' + camel, ['%s=%s' % (k, ast.unparse(b[k])) for k in sorted(b)] +
                  ['default:%s=%d' % (k, _lit(od[k], 'Crazyflie.' + nm)) for k in sorted(od)] + ['params:' + ','.join(own)])

    run = X.find(h, 'run')
    wl = [n for n in run.body if isinstance(n, ast.While)]
    X.expect(len(wl) == 1, '_IncomingPacketHandler.run: expected one while loop')
    wl = wl[0]
    g.string('runLoopCond', ast.unparse(wl.test))
    recv = [n for n in wl.body if isinstance(n, ast.Assign) and isinstance(n.value, ast.Call)
            and ast.unparse(n.value.func).endswith('.receive_packet')]
    X.expect(len(recv) == 1 and isinstance(recv[0].targets[0], ast.Name), 'run: `pk = ...receive_packet(...)` not found')
    pkv = recv[0].targets[0].id
    fors = [n for n in wl.body if isinstance(n, ast.For)]
    X.expect(len(fors) == 1, 'run: expected exactly one top-level for loop over the port callbacks')
    fl = fors[0]
    X.expect(isinstance(fl.target, ast.Name) and not fl.orelse, 'run: for loop shape changed')
    if isinstance(fl.iter, ast.GeneratorExp):
        ge = fl.iter
        X.expect(len(ge.generators) == 1 and isinstance(ge.generators[0].target, ast.Name) and
                 isinstance(ge.elt, ast.Name) and ge.elt.id == ge.generators[0].target.id and not ge.generators[0].is_async,
                 'run: generator expression shape changed')
        gv = ge.generators[0].target.id
        src = ge.generators[0].iter
        conds = ge.generators[0].ifs
        X.expect(len(conds) >= 1, 'run: generator without a match condition')
        cond = conds[0] if len(conds) == 1 else ast.BoolOp(op=ast.And(), values=list(conds))
        loop_body = fl.body
    else:
        # `for cb in <src>: if <cond>: ...`
        gv = fl.target.id
        src = fl.iter
        X.expect(len(fl.body) == 1 and isinstance(fl.body[0], ast.If) and not fl.body[0].orelse,
                 'run: for loop is neither over a generator expression nor a single guarded body')
        cond = fl.body[0].test
        loop_body = fl.body[0].body
    g.raw('def dispatchSnapshot : Bool := ' + _lbool(_iter_kind(src, 'self.cb', 'run')))
    env = {gv + '.port': 'cbPort', gv + '.port_mask': 'cbPortMask', gv + '.channel': 'cbChan', gv + '.channel_mask': 'cbChanMask',
           pkv + '.port': 'pkPort', pkv + '.channel': 'pkChan'}
    g.raw('def matchExpr (cbPort cbPortMask cbChan cbChanMask pkPort pkChan : Nat) : Bool := ' + _bool_to_lean(cond, env))
    # the callback invocation and its exception handling
    lv = fl.target.id
    want = '%s.callback(%s)' % (lv, pkv)
    tries = [n for st in loop_body for n in ast.walk(st) if isinstance(n, ast.Try)
             and any(isinstance(m, ast.Call) and ast.unparse(m) == want for b in n.body for m in ast.walk(b))]
    ncalls = sum(1 for st in loop_body for m in ast.walk(st) if isinstance(m, ast.Call) and ast.unparse(m) == want)
    X.expect(ncalls == 1, 'run: expected exactly one `%s` in the dispatch loop, found %d' % (want, ncalls))
    catches = False
    if tries:
        X.expect(len(tries) == 1, 'run: nested try blocks around the callback')
        t = tries[0]
        for hd in t.handlers:
            ty = None if hd.type is None else ast.unparse(hd.type)
            if ty in (None, 'Exception', 'BaseException'):
                catches = not _has(hd.body, (ast.Raise, ast.Break, ast.Return))
                break
        catches = catches and not _has(t.finalbody + t.orelse, (ast.Raise, ast.Break, ast.Return))
    g.raw('def dispatchCatches : Bool := ' + _lbool(catches))
    g.raw('def dispatchNoEarlyExit : Bool := ' + _lbool(not _has(fl.body, (ast.Break, ast.Return))))
    # all-packet callbacks run before the port callbacks, unguarded or guarded
    idx_for = wl.body.index(fl)
    allc = [(i, n) for i, st in enumerate(wl.body) for n in ast.walk(st)
            if isinstance(n, ast.Call) and ast.unparse(n.func) == 'self.cf.packet_received.call']
    X.expect(len(allc) == 1 and [ast.unparse(a) for a in allc[0][1].args] == [pkv], 'run: expected one self.cf.packet_received.call(%s)' % pkv)
    g.raw('def allBeforePort : Bool := ' + _lbool(allc[0][0] < idx_for))
    st = wl.body[allc[0][0]]
    g.raw('def allCallGuarded : Bool := ' + _lbool(isinstance(st, ast.Try)))

    # -- Caller
    ctree = X.parse(CB)
    cl = X.find(ctree, 'Caller')
    call = X.find(cl, 'call')
    loops = [n for n in ast.walk(call) if isinstance(n, ast.For)]
    X.expect(len(loops) == 1, 'Caller.call: expected one for loop')
    it = loops[0].iter
    if isinstance(it, ast.Name):
        asg = [n for n in call.body if isinstance(n, ast.Assign) and ast.unparse(n.targets[0]) == it.id]
        X.expect(len(asg) == 1, 'Caller.call: iteration variable %s not assigned once' % it.id)
        it = asg[0].value
    g.raw('def callerCallSnapshot : Bool := ' + _lbool(_iter_kind(it, 'self.callbacks', 'Caller.call')))
    g.raw('def callerCallCatches : Bool := ' + _lbool(_has(loops[0].body, (ast.Try,))))
    g.string('callerCallBody', ast.unparse(loops[0].body[0]) if len(loops[0].body) == 1 else '?')
    add = X.find(cl, 'add_callback')
    ifs = [n for n in add.body if isinstance(n, ast.If)]
    X.expect(len(ifs) == 1 and len(ifs[0].body) == 1 and not ifs[0].orelse, 'Caller.add_callback: expected a single guarded append')
    g.string('callerAddCond', ast.unparse(ifs[0].test))
    g.string('callerAddBody', ast.unparse(ifs[0].body[0]))
    rem = X.find(cl, 'remove_callback')
    stmts = [s for s in rem.body if not (isinstance(s, ast.Expr) and isinstance(s.value, ast.Constant))]
    g.strings('callerRemoveBody', [ast.unparse(s) for s in stmts])
    return {'C07.lean': g.render()}

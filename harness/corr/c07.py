"""C07 - received packets reach exactly the matching callbacks, once, in order.

Tie A: the header->port/channel expressions of CRTPPacket, the match condition of the dispatcher's generator,
the iteration sources (live list vs snapshot) of the dispatch loop / remove_header_callback / Caller.call, the
try/except shape around the port callback, the namedtuple field order, the argument orders and literals of
add/remove_port_callback and the public Crazyflie wrappers are re-extracted into Gen/C07.lean.
Tie B: the real _IncomingPacketHandler.run (driven synchronously, and through a real start()/join() for a
fraction of the cases) fed by a scripted fake link, with real Caller / CRTPPacket objects and instrumented
callbacks that add/remove registrations and raise as scripted, against the Lean model (Driver/C07.lean).
"""
import ast

from harness.lib import extract as X
from harness.lib.common import ExtractError

PID = 'C07'
LEAN_TARGETS = ['CfVerif.Props.C07']
PROPS_MODULES = ['CfVerif.Props.C07']
DRIVER = 'Driver/C07.lean'
REQUIRED_THEOREMS = ['CfVerif.C07.' + t for t in (
    'gen_dispatch_snapshot', 'gen_remove_snapshot', 'gen_dispatch_catches', 'gen_run_shape', 'gen_container',
    'gen_remove_compares', 'gen_params', 'gen_wrappers', 'gen_defaults', 'gen_getters', 'gen_caller',
    'match_iff', 'match_bits', 'port_callback_matches_iff', 'remove_pattern_is_add_pattern',
    'dispatch_calls', 'dispatch_exactly_once', 'not_registered_not_called', 'raise_isolated', 'later_packets_processed',
    'remove_only_that_registration', 'dispatch_after_remove', 'packets_in_order', 'packets_in_order_static',
    'caller_add_no_duplicates', 'caller_remove_only_that', 'caller_call_snapshot',
    'gen_match_captured', 'mutation_isolated', 'live_header_counterexample',
    'gen_every_packet_dispatched', 'no_packet_skipped', 'receive_is_dispatch', 'all_packet_callbacks_get_every_packet',
    'live_dispatch_counterexample', 'live_remove_counterexample')]
TRUSTED = ['harness/corr/c07.py extractor + correspondence + spec twin',
           'Python list semantics as modelled: list(l) is an atomic copy, append/remove(x) act on the first ==-equal element, a list '
           'iterator is an index compared with the current length on every step',
           'namedtuple equality is field-wise equality; callbacks are compared with ==, modelled as equality of ids',
           'a callback body is a finite list of register/unregister/raise actions chosen as an arbitrary function of the history']
ASSUMPTIONS = ['exceptions raised by all-packet callbacks (cf.packet_received) escape run() and end the dispatcher thread: modelled '
               '(Ev.died) and agreed with the code, but outside the wording of C07 (port callbacks); later_packets_processed assumes none raises',
               'registry operations from OTHER threads are modelled between packets (ext ops) and as part of callback bodies, not at '
               'bytecode granularity inside the dispatch loop',
               'callbacks rewriting port/channel of the packet object are modelled (Act.setPort/setChan); rewriting the PAYLOAD in place is not '
               '(it cannot influence the dispatcher); the library itself does so for parameter read replies - recorded as an observation',
               'BaseException subclasses that are not Exception (KeyboardInterrupt, SystemExit) raised by a port callback are not caught by the code; not modelled']
RULE = ('cases = one dispatcher per case: registrations (<= 8 initial, header/port/default-mask/keyword/Crazyflie-wrapper spellings, duplicates '
        'included), per-invocation callback scripts (add / remove self, earlier, later, absent / raise / Caller add, remove) for port and '
        'all-packet callbacks, 1-3 packet batches with operations from outside between batches, run synchronously or through the real '
        'thread; systematic families: every subset of raising callbacks (n <= 5), every (callback i removes registration j) for n <= 4, '
        'registrations added during dispatch, all 256 headers against assorted masks (once more as header-only packets), every header '
        'byte with 0 / 1 / 30 payload bytes against observers of everything, Caller corner cases; every packet carries a payload length '
        'drawn from {0,0,0,1,1,2,7,29,30,30}.  distinct = distinct request '
        'lines; non-trivial = at least one port callback was invoked')

CF = 'cflib/crazyflie/__init__.py'
CB = 'cflib/utils/callbacks.py'
CRTP = 'cflib/crtp/crtpstack.py'


# ---- Tie A ---------------------------------------------------------------------------------------------
def _bool_to_lean(e, env):
    """and/or/not over ==/!= comparisons of integer expressions -> Lean Bool term"""
    if isinstance(e, ast.BoolOp):
        op = ' && ' if isinstance(e.op, ast.And) else ' || '
        return '(' + op.join(_bool_to_lean(v, env) for v in e.values) + ')'
    if isinstance(e, ast.UnaryOp) and isinstance(e.op, ast.Not):
        return '(!' + _bool_to_lean(e.operand, env) + ')'
    if isinstance(e, ast.Compare) and len(e.ops) == 1 and isinstance(e.ops[0], (ast.Eq, ast.NotEq)):
        op = '==' if isinstance(e.ops[0], ast.Eq) else '!='
        return '(%s %s %s)' % (X.expr_to_lean(e.left, env), op, X.expr_to_lean(e.comparators[0], env))
    raise ExtractError('untranslatable condition ' + ast.unparse(e))


def _iter_kind(it, base, where):
    """classify an iteration source: the live list `base` or a snapshot of it"""
    s = ast.unparse(it)
    if s == base:
        return False
    if s in ('list(%s)' % base, 'tuple(%s)' % base, '%s[:]' % base, '%s.copy()' % base, 'copy.copy(%s)' % base,
             'copy(%s)' % base):
        return True
    raise ExtractError('%s: iteration source %r is neither %s nor a recognised copy of it' % (where, s, base))


def _lbool(b):
    return 'true' if b else 'false'


def _has(node_list, types):
    return any(isinstance(n, types) for st in node_list for n in ast.walk(st))


def _bind_call(call, fdef, where):
    """bind the arguments of `call` to the parameters of fdef (skipping self); returns {param: ast expr}"""
    params = [a.arg for a in fdef.args.args][1:]
    defaults = fdef.args.defaults
    dmap = dict(zip(params[len(params) - len(defaults):], defaults))
    X.expect(len(call.args) <= len(params), where + ': too many arguments')
    res = dict(zip(params, call.args))
    for k in call.keywords:
        X.expect(k.arg in params and k.arg not in res, where + ': bad keyword ' + str(k.arg))
        res[k.arg] = k.value
    for p in params:
        if p not in res:
            X.expect(p in dmap, where + ': missing argument ' + p)
            res[p] = dmap[p]
    return res


def _lit(e, where):
    try:
        v = ast.literal_eval(e)
    except Exception:
        raise ExtractError(where + ': expected an integer literal, got ' + ast.unparse(e))
    X.expect(isinstance(v, int) and not isinstance(v, bool) and v >= 0, where + ': expected a natural literal')
    return v


def extract(ctx):
    g = X.GenFile(PID, [CF, CB, CRTP])
    # -- CRTPPacket: header -> port / channel, and the property getters the dispatcher reads
    ptree = X.parse(CRTP)
    pk = X.find(ptree, 'CRTPPacket')
    init = X.find(pk, '__init__')
    cas = {ast.unparse(n.targets[0]): n.value for n in ast.walk(init) if isinstance(n, ast.Assign) and len(n.targets) == 1}
    X.expect('self._port' in cas and 'self._channel' in cas, 'CRTPPacket.__init__: _port/_channel assignments not found')
    hname = init.args.args[1].arg
    g.raw('def crtpPortExpr (h : Nat) : Nat := ' + X.expr_to_lean(cas['self._port'], {hname: 'h'}))
    g.raw('def crtpChanExpr (h : Nat) : Nat := ' + X.expr_to_lean(cas['self._channel'], {hname: 'h'}))
    props = {}
    for n in pk.body:
        if isinstance(n, ast.Assign) and isinstance(n.value, ast.Call) and ast.unparse(n.value.func) == 'property' and n.value.args:
            props[ast.unparse(n.targets[0])] = ast.unparse(n.value.args[0])
    for nm in ('port', 'channel'):
        X.expect(nm in props, 'CRTPPacket.%s property not found' % nm)
        getter = X.find(pk, props[nm])
        rets = [ast.unparse(n.value) for n in ast.walk(getter) if isinstance(n, ast.Return) and n.value is not None]
        X.expect(len(rets) == 1, 'CRTPPacket.%s getter: expected a single return' % nm)
        g.string(nm + 'Getter', rets[0])

    # -- the dispatcher
    tree = X.parse(CF)
    h = X.find(tree, '_IncomingPacketHandler')
    cont = [n for n in tree.body if isinstance(n, ast.Assign) and ast.unparse(n.targets[0]) == '_CallbackContainer']
    X.expect(len(cont) == 1 and isinstance(cont[0].value, ast.Call) and ast.unparse(cont[0].value.func) == 'namedtuple'
             and len(cont[0].value.args) == 2, '_CallbackContainer is no longer a namedtuple(...)')
    fields = ast.literal_eval(cont[0].value.args[1])
    fields = fields.replace(',', ' ').split() if isinstance(fields, str) else list(fields)
    ah = X.find(h, 'add_header_callback')
    ctor = [n for n in ast.walk(ah) if isinstance(n, ast.Call) and ast.unparse(n.func) == '_CallbackContainer']
    X.expect(len(ctor) == 1 and not ctor[0].keywords and len(ctor[0].args) == len(fields),
             'add_header_callback: expected one positional _CallbackContainer(...)')
    app = [n for n in ast.walk(ah) if isinstance(n, ast.Call) and ast.unparse(n.func) == 'self.cb.append']
    X.expect(len(app) == 1 and app[0].args and app[0].args[0] is ctor[0], 'add_header_callback: expected self.cb.append(_CallbackContainer(...))')
    g.strings('containerInit', ['%s=%s' % (f, ast.unparse(a)) for f, a in zip(fields, ctor[0].args)])
    params = [a.arg for a in ah.args.args][1:]
    g.strings('addHeaderParams', params)
    dflt = dict(zip(params[len(params) - len(ah.args.defaults):], ah.args.defaults))
    g.nat('defaultPortMask', _lit(dflt.get('port_mask', ast.Constant(-1)), 'add_header_callback port_mask default'))
    g.nat('defaultChanMask', _lit(dflt.get('channel_mask', ast.Constant(-1)), 'add_header_callback channel_mask default'))

    rh = X.find(h, 'remove_header_callback')
    rparams = [a.arg for a in rh.args.args][1:]
    rdflt = dict(zip(rparams[len(rparams) - len(rh.args.defaults):], rh.args.defaults))
    g.strings('removeHeaderParams', rparams)
    g.nat('removeDefaultPortMask', _lit(rdflt.get('port_mask', ast.Constant(-1)), 'remove_header_callback port_mask default'))
    g.nat('removeDefaultChanMask', _lit(rdflt.get('channel_mask', ast.Constant(-1)), 'remove_header_callback channel_mask default'))
    loops = [n for n in ast.walk(rh) if isinstance(n, ast.For)]
    X.expect(len(loops) == 1 and isinstance(loops[0].target, ast.Name), 'remove_header_callback: expected one for loop')
    lp = loops[0]
    g.raw('def removeSnapshot : Bool := ' + _lbool(_iter_kind(lp.iter, 'self.cb', 'remove_header_callback')))
    X.expect(len(lp.body) == 1 and isinstance(lp.body[0], ast.If) and not lp.body[0].orelse and not lp.orelse,
             'remove_header_callback: loop body is not a single if')
    cond = lp.body[0].test
    v = lp.target.id
    cmps = []
    X.expect(isinstance(cond, ast.BoolOp) and isinstance(cond.op, ast.And), 'remove_header_callback: condition is not a conjunction')
    for c in cond.values:
        X.expect(isinstance(c, ast.Compare) and len(c.ops) == 1 and isinstance(c.ops[0], ast.Eq), 'remove_header_callback: non-== comparison')
        a, b = c.left, c.comparators[0]
        if isinstance(b, ast.Attribute):
            a, b = b, a
        X.expect(isinstance(a, ast.Attribute) and ast.unparse(a.value) == v and isinstance(b, ast.Name),
                 'remove_header_callback: comparison shape changed: ' + ast.unparse(c))
        cmps.append('%s==%s' % (a.attr, b.id))
    g.strings('removeCompares', sorted(cmps))
    body = lp.body[0].body
    X.expect(len(body) == 1, 'remove_header_callback: if body changed')
    g.string('removeBody', ast.unparse(body[0]).replace(v, 'x'))

    for nm, target in (('add_port_callback', ah), ('remove_port_callback', rh)):
        f = X.find(h, nm)
        calls = [n for n in ast.walk(f) if isinstance(n, ast.Call) and ast.unparse(n.func) == 'self.' + target.name]
        X.expect(len(calls) == 1, '%s: expected one call of %s' % (nm, target.name))
        b = _bind_call(calls[0], target, nm)
        pre = 'addPort' if nm.startswith('add') else 'removePort'
        g.strings(pre + 'Pass', ['%s=%s' % (k, ast.unparse(b[k])) for k in ('cb', 'port')])
        g.nat(pre + 'Channel', _lit(b['channel'], nm + ' channel'))
        g.nat(pre + 'PortMask', _lit(b['port_mask'], nm + ' port_mask'))
        g.nat(pre + 'ChanMask', _lit(b['channel_mask'], nm + ' channel_mask'))
        g.strings(pre + 'Params', [a.arg for a in f.args.args][1:])

    # public wrappers on Crazyflie: pure pass-through
    cfc = X.find(tree, 'Crazyflie')
    for nm in ('add_port_callback', 'remove_port_callback', 'add_header_callback', 'remove_header_callback'):
        f = X.find(cfc, nm)
        calls = [n for n in ast.walk(f) if isinstance(n, ast.Call) and ast.unparse(n.func) == 'self.incoming.' + nm]
        X.expect(len(calls) == 1, 'Crazyflie.%s: expected one call of self.incoming.%s' % (nm, nm))
        b = _bind_call(calls[0], X.find(h, nm), 'Crazyflie.' + nm)
        own = [a.arg for a in f.args.args][1:]
        od = dict(zip(own[len(own) - len(f.args.defaults):], f.args.defaults))
        camel = ''.join(w.capitalize() for w in nm.split('_'))
        g.strings('cf' + camel, ['%s=%s' % (k, ast.unparse(b[k])) for k in sorted(b)] +
                  ['default:%s=%d' % (k, _lit(od[k], 'Crazyflie.' + nm)) for k in sorted(od)] + ['params:' + ','.join(own)])

    run = X.find(h, 'run')
    wl = [n for n in run.body if isinstance(n, ast.While)]
    X.expect(len(wl) == 1, '_IncomingPacketHandler.run: expected one while loop')
    wl = wl[0]
    g.string('runLoopCond', ast.unparse(wl.test))
    recv = [n for n in wl.body if isinstance(n, ast.Assign) and isinstance(n.value, ast.Call)
            and ast.unparse(n.value.func).endswith('.receive_packet')]
    X.expect(len(recv) == 1 and isinstance(recv[0].targets[0], ast.Name), 'run: `pk = ...receive_packet(...)` not found')
    pkv = recv[0].targets[0].id
    # the "no packet" test between receive_packet and the callbacks: which packets does it skip?
    i_recv = wl.body.index(recv[0])
    skips = [n for n in wl.body[i_recv + 1:] if isinstance(n, ast.If) and not n.orelse and len(n.body) == 1
             and isinstance(n.body[0], ast.Continue) and pkv in {m.id for m in ast.walk(n.test) if isinstance(m, ast.Name)}]
    X.expect(len(skips) == 1, 'run: expected exactly one `if <test on %s>: continue` after receive_packet' % pkv)
    t = ast.unparse(skips[0].test)
    if t in ('%s is None' % pkv, '%s == None' % pkv, 'None is %s' % pkv):
        skip_none = True
    elif t in ('not %s' % pkv, 'not bool(%s)' % pkv):
        skip_none = False           # skips every falsy object: depends on CRTPPacket.__bool__/__len__
    else:
        raise ExtractError('run: unknown no-packet test %r' % t)
    g.string('recvSkipTest', t.replace(pkv, 'pk'))
    g.raw('def recvSkipIsNone : Bool := ' + _lbool(skip_none))
    # truthiness of a CRTPPacket object: always true unless the class defines __bool__ / __len__
    meths = {n.name: n for n in pk.body if isinstance(n, ast.FunctionDef)}
    X.expect([ast.unparse(b) for b in pk.bases] in ([], ['object']), 'CRTPPacket: base classes changed (truthiness unknown)')
    by_len = False
    if '__bool__' in meths:
        X.expect(skip_none, 'CRTPPacket defines __bool__ and run() tests the truthiness of the packet: not modelled')
    elif '__len__' in meths:
        rets = [ast.unparse(n.value) for n in ast.walk(meths['__len__']) if isinstance(n, ast.Return) and n.value is not None]
        if rets in (['len(self._data)'], ['len(self.data)'], ['self.get_data_size()']):
            by_len = True           # falsy exactly when the payload is empty
        else:
            X.expect(skip_none, 'CRTPPacket.__len__ returns %s and run() tests the truthiness of the packet: not modelled' % rets)
    g.strings('packetTruthinessMethods', sorted(m for m in meths if m in ('__bool__', '__len__')))
    g.raw('def packetTruthyByLen : Bool := ' + _lbool(by_len))
    fors = [n for n in wl.body if isinstance(n, ast.For)]
    X.expect(len(fors) == 1, 'run: expected exactly one top-level for loop over the port callbacks')
    fl = fors[0]
    X.expect(isinstance(fl.target, ast.Name) and not fl.orelse, 'run: for loop shape changed')
    if isinstance(fl.iter, ast.GeneratorExp):
        ge = fl.iter
        X.expect(len(ge.generators) == 1 and isinstance(ge.generators[0].target, ast.Name) and
                 isinstance(ge.elt, ast.Name) and ge.elt.id == ge.generators[0].target.id and not ge.generators[0].is_async,
                 'run: generator expression shape changed')
        gv = ge.generators[0].target.id
        src = ge.generators[0].iter
        conds = ge.generators[0].ifs
        X.expect(len(conds) >= 1, 'run: generator without a match condition')
        cond = conds[0] if len(conds) == 1 else ast.BoolOp(op=ast.And(), values=list(conds))
        loop_body = fl.body
    else:
        # `for cb in <src>: if <cond>: ...`
        gv = fl.target.id
        src = fl.iter
        X.expect(len(fl.body) == 1 and isinstance(fl.body[0], ast.If) and not fl.body[0].orelse,
                 'run: for loop is neither over a generator expression nor a single guarded body')
        cond = fl.body[0].test
        loop_body = fl.body[0].body
    g.raw('def dispatchSnapshot : Bool := ' + _lbool(_iter_kind(src, 'self.cb', 'run')))
    env = {gv + '.port': 'cbPort', gv + '.port_mask': 'cbPortMask', gv + '.channel': 'cbChan', gv + '.channel_mask': 'cbChanMask'}
    # where do the packet's port/channel in the match come from: the live packet object (re-read for every
    # registration, while callbacks hold the same object) or locals read once before any callback ran?
    used_attr = {ast.unparse(n) for n in ast.walk(cond) if isinstance(n, ast.Attribute)} & {pkv + '.port', pkv + '.channel'}
    used_names = {n.id for n in ast.walk(cond) if isinstance(n, ast.Name)} - {gv, pkv}
    first_cb_stmt = min(i for i, st_ in enumerate(wl.body) for n in ast.walk(st_)
                        if isinstance(n, ast.Call) and ast.unparse(n.func) in ('self.cf.packet_received.call',) or st_ is fl)
    captured = {}
    for i, st_ in enumerate(wl.body):
        if isinstance(st_, ast.Assign) and len(st_.targets) == 1 and isinstance(st_.targets[0], ast.Name) \
                and ast.unparse(st_.value) in (pkv + '.port', pkv + '.channel') and i > wl.body.index(recv[0]):
            captured[st_.targets[0].id] = (i, 'pkPort' if ast.unparse(st_.value).endswith('.port') else 'pkChan')
    if used_attr and not used_names:
        env[pkv + '.port'], env[pkv + '.channel'] = 'pkPort', 'pkChan'
        match_captured = False
    elif used_names and not used_attr and all(nm in captured and captured[nm][0] < first_cb_stmt for nm in used_names):
        for nm in used_names:
            env[nm] = captured[nm][1]
            X.expect(sum(1 for n in ast.walk(wl) if isinstance(n, ast.Name) and n.id == nm and isinstance(n.ctx, ast.Store)) == 1,
                     'run: %s is assigned more than once' % nm)
        match_captured = True
    else:
        raise ExtractError('run: match condition mixes live packet fields and locals, or uses locals not read from the packet '
                           'before the first callback: ' + ast.unparse(cond))
    g.raw('def matchCapturedHeader : Bool := ' + _lbool(match_captured))
    g.raw('def matchExpr (cbPort cbPortMask cbChan cbChanMask pkPort pkChan : Nat) : Bool := ' + _bool_to_lean(cond, env))
    # the callback invocation and its exception handling
    lv = fl.target.id
    want = '%s.callback(%s)' % (lv, pkv)
    tries = [n for st in loop_body for n in ast.walk(st) if isinstance(n, ast.Try)
             and any(isinstance(m, ast.Call) and ast.unparse(m) == want for b in n.body for m in ast.walk(b))]
    ncalls = sum(1 for st in loop_body for m in ast.walk(st) if isinstance(m, ast.Call) and ast.unparse(m) == want)
    X.expect(ncalls == 1, 'run: expected exactly one `%s` in the dispatch loop, found %d' % (want, ncalls))
    catches = False
    if tries:
        X.expect(len(tries) == 1, 'run: nested try blocks around the callback')
        t = tries[0]
        for hd in t.handlers:
            ty = None if hd.type is None else ast.unparse(hd.type)
            if ty in (None, 'Exception', 'BaseException'):
                catches = not _has(hd.body, (ast.Raise, ast.Break, ast.Return))
                break
        catches = catches and not _has(t.finalbody + t.orelse, (ast.Raise, ast.Break, ast.Return))
    g.raw('def dispatchCatches : Bool := ' + _lbool(catches))
    g.raw('def dispatchNoEarlyExit : Bool := ' + _lbool(not _has(fl.body, (ast.Break, ast.Return))))
    # all-packet callbacks run before the port callbacks, unguarded or guarded
    idx_for = wl.body.index(fl)
    allc = [(i, n) for i, st in enumerate(wl.body) for n in ast.walk(st)
            if isinstance(n, ast.Call) and ast.unparse(n.func) == 'self.cf.packet_received.call']
    X.expect(len(allc) == 1 and [ast.unparse(a) for a in allc[0][1].args] == [pkv], 'run: expected one self.cf.packet_received.call(%s)' % pkv)
    g.raw('def allBeforePort : Bool := ' + _lbool(allc[0][0] < idx_for))
    st = wl.body[allc[0][0]]
    g.raw('def allCallGuarded : Bool := ' + _lbool(isinstance(st, ast.Try)))

    # -- Caller
    ctree = X.parse(CB)
    cl = X.find(ctree, 'Caller')
    call = X.find(cl, 'call')
    loops = [n for n in ast.walk(call) if isinstance(n, ast.For)]
    X.expect(len(loops) == 1, 'Caller.call: expected one for loop')
    it = loops[0].iter
    if isinstance(it, ast.Name):
        asg = [n for n in call.body if isinstance(n, ast.Assign) and ast.unparse(n.targets[0]) == it.id]
        X.expect(len(asg) == 1, 'Caller.call: iteration variable %s not assigned once' % it.id)
        it = asg[0].value
    g.raw('def callerCallSnapshot : Bool := ' + _lbool(_iter_kind(it, 'self.callbacks', 'Caller.call')))
    g.raw('def callerCallCatches : Bool := ' + _lbool(_has(loops[0].body, (ast.Try,))))
    g.string('callerCallBody', ast.unparse(loops[0].body[0]) if len(loops[0].body) == 1 else '?')
    add = X.find(cl, 'add_callback')
    ifs = [n for n in add.body if isinstance(n, ast.If)]
    X.expect(len(ifs) == 1 and len(ifs[0].body) == 1 and not ifs[0].orelse, 'Caller.add_callback: expected a single guarded append')
    g.string('callerAddCond', ast.unparse(ifs[0].test))
    g.string('callerAddBody', ast.unparse(ifs[0].body[0]))
    rem = X.find(cl, 'remove_callback')
    stmts = [s for s in rem.body if not (isinstance(s, ast.Expr) and isinstance(s.value, ast.Constant))]
    g.strings('callerRemoveBody', [ast.unparse(s) for s in stmts])
    return {'C07.lean': g.render()}


# ---- the real code under a scripted fake link ------------------------------------------------------------
class _Stop(BaseException):
    """raised by the fake link when the scripted packets are used up (synchronous mode)"""


class Scripted(Exception):
    """raised by a scripted callback"""


def act_token(a):
    """the Lean-side spelling of an action"""
    if a[0] in ('a', 'r'):
        _, how, port, pm, ch, cm, cb = a
        if how.endswith('default'):
            return '%sd:%d:%d:%d' % (a[0], cb, port, ch)
        if how.endswith('port'):
            return '%sp:%d:%d' % (a[0], port, cb)
        return '%s:%d:%d:%d:%d:%d' % (a[0], port, pm, ch, cm, cb)
    if a[0] in ('A', 'R'):
        return '%s:%d' % (a[0], a[1])
    if a[0] == 'hp':
        return 'hp:%d' % a[1]
    if a[0] == 'hc':
        return 'hc:%d' % a[1]
    if a[0] == 'hh':                       # pk.set_header(port, channel)
        return 'hp:%d,hc:%d' % (a[1], a[2])
    return 'x'


def pk_pair(x):
    """a packet of a case: (header byte, payload length); a bare int means one payload byte"""
    return (x, 1) if isinstance(x, int) else (int(x[0]), int(x[1]))


PAYLOAD_LENS = [0, 0, 0, 1, 1, 2, 7, 29, 30, 30]


def with_payloads(case, rng, all_len=None):
    """give every packet of the case a payload length (header-only packets, 1 byte, ... the 30-byte maximum)"""
    ops = []
    for op in case['ops']:
        if op[0] == 'pkts':
            op = ('pkts', [x if not isinstance(x, int) else (x, all_len if all_len is not None else rng.choice(PAYLOAD_LENS))
                           for x in op[1]])
        ops.append(op)
    c = dict(case)
    c['ops'] = ops
    return c


def case_lines(case):
    lines = ['reset']
    for op in case['ops']:
        if op[0] == 'beh':
            lines.append('beh %d %d %s' % (op[1], op[2], ','.join(act_token(a) for a in op[3]) or '-'))
        elif op[0] == 'ext':
            lines.append('ext ' + act_token(op[1]))
        else:
            lines.append('pkts ' + ','.join('%d/%d' % pk_pair(x) for x in op[1]))
    return lines


class RealEnv:
    """One _IncomingPacketHandler with a stub Crazyflie (real Caller, real public wrapper methods), a scripted
    link and instrumented callbacks.  mode 'sync': run() is called in the caller's thread and ends by _Stop;
    mode 'thread': the real thread is started; the link blocks it on a condition variable between batches."""

    def __init__(self, mode='sync', trace_ops=False):
        import logging
        import threading
        import cflib.crazyflie as cfmod
        from cflib.utils.callbacks import Caller
        from cflib.crtp.crtpstack import CRTPPacket
        self.CRTPPacket = CRTPPacket
        self.mode = mode
        self.trace_ops = trace_ops
        self.log = []
        self.tbl = {}
        self.count = {}
        self.cbs = {}
        self.cur = None
        self.dead = False
        self.queue = []
        self.cond = threading.Condition()
        self.waiting = False
        self.stop = False
        self.finished = False
        env = self

        class Link:
            def receive_packet(self, wait=0):
                if env.mode == 'sync':
                    if not env.queue:
                        raise _Stop()
                else:
                    with env.cond:
                        while not env.queue:
                            if env.stop:
                                raise SystemExit()      # ends the thread silently
                            env.waiting = True
                            env.cond.notify_all()
                            env.cond.wait()
                        env.waiting = False
                h, pk = env.queue.pop(0)
                env.cur = pk
                env.log.append('P%d' % h)
                return pk

        class StubCf:
            add_port_callback = cfmod.Crazyflie.add_port_callback
            remove_port_callback = cfmod.Crazyflie.remove_port_callback
            add_header_callback = cfmod.Crazyflie.add_header_callback
            remove_header_callback = cfmod.Crazyflie.remove_header_callback

        self.cf = StubCf()
        self.cf.link = Link()
        self.cf.packet_received = Caller()
        self.h = cfmod._IncomingPacketHandler(self.cf)
        self.h.daemon = True
        self.cf.incoming = self.h
        # the dispatcher reports a caught callback exception through its module logger
        self.logger = logging.getLogger(cfmod.__name__)
        self.handler = logging.Handler(level=logging.ERROR)
        self.handler.emit = lambda rec: env.log.append('L')
        self.saved = (self.logger.level, self.logger.propagate, list(self.logger.handlers))
        self.logger.handlers = [self.handler]
        self.logger.propagate = False
        self.logger.setLevel(logging.ERROR)
        if mode == 'thread':
            real_run = self.h.run

            def guarded_run():
                try:
                    real_run()
                except Exception:
                    env.log.append('D')
                    env.dead = True
                finally:
                    with env.cond:
                        env.finished = True
                        env.cond.notify_all()
            self.h.run = guarded_run      # instance attribute: Thread._bootstrap_inner calls self.run()
            self.started = False

    def close(self):
        if self.mode == 'thread' and self.started:
            with self.cond:
                self.stop = True
                self.cond.notify_all()
            self.h.join()
        self.logger.setLevel(self.saved[0])
        self.logger.propagate = self.saved[1]
        self.logger.handlers = self.saved[2]

    def cb(self, cid):
        if cid not in self.cbs:
            env = self

            def f(pk, cid=cid):
                k = env.count.get(cid, 0)
                env.count[cid] = k + 1
                env.log.append(('a' if cid >= 100 else 'c') + str(cid))
                if pk is not env.cur:
                    env.log.append('WRONG-PACKET')
                for a in env.tbl.get((cid, k), ()):
                    env.do(a)
            self.cbs[cid] = f
        return self.cbs[cid]

    def do(self, a):
        if a[0] == 'x':
            self.log.append('!')
            raise Scripted()
        if a[0] in ('hp', 'hc', 'hh'):          # the callback rewrites the packet object it was given
            if a[0] == 'hp':
                self.cur.port = a[1]
            elif a[0] == 'hc':
                self.cur.channel = a[1]
            else:
                self.cur.set_header(a[1], a[2])
            if self.trace_ops:
                self.log.append('M')
            return
        if a[0] == 'A':
            self.cf.packet_received.add_callback(self.cb(a[1]))
            if self.trace_ops:
                self.log.append('A+%d' % a[1])
            return
        if a[0] == 'R':
            try:
                self.cf.packet_received.remove_callback(self.cb(a[1]))
            except ValueError:
                self.log.append('!')
                raise
            if self.trace_ops:
                self.log.append('A-%d' % a[1])
            return
        kind, how, port, pm, ch, cm, cid = a
        tgt = self.cf if how.startswith('cf-') else self.h
        how = how[3:] if how.startswith('cf-') else how
        name = ('add_' if kind == 'a' else 'remove_') + ('port_callback' if how == 'port' else 'header_callback')
        f = getattr(tgt, name)
        c = self.cb(cid)
        if how == 'port':
            f(port, c)
        elif how == 'default':
            f(c, port, ch)
        elif how == 'kw':
            f(cb=c, port=port, channel=ch, channel_mask=cm, port_mask=pm)
        else:
            f(c, port, ch, pm, cm)
        if self.trace_ops:
            self.log.append('%s%d:%d:%d:%d:%d' % ('+' if kind == 'a' else '-', port, pm, ch, cm, cid))

    def feed(self, hdrs):
        n0 = len(self.log)
        if self.dead or self.finished:
            return 'ok -'
        pks = []
        for h, n in map(pk_pair, hdrs):
            pk = self.CRTPPacket(h, bytes((h + i) & 0xFF for i in range(n)))
            assert len(pk.data) == n and pk.port == h >> 4, 'harness: packet construction'
            pks.append((h, pk))
        if self.mode == 'sync':
            self.queue.extend(pks)
            try:
                self.h.run()
            except _Stop:
                pass
            except Exception:
                self.log.append('D')
                self.dead = True
        else:
            with self.cond:
                self.queue.extend(pks)
                if not self.started:
                    self.started = True
                    self.h.start()
                self.cond.notify_all()
                while not (self.finished or (self.waiting and not self.queue)):
                    self.cond.wait()
            if not self.finished and not self.h.is_alive():
                self.log.append('THREAD-NOT-ALIVE')
        out = self.log[n0:]
        return 'ok ' + (' '.join(out) if out else '-')


def real_case(case, trace_ops=False):
    """replies of the real code to the ext/pkts ops of a case (None for beh ops)"""
    env = RealEnv(case.get('mode', 'sync'), trace_ops)
    res = [None]
    try:
        for op in case['ops']:
            if op[0] == 'beh':
                env.tbl[(op[1], op[2])] = list(op[3])
                res.append(None)
            elif op[0] == 'ext':
                n0 = len(env.log)
                try:
                    env.do(op[1])
                    res.append('ok')
                except ValueError:
                    res.append('err value_error')
                if trace_ops:
                    res[-1] += ' ' + ' '.join(t for t in env.log[n0:] if t != '!')
                del env.log[n0:]
            else:
                res.append(env.feed(op[1]))
    finally:
        env.close()
    return res


# ---- case generation --------------------------------------------------------------------------------------
PMASKS = [0xFF, 0xFF, 0xFF, 0x0F, 0xF0, 0x00, 0x08, 0x0C, 0x01, 0x07, 0x1F]
CMASKS = [0xFF, 0xFF, 0x03, 0x00, 0x01, 0x02, 0xFC]
HOWS_FULL = ['full', 'full', 'kw', 'cf-full']


def mk_reg_act(kind, how, port, pm, ch, cm, cb):
    """normalise: the tuple always carries the effective five fields"""
    if how.endswith('port'):
        pm, ch, cm = 0xFF, 0, 0
    elif how.endswith('default'):
        pm, cm = 0xFF, 0xFF
    return (kind, how, port, pm, ch, cm, cb)


def how_for(rng, pm, ch, cm):
    """a way of spelling the call that denotes exactly these fields"""
    opts = list(HOWS_FULL)
    if (pm, ch, cm) == (0xFF, 0, 0):
        opts += ['port', 'port', 'cf-port']
    if (pm, cm) == (0xFF, 0xFF):
        opts += ['default', 'cf-default']
    return rng.choice(opts)


def rand_fields(rng, hot):
    r = rng.random()
    if r < 0.35:
        return (rng.choice(hot), 0xFF, 0, 0)                   # a port callback
    port = rng.choice(hot) if rng.random() < 0.7 else rng.choice([rng.randrange(16), rng.randrange(16), 0xFF, 16, 0x90])
    pm = rng.choice(PMASKS)
    if rng.random() < 0.75:
        port &= pm
    ch = rng.randrange(4)
    cm = rng.choice(CMASKS)
    if rng.random() < 0.75:
        ch &= cm
    return (port, pm, ch, cm)


def rand_hdr(rng, hot):
    if rng.random() < 0.8:
        return (rng.choice(hot) << 4) | rng.randrange(16)
    return rng.randrange(256)


def gen_random_case(rng, big=False):
    hot = [rng.randrange(16) for _ in range(rng.choice([1, 1, 2, 3]))]
    ops = []
    regs = []                                  # the registrations mentioned so far (five fields + cb)
    ncb = rng.choice([2, 3, 5, 8])
    for _ in range(rng.randrange(0, 9)):
        if regs and rng.random() < 0.12:
            f = rng.choice(regs)               # an exact duplicate
        else:
            f = rand_fields(rng, hot) + (rng.randrange(1, ncb + 1),)
        regs.append(f)
        ops.append(('ext', mk_reg_act('a', how_for(rng, f[1], f[2], f[3]), f[0], f[1], f[2], f[3], f[4])))
    alls = [100 + i for i in range(rng.choice([0, 0, 1, 2]))]
    for c in alls:
        ops.append(('ext', ('A', c)))

    def rand_act(owner_pos=None):
        r = rng.random()
        if r < 0.40 and regs:
            if isinstance(owner_pos, int) and rng.random() < 0.6:
                kind = rng.choice(['self', 'earlier', 'later'])
                if kind == 'self':
                    f = regs[owner_pos]
                elif kind == 'earlier':
                    f = regs[rng.randrange(0, owner_pos + 1)]
                else:
                    f = regs[rng.randrange(owner_pos, len(regs))]
            else:
                f = rng.choice(regs)
            if rng.random() < 0.08:
                f = (f[0], f[1] ^ 1, f[2], f[3], f[4])       # near miss: removes nothing
            return mk_reg_act('r', how_for(rng, f[1], f[2], f[3]), *f)
        if r < 0.70:
            if regs and rng.random() < 0.25:
                f = rng.choice(regs)
            else:
                f = rand_fields(rng, hot) + (rng.randrange(1, ncb + 1),)
                regs.append(f)
            return mk_reg_act('a', how_for(rng, f[1], f[2], f[3]), *f)
        if r < 0.80:
            return ('x',)
        if r < 0.88 and owner_pos != 'ext':
            k = rng.random()
            tgt = rng.choice(hot) if rng.random() < 0.6 else rng.randrange(16)
            return ('hp', tgt) if k < 0.35 else ('hc', rng.randrange(4)) if k < 0.6 else ('hh', tgt, rng.randrange(4))
        if r < 0.94:
            return ('A', 100 + rng.randrange(3))
        return ('R', 100 + rng.randrange(3))

    nbeh = rng.choice([0, 1, 2, 3, 5, 8]) if not big else rng.randrange(4, 14)
    seen = set()
    for _ in range(nbeh):
        if regs and rng.random() < 0.85:
            pos = rng.randrange(len(regs))
            cid = regs[pos][4]
        else:
            pos, cid = None, rng.choice(alls) if alls else 100
        k = rng.choice([0, 0, 0, 1, 1, 2])
        if (cid, k) in seen:
            continue
        seen.add((cid, k))
        acts = [rand_act(pos) for _ in range(rng.choice([1, 1, 1, 2, 3]))]
        if cid >= 100:
            acts = [a for a in acts if a[0] != 'x' or rng.random() < 0.3]     # a raising all-packet callback ends the thread
        ops.append(('beh', cid, k, acts))
    for b in range(rng.choice([1, 1, 2, 3])):
        if b and rng.random() < 0.5:
            ops.append(('ext', rand_act('ext') if rng.random() < 0.8 else ('R', 100 + rng.randrange(3))))
            if ops[-1][1][0] in ('x', 'hp', 'hc', 'hh'):
                ops.pop()
        ops.append(('pkts', [rand_hdr(rng, hot) for _ in range(rng.choice([1, 1, 2, 3, 4]))]))
    return {'mode': 'thread' if rng.random() < 0.15 else 'sync', 'ops': ops, 'family': 'random'}


def gen_families(rng, thorough):
    cases = []
    # F1: n registrations on one port, every subset of them raising; a second packet shows processing goes on
    for n in range(1, 6 if thorough else 5):
        for mask in range(1 << n):
            port = rng.randrange(16)
            ops = [('ext', mk_reg_act('a', rng.choice(['port', 'full', 'cf-port']), port, 0xFF, 0, 0, i + 1)) for i in range(n)]
            ops += [('beh', i + 1, 0, [('x',)]) for i in range(n) if (mask >> i) & 1]
            ops.append(('pkts', [(port << 4) | rng.randrange(16), (port << 4) | rng.randrange(16)]))
            cases.append({'mode': 'sync', 'ops': ops, 'family': 'raise-subsets'})
    # F2: callback i removes registration j / adds a registration, for all i, j
    for n in (2, 3, 4):
        for i in range(n):
            for j in range(n):
                for variant in ('remove', 'remove+raise', 'remove+add'):
                    port = rng.randrange(16)
                    ops = [('ext', mk_reg_act('a', 'port', port, 0xFF, 0, 0, k + 1)) for k in range(n)]
                    acts = [mk_reg_act('r', rng.choice(['port', 'full', 'cf-port']), port, 0xFF, 0, 0, j + 1)]
                    if variant == 'remove+raise':
                        acts.append(('x',))
                    if variant == 'remove+add':
                        acts.append(mk_reg_act('a', 'port', port, 0xFF, 0, 0, n + 1))
                    ops.append(('beh', i + 1, 0, acts))
                    ops.append(('pkts', [port << 4, (port << 4) | 3]))
                    cases.append({'mode': 'sync', 'ops': ops, 'family': 'remove-%s' % ('self' if i == j else 'earlier' if j < i else 'later')})
            port = rng.randrange(16)
            ops = [('ext', mk_reg_act('a', 'port', port, 0xFF, 0, 0, k + 1)) for k in range(n)]
            ops.append(('beh', i + 1, 0, [mk_reg_act('a', 'port', port, 0xFF, 0, 0, rng.choice([i + 1, n + 1]))]))
            ops.append(('pkts', [port << 4, port << 4]))
            cases.append({'mode': 'sync', 'ops': ops, 'family': 'add-during'})
    # F2b: callback i rewrites the header of the packet it was given (to another registered port / channel)
    for n in (2, 3, 4):
        for i in range(n):
            for how in ('hh', 'hp', 'hc'):
                pa, pb = rng.sample(range(16), 2)
                ops = [('ext', mk_reg_act('a', 'port', pa, 0xFF, 0, 0, k + 1)) for k in range(n)]
                ops.append(('ext', mk_reg_act('a', 'port', pb, 0xFF, 0, 0, n + 1)))
                ops.append(('ext', mk_reg_act('a', 'full', pa, 0xFF, 1, 0xFF, n + 2)))
                act = ('hh', pb, 1) if how == 'hh' else ('hp', pb) if how == 'hp' else ('hc', 1)
                ops.append(('beh', i + 1, 0, [act]))
                ops.append(('pkts', [pa << 4, (pa << 4) | 1, pb << 4]))
                cases.append({'mode': 'sync', 'ops': ops, 'family': 'mutate-header'})
    for c in (100,):
        pa, pb = rng.sample(range(16), 2)
        ops = [('ext', ('A', c)), ('ext', mk_reg_act('a', 'port', pa, 0xFF, 0, 0, 1)), ('ext', mk_reg_act('a', 'port', pb, 0xFF, 0, 0, 2)),
               ('beh', c, 0, [('hh', pb, 0)]), ('pkts', [pa << 4, pa << 4])]
        cases.append({'mode': 'sync', 'ops': ops, 'family': 'mutate-header'})
    # F3: all 256 headers against small registries with assorted masks
    for _ in range(24 if thorough else 6):
        hot = [rng.randrange(16), rng.randrange(16)]
        ops = []
        for k in range(rng.choice([1, 2, 3])):
            f = rand_fields(rng, hot)
            ops.append(('ext', mk_reg_act('a', how_for(rng, f[1], f[2], f[3]), f[0], f[1], f[2], f[3], k + 1)))
        ops.append(('pkts', list(range(256))))
        cases.append({'mode': 'sync', 'ops': ops, 'family': 'all-headers'})
    # F4: all-packet callbacks and the port registry; Caller corner cases
    for port in (rng.randrange(16),):
        h = port << 4
        P = lambda cid: mk_reg_act('a', 'port', port, 0xFF, 0, 0, cid)
        R = lambda cid: mk_reg_act('r', 'port', port, 0xFF, 0, 0, cid)
        fam = [
            [('ext', ('A', 100)), ('beh', 100, 0, [P(1)]), ('pkts', [h, h])],                    # registered for this very packet
            [('ext', ('A', 100)), ('ext', P(1)), ('beh', 100, 0, [R(1)]), ('pkts', [h, h])],
            [('ext', ('A', 100)), ('ext', ('A', 101)), ('ext', P(1)), ('beh', 100, 1, [('x',)]), ('pkts', [h, h, h]), ('pkts', [h])],
            [('ext', ('A', 100)), ('ext', ('A', 100)), ('ext', ('A', 101)), ('pkts', [h])],       # no duplicates in Caller
            [('ext', ('A', 100)), ('ext', ('A', 101)), ('ext', ('A', 102)), ('beh', 100, 0, [('R', 100)]), ('pkts', [h, h])],
            [('ext', ('A', 100)), ('ext', ('A', 101)), ('beh', 100, 0, [('R', 101)]), ('pkts', [h, h])],   # copy: 101 still called once
            [('ext', ('A', 100)), ('beh', 100, 0, [('A', 101)]), ('pkts', [h, h])],
            [('ext', ('A', 100)), ('beh', 100, 0, [('R', 102)]), ('pkts', [h, h])],               # ValueError kills the thread
            [('ext', ('R', 100))],
            [('ext', P(1)), ('beh', 1, 0, [('R', 100)]), ('ext', P(2)), ('pkts', [h, h])],         # ValueError in a port callback is caught
            [('ext', P(1)), ('ext', P(1)), ('ext', P(2)), ('ext', R(1)), ('pkts', [h])],           # duplicates: remove takes all copies
            [('ext', P(1)), ('ext', P(1)), ('ext', P(2)), ('ext', P(1)), ('beh', 2, 0, [R(1)]), ('pkts', [h, h])],
        ]
        for ops in fam:
            for mode in ('sync', 'thread'):
                cases.append({'mode': mode, 'ops': ops, 'family': 'caller-and-all'})
    return cases


def gen_cases(ctx):
    rng = ctx.rng
    thorough = ctx.tier == 'thorough'
    cases = load_corpus() + gen_families(rng, thorough)
    for _ in range(50000 if thorough else 5000):
        cases.append(gen_random_case(rng, big=rng.random() < 0.2))
    out = []
    for c in cases:
        if c['family'] == 'all-headers':
            out.append(with_payloads(c, rng, all_len=0))       # header-only packets on all 256 headers
        out.append(with_payloads(c, rng))
    # every header byte as a header-only packet, a 1-byte and a 30-byte packet, against observers of everything
    for n in (0, 1, 30):
        ops = [('ext', ('A', 100)), ('ext', mk_reg_act('a', 'full', 0, 0, 0, 0, 1))]
        ops += [('ext', mk_reg_act('a', 'port', p, 0xFF, 0, 0, 2 + p)) for p in range(16)]
        ops.append(('pkts', [(h, n) for h in range(256)]))
        out.append({'mode': 'thread' if n == 0 else 'sync', 'ops': ops, 'family': 'payload-%d-all-headers' % n})
    return out


def load_corpus():
    import glob
    import json
    import os
    res = []
    d = os.path.join(os.path.dirname(os.path.dirname(os.path.abspath(__file__))), 'corpus', 'c07')
    for f in sorted(glob.glob(os.path.join(d, '*.json'))):
        j = json.load(open(f))
        for c in j.get('cases', []):
            c = dict(c)
            c['ops'] = [_untuple(op) for op in c['ops']]
            c.setdefault('family', 'corpus')
            res.append(c)
    return res


def _untuple(op):
    if op[0] == 'beh':
        return ('beh', op[1], op[2], [tuple(a) for a in op[3]])
    if op[0] == 'ext':
        return ('ext', tuple(op[1]))
    return ('pkts', [x if isinstance(x, int) else tuple(x) for x in op[1]])


def correspond(ctx):
    cases = gen_cases(ctx)
    lines = []
    for c in cases:
        lines += case_lines(c)
    replies = ctx.lean(DRIVER, lines)
    # the same cases under the pre-fix (live iteration) model: how many cases tell the two disciplines apart
    lines_live = []
    for c in cases:
        cl = case_lines(c)
        lines_live += [cl[0], 'mode original'] + cl[1:]
    replies_live = ctx.lean(DRIVER, lines_live)
    pos = 0
    pos_live = 0
    for c in cases:
        cl = case_lines(c)
        model = replies[pos:pos + len(cl)]
        pos += len(cl)
        live = replies_live[pos_live:pos_live + len(cl) + 1]
        pos_live += len(cl) + 1
        if [live[0]] + live[2:] != model:
            ctx.count('cases-distinguishing-live-from-snapshot-iteration')
        real = real_case(c)
        ctx.count('family:' + c['family'])
        ctx.count('mode:' + c.get('mode', 'sync'))
        bad = None
        interesting = False
        for line, m, r in zip(cl, model, real):
            if r is None:
                if m != 'ok':
                    bad = (line, m, 'ok')
                continue
            if line.startswith('ext'):
                ctx.count('ext:' + r)
            else:
                toks = r.split(' ')[1:]
                ctx.count('packets', sum(1 for t in toks if t[0] == 'P'))
                ctx.count('port-calls', sum(1 for t in toks if t[0] == 'c'))
                ctx.count('all-calls', sum(1 for t in toks if t[0] == 'a'))
                ctx.count('raised', toks.count('!'))
                ctx.count('logged-errors', toks.count('L'))
                ctx.count('thread-died', toks.count('D'))
                if any(t[0] == 'c' for t in toks):
                    interesting = True
                # per packet: how many port callbacks ran, was a raise followed by further deliveries
                seg = []
                for t in toks + ['P']:
                    if t[0] == 'P':
                        if seg or t != toks[0]:
                            n = sum(1 for x in seg if x[0] == 'c')
                            ctx.count('dispatch:%s-calls' % ('0' if n == 0 else '1' if n == 1 else '2-3' if n <= 3 else '4+'))
                            if 'L' in seg and any(x[0] == 'c' for x in seg[seg.index('L'):]):
                                ctx.count('dispatch:delivery-after-a-raise')
                        seg = []
                    else:
                        seg.append(t)
            if m != r and bad is None:
                bad = (line, m, r)
        for op in c['ops']:
            if op[0] == 'beh':
                for a in op[3]:
                    ctx.count('act-in-callback:' + a[0])
            elif op[0] == 'pkts':
                for x in op[1]:
                    n = pk_pair(x)[1]
                    ctx.count('payload:%s' % ('0' if n == 0 else '1' if n == 1 else '30' if n == 30 else 'other'))
        ctx.case({'family': c['family'], 'mode': c.get('mode', 'sync'), 'ops': cl[1:8]}, tuple(cl) if interesting else None)
        if bad:
            ctx.disagree('dispatch:' + c['family'], {'lines': cl, 'at': bad[0]}, bad[1][:400], bad[2][:400])


# ---- direct evaluation of the property on the real code (failing-input search) -------------------------
def spec_match(f, h):
    """independent matcher: CRTP header byte = port nibble, two reserved bits, two channel bits"""
    return f[0] == ((h >> 4) & f[1]) and f[2] == ((h & 3) & f[3])


def is_subsequence(a, b):
    it = iter(b)
    return all(any(x == y for y in it) for x in a)


def spec_eval(case):
    """Python twin of Spec/C07 (SpecHolds per dispatch + arrival order + liveness + Caller.call over a copy),
    evaluated on the REAL code's observable trace.  The case must use one callback id per registration and must
    not contain raising all-packet callbacks.  Returns a list of (key, what, detail)."""
    replies = real_case(case, trace_ops=True)
    bad = []
    regs = []            # spec-level registry: added and not since removed
    alls = []
    fed = []
    fedlen = []
    toks = []

    def apply_op(t):
        nonlocal regs
        if t.startswith('A+'):
            c = int(t[2:])
            if c not in alls:
                alls.append(c)
        elif t.startswith('A-'):
            alls.remove(int(t[2:]))
        elif t[0] == '+':
            regs.append(tuple(int(x) for x in t[1:].split(':')))
        elif t[0] == '-':
            f = tuple(int(x) for x in t[1:].split(':'))
            regs = [r for r in regs if r != f]

    class Disp:
        pass
    cur = None

    def close():
        d = cur
        if d is None:
            return
        h = d.h
        if d.r0 is None:
            d.r0 = list(regs)     # nobody was called: no port callback body ran, the registry is still the one at the start
        if not d.allcalls and not d.calls and (d.a0 or any(spec_match(r, h) for r in d.r0)):
            bad.append(('packet-dropped', 'the packet with header %d and %d payload bytes was taken from the link and passed to no callback '
                        'at all (all-packet callbacks registered: %s, matching registrations: %s)'
                        % (h, d.n, d.a0, [r for r in d.r0 if spec_match(r, h)]), h))
            return
        if d.allcalls != d.a0:
            bad.append(('caller-copy', 'all-packet callbacks invoked %s, registered at the start of the call %s' % (d.allcalls, d.a0), h))
        for r in d.r0:
            if r in d.removed:
                continue          # loose: removed during this dispatch
            want = 1 if spec_match(r, h) else 0
            got = d.calls.count(r)
            if got != want:
                if d.mutated and got != want and got <= 1:
                    bad.append(('D71-live-header-match', 'registration %s %s the header %d as received and was called %d times after a '
                                'callback rewrote port/channel of the packet object during its dispatch' %
                                (r, 'matches' if want else 'does not match', h, got), h))
                elif want == 1 and got == 0 and d.removed and not d.raised:
                    bad.append(('D7-live-iteration-skip', 'registration %s matches header %d, was registered before and throughout the '
                                'dispatch, and did not get the packet after a callback unregistered %s' % (r, h, sorted(d.removed)), h))
                elif want == 1 and got == 0:
                    bad.append(('missed-delivery', 'registration %s matches header %d and did not get the packet' % (r, h), h))
                elif want == 0:
                    bad.append(('non-matching-called', 'registration %s does not match header %d and was called' % (r, h), h))
                else:
                    bad.append(('delivered-twice', 'registration %s got the packet %d times' % (r, got), h))
        for r in set(d.calls):
            if d.mutated and not spec_match(r, h) and r not in d.r0:
                bad.append(('D71-live-header-match', 'registration %s does not match the header %d as received and was called after a '
                            'callback rewrote port/channel of the packet object' % (r, h), h))
                continue
            if d.calls.count(r) > 1:
                bad.append(('delivered-twice', 'registration %s got the packet %d times' % (r, d.calls.count(r)), h))
            if not spec_match(r, h):
                bad.append(('non-matching-called', 'registration %s does not match header %d and was called' % (r, h), h))
            if r not in d.r0 and r not in d.added:
                bad.append(('unregistered-called', 'registration %s is not registered and was called' % (r,), h))
        if not is_subsequence([r for r in d.calls if r in d.r0], d.r0):
            bad.append(('out-of-order', 'calls %s not in registration order %s' % (d.calls, d.r0), h))

    owner = {}
    for op in case['ops']:
        acts = op[3] if op[0] == 'beh' else [op[1]] if op[0] == 'ext' else []
        for a in acts:
            if a[0] == 'a':
                owner.setdefault(a[6], set()).add(tuple(a[2:7]))
    for op, rep in zip(case['ops'], replies[1:]):
        if op[0] == 'beh':
            continue
        if op[0] == 'ext':
            for t in rep.split(' ')[1:]:
                apply_op(t)
            continue
        fed += [pk_pair(x)[0] for x in op[1]]
        fedlen += [pk_pair(x)[1] for x in op[1]]
        for t in rep.split(' ')[1:]:
            toks.append(t)
            if t == '-':
                continue
            if t[0] == 'P':
                close()
                cur = Disp()
                cur.h, cur.a0, cur.r0 = int(t[1:]), list(alls), None
                npk = sum(1 for x in toks if x[0] == 'P')
                cur.n = fedlen[npk - 1] if npk <= len(fedlen) else -1
                cur.allcalls, cur.calls, cur.removed, cur.added, cur.raised, cur.mutated = [], [], set(), [], False, False
            elif cur is None:
                bad.append(('event-without-packet', t, None))
            elif t == 'D':
                bad.append(('dispatcher-died', 'an exception escaped run()', cur.h))
            elif t == 'WRONG-PACKET':
                bad.append(('wrong-packet', 'callback received an object that is not the packet being dispatched', cur.h))
            elif t == 'THREAD-NOT-ALIVE':
                bad.append(('dispatcher-died', 'dispatcher thread not alive', cur.h))
            elif t in ('!', 'L'):
                cur.raised = True
            elif t == 'M':
                cur.mutated = True
            elif t[0] == 'A':
                apply_op(t)
            elif t[0] == 'a':
                cur.allcalls.append(int(t[1:]))
            elif t[0] == 'c':
                if cur.r0 is None:
                    cur.r0 = list(regs)       # the registry when the port dispatch of this packet starts
                o = owner.get(int(t[1:]), set())
                if len(o) != 1:
                    raise AssertionError('search case must use one callback id per registration')
                cur.calls.append(next(iter(o)))
            else:                             # '+' / '-': a callback body changed the registry
                f = tuple(int(x) for x in t[1:].split(':'))
                if cur.r0 is not None:        # ... during the port dispatch (otherwise: in an all-packet callback, before it)
                    if t[0] == '-':
                        cur.removed.add(f)
                    else:
                        cur.added.append(f)
                apply_op(t)
        close()
        cur = None
    got_p = [int(t[1:]) for t in toks if t[0] == 'P']
    if got_p != fed:
        bad.append(('packet-not-processed', 'packets fed %s, packets taken in order %s' % (fed, got_p), None))
    return bad


D7_WITNESS = {'mode': 'sync', 'family': 'D7-witness', 'ops': [
    ('ext', ('a', 'port', 9, 0xFF, 0, 0, 1)), ('ext', ('a', 'port', 9, 0xFF, 0, 0, 2)), ('ext', ('a', 'port', 9, 0xFF, 0, 0, 3)),
    ('beh', 1, 0, [('r', 'port', 9, 0xFF, 0, 0, 1)]), ('pkts', [0x90, 0x90])]}


D71_WITNESS = {'mode': 'sync', 'family': 'D71-witness', 'ops': [
    ('ext', ('a', 'port', 15, 0xFF, 0, 0, 1)), ('ext', ('a', 'port', 15, 0xFF, 0, 0, 2)), ('ext', ('a', 'port', 13, 0xFF, 0, 0, 3)),
    ('beh', 1, 0, [('hh', 13, 1)]), ('pkts', [(0xF1, 18), (0xF1, 18)])]}


def gen_search_case(rng):
    """distinct registrations, one callback id per registration (so the trace identifies registrations); callbacks
    remove self / earlier / later / fresh registrations, add fresh ones and raise; non-raising all-packet callbacks"""
    hot = [rng.randrange(16) for _ in range(rng.choice([1, 1, 2]))]
    ops, regs, seen = [], [], set()
    nxt = [1]

    def fresh():
        while True:
            f = rand_fields(rng, hot)
            if rng.random() < 0.5:
                f = (rng.choice(hot), f[1] | 0x0F, f[2], f[3] if rng.random() < 0.5 else 0)    # likely to match hot packets
                f = (f[0], f[1], f[2] & f[3], f[3])
            r = f + (nxt[0],)
            nxt[0] += 1
            return r
    for _ in range(rng.randrange(1, 9)):
        r = fresh()
        regs.append(r)
        ops.append(('ext', mk_reg_act('a', how_for(rng, r[1], r[2], r[3]), *r)))
    alls = [100 + i for i in range(rng.choice([0, 1, 1, 2]))]
    for c in alls:
        ops.append(('ext', ('A', c)))
    used = set()
    for _ in range(rng.choice([0, 1, 2, 3, 4, 6])):
        pos = rng.randrange(len(regs))
        cid, k = regs[pos][4], rng.choice([0, 0, 0, 1])
        if (cid, k) in used:
            continue
        used.add((cid, k))
        acts = []
        for _ in range(rng.choice([1, 1, 2, 3])):
            r = rng.random()
            if r < 0.5:
                kind = rng.choice(['self', 'earlier', 'later', 'any'])
                t = regs[pos] if kind == 'self' else regs[rng.randrange(0, pos + 1)] if kind == 'earlier' else \
                    regs[rng.randrange(pos, len(regs))] if kind == 'later' else rng.choice(regs)
                if rng.random() < 0.25:
                    # near miss: differs from a registration in exactly one of the five fields -> must remove nothing
                    fi = rng.randrange(5)
                    alt = {0: (t[0] + 1) % 16, 1: t[1] ^ rng.choice([1, 0x10, 0xF0]), 2: (t[2] + 1) % 4,
                           3: t[3] ^ rng.choice([1, 2, 0xFC]), 4: rng.choice(regs)[4]}[fi]
                    t2 = t[:fi] + (alt,) + t[fi + 1:]
                    if t2 not in regs:
                        t = t2
                acts.append(mk_reg_act('r', how_for(rng, t[1], t[2], t[3]), *t))
            elif r < 0.8:
                t = fresh()
                regs.append(t)
                acts.append(mk_reg_act('a', how_for(rng, t[1], t[2], t[3]), *t))
            elif r < 0.9:
                tgt = rng.choice(hot) if rng.random() < 0.6 else rng.randrange(16)
                acts.append(rng.choice([('hp', tgt), ('hc', rng.randrange(4)), ('hh', tgt, rng.randrange(4))]))
            else:
                acts.append(('x',))
                break
        ops.append(('beh', cid, k, acts))
    if alls and rng.random() < 0.5:
        c = rng.choice(alls)
        a = rng.choice([('A', 100 + rng.randrange(4)), ('R', c), mk_reg_act('r', 'full', *rng.choice(regs)),
                        ('hh', rng.choice(hot), rng.randrange(4))])
        ops.append(('beh', c, rng.choice([0, 1]), [a]))
    for b in range(rng.choice([1, 2, 3])):
        ops.append(('pkts', [rand_hdr(rng, hot) for _ in range(rng.choice([1, 2, 3, 4]))]))
    return {'mode': 'thread' if rng.random() < 0.1 else 'sync', 'ops': ops, 'family': 'search-random'}


def library_session(rng, n_extra=400):
    """The REAL Crazyflie object (all of the library's own port / all-packet callbacks registered) connects to the
    simulated device; observers registered by the application on every port and every (port, channel) plus an
    all-packet observer record what they are given.  Every packet handed out by the link must reach exactly the
    observers matching its header AS RECEIVED, once, and be - at that moment - the packet that was received
    (same object, same header, port, channel and payload): nobody in the library may rewrite a packet that is
    still being dispatched.  After the connection, payloads seen during the session (and empty / short / full
    ones) are replayed on every port and channel.  Returns a list of (key, what, detail)."""
    import logging
    from harness.sim import crazyflie_device as sim
    logging.disable(logging.CRITICAL)
    bad = []
    try:
        dev = sim.CrazyflieDevice(log_toc=[sim.LogVar('g', 'v%d' % i, 'float') for i in range(3)],
                                  param_toc=[sim.ParamVar('p', 'x%d' % i, 'uint8_t', i) for i in range(3)])
        s = sim.SyncSession(dev)
        cf = s.cf
        rewritten = set()
        received = []          # (object, header, port, channel, payload) at hand-out
        seen = []              # (observer, index of the packet being dispatched, same object?, fields at call time)
        observers = {}

        def mk(name, pattern):
            def f(pk):
                k = len(received) - 1
                seen.append((name, k, k >= 0 and pk is received[k][0], (pk.header, pk.port, pk.channel, bytes(pk.data))))
            observers[name] = pattern
            return f
        for port in range(16):
            cf.add_port_callback(port, mk('port%d' % port, (port, 0xFF, 0, 0)))
            for chan in range(4):
                cf.add_header_callback(mk('hdr%d.%d' % (port, chan), (port, 0xFF, chan, 0xFF)), port, chan)
        cf.packet_received.add_callback(mk('all', None))
        s.open()
        link = s.link
        orig = link.receive_packet

        def receive_packet(wait=0):
            pk = orig(wait)
            if pk is not None:
                received.append((pk, pk.header, pk.port, pk.channel, bytes(pk.data)))
            return pk
        link.receive_packet = receive_packet
        s.run(until='fully_connected', max_steps=20000)
        n_session = len(received)
        pool = [b'', b'\x00', b'\x01\x02', bytes(range(30))] + sorted({r[4] for r in received})
        for _ in range(n_extra):
            if s.link is None or s.cf.link is None:
                break
            s.inject(rng.randrange(16), rng.randrange(4), rng.choice(pool))
            s.run(max_steps=200)
        for k, (pk, hdr, port, chan, data) in enumerate(received):
            h = (port << 4) | chan
            for name, pat in observers.items():
                calls = [x for x in seen if x[0] == name and x[1] == k]
                want = 1 if pat is None or spec_match(pat, h) else 0
                desc = {'packet_index': k, 'during_connect': k < n_session, 'port': port, 'channel': chan, 'payload': data.hex(), 'observer': name}
                if len(calls) != want:
                    key = 'missed-delivery' if want and not calls else 'non-matching-called' if not want else 'delivered-twice'
                    bad.append((key, 'library session: observer %s (pattern %s) got the packet received on port %d channel %d '
                                '(payload %s) %d times, expected %d' % (name, pat, port, chan, data.hex() or '-', len(calls), want), desc))
                for c in calls:
                    if c[2] and c[3][:3] == (hdr, port, chan) and c[3][3] != data:
                        # same object, same header, payload rewritten in place by an earlier callback: recorded as an
                        # observation (C07 is worded about headers and deliveries), see docs/C07.md
                        rewritten.add((port, chan, len(data), len(c[3][3])))
                    elif not c[2] or c[3] != (hdr, port, chan, data):
                        bad.append(('packet-altered', 'library session: observer %s was given the packet received on port %d channel %d '
                                    'payload %s as header=%d port=%d channel=%d payload=%s: a callback registered before it rewrote the '
                                    'packet while it was being dispatched' % ((name, port, chan, data.hex() or '-') + c[3][:3] + (c[3][3].hex() or '-',)), desc))
        stats = {'packets': len(received), 'during_connect': n_session, 'observer_calls': len(seen),
                 'connected': 'fully_connected' in s.events or 'connected' in s.events,
                 'payload_rewritten_in_place': len(rewritten), 'rewritten': sorted(rewritten)}
    finally:
        logging.disable(logging.NOTSET)
    return bad, stats


def search(ctx):
    rng = ctx.rng
    # the library's own callbacks alongside application registrations, on a real connection
    bad, stats = library_session(rng, 400 if ctx.tier == 'quick' else 4000)
    for k, v in stats.items():
        if k != 'rewritten':
            ctx.count('library-session:' + k, int(v))
    if stats['rewritten']:
        ctx.note('observation (not counted as a C07 violation): a library callback rewrites the PAYLOAD of a received packet in place '
                 'while it is being dispatched, so later callbacks on that port see the altered payload; (port, channel, received length, '
                 'length seen by later callbacks): %s' % stats['rewritten'][:8])
    rep_keys = set()
    for key, what, desc in bad:
        if key in rep_keys:
            ctx.count('search-violations-suppressed')
            continue
        rep_keys.add(key)
        ctx.witness(key, what, dict(desc, session='library', family='library-session'))
    cases = [D7_WITNESS, D71_WITNESS]
    for c in load_corpus():
        if c.get('search'):
            cases.append(c)
    # every (i removes j) on one port, also followed by a raise; every subset of raisers
    for n in (2, 3, 4):
        for i in range(n):
            for j in range(n):
                for extra in ([], [('x',)]):
                    port = rng.randrange(16)
                    ops = [('ext', mk_reg_act('a', 'port', port, 0xFF, 0, 0, k + 1)) for k in range(n)]
                    ops.append(('beh', i + 1, 0, [mk_reg_act('r', 'port', port, 0xFF, 0, 0, j + 1)] + extra))
                    ops.append(('pkts', [port << 4, (port << 4) | 1]))
                    cases.append({'mode': 'sync', 'ops': ops, 'family': 'search-remove'})
    for n in (1, 2, 3, 4):
        for mask in range(1 << n):
            port = rng.randrange(16)
            ops = [('ext', mk_reg_act('a', 'port', port, 0xFF, 0, 0, k + 1)) for k in range(n)]
            ops += [('beh', k + 1, 0, [('x',)]) for k in range(n) if (mask >> k) & 1]
            ops.append(('pkts', [port << 4, (port << 4) | 2, ((port + 1) % 16) << 4]))
            cases.append({'mode': 'sync', 'ops': ops, 'family': 'search-raise'})
    # all 256 headers against assorted masks (independent matcher)
    for _ in range(8 if ctx.tier == 'quick' else 40):
        hot = [rng.randrange(16)]
        ops = []
        for k in range(3):
            f = rand_fields(rng, hot)
            ops.append(('ext', mk_reg_act('a', how_for(rng, f[1], f[2], f[3]), f[0], f[1], f[2], f[3], k + 1)))
        ops.append(('pkts', list(range(256))))
        cases.append({'mode': 'sync', 'ops': ops, 'family': 'search-headers'})
    for _ in range(3000 if ctx.tier == 'quick' else 30000):
        cases.append(gen_search_case(rng))
    cases = [with_payloads(c, rng) for c in cases]
    cases += [with_payloads(c, rng, all_len=0) for c in cases if c['family'] in ('search-headers', 'D7-witness', 'search-raise') and c is not None]
    for n in (0, 1, 30):          # every header byte with this payload length, observed by all-packet and port callbacks
        ops = [('ext', ('A', 100)), ('ext', ('A', 101)), ('ext', mk_reg_act('a', 'full', 0, 0, 0, 0, 1))]
        ops += [('ext', mk_reg_act('a', 'port', p, 0xFF, 0, 0, 2 + p)) for p in range(16)]
        ops.append(('pkts', [(h, n) for h in range(256)]))
        cases.append({'mode': 'sync', 'ops': ops, 'family': 'search-payload-%d' % n})
    reported = set()
    for c in cases:
        ctx.count('search:' + c['family'])
        for op in c['ops']:
            if op[0] == 'pkts':
                for x in op[1]:
                    n = pk_pair(x)[1]
                    ctx.count('search-payload:%s' % ('0' if n == 0 else '1' if n == 1 else '30' if n == 30 else 'other'))
        for key, what, h in spec_eval(c):
            if (key, c['family']) in reported and c['family'] not in ('D7-witness', 'D71-witness'):
                ctx.count('search-violations-suppressed')
                continue
            reported.add((key, c['family']))
            ctx.witness(key, what, {'case': case_lines(c), 'mode': c['mode'], 'header': h, 'family': c['family'],
                                    'ops': [list(op) for op in c['ops']]})


def replay(ctx, rp):
    """./check C07 --replay <file>: re-evaluate the witness case of a replay file on the current tree;
    returns True iff the real code STILL violates the specification on it (the runner then exits 1)"""
    import json
    w = rp.get('witness') or {}
    inp = w.get('input') or {}
    if inp.get('session') == 'library':
        import random
        bad, stats = library_session(random.Random(int(rp.get('seed', 0))), 400)
        print('library session:', stats)
        for key, what, desc in bad[:10]:
            print('VIOLATED [%s] %s' % (key, what))
        return bool(bad)
    if 'ops' not in inp:
        print('replay file has no failing input (kind=%s): it names broken obligations; run ./check C07 to re-check them' % rp.get('kind'))
        print(json.dumps(rp.get('broken'), indent=1)[:3000])
        return False
    case = {'mode': inp.get('mode', 'sync'), 'family': 'replay', 'ops': [_untuple(op) for op in inp['ops']]}
    print('request lines:', case_lines(case))
    print('real code    :', [r for r in real_case(case) if r])
    bad = spec_eval(case)
    for key, what, h in bad:
        print('VIOLATED [%s] %s' % (key, what))
    return bool(bad)

"""C08 - every command packet decodes to the caller's arguments under the firmware layout.

Tie A: every struct.pack format string + argument-expression list, the port/channel assignments, the
protocol-version / range comparisons, the packet-type / command / port constants, the CRTP header expression,
the compress_quaternion bit expression and the spiral clamp constants are re-extracted from the anchored files
into Gen/C08.lean.  The Lean model builds its packets with `pack (parseFmt! Gen.C08.<m>_fmt<k>)`.
Tie B: the real Commander / HighLevelCommander / Localization / Extpos / PlatformService / LoPoAnchor objects
on a stub Crazyflie whose send_packet is the REAL Crazyflie.send_packet (recording fake link) vs the Lean model
(Driver/C08.lean), bytes compared exactly, raised exception classes compared by enum.
"""
import ast
import math
import struct

from harness.lib import extract as X
from harness.lib.common import ExtractError, exc_enum, f32bits, f64bits, hexs

PID = 'C08'
LEAN_TARGETS = ['CfVerif.Props.C08']
PROPS_MODULES = ['CfVerif.Props.C08']
DRIVER = 'Driver/C08.lean'
REQUIRED_THEOREMS = []
TRUSTED = []
ASSUMPTIONS = []
RULE = ''

# ---------------------------------------------------------------------------------------------------
# Tie A
# (file, qualified name, Gen key)
METHODS = [
    ('cflib/crazyflie/commander.py', 'Commander.send_setpoint', 'setpoint'),
    ('cflib/crazyflie/commander.py', 'Commander.send_notify_setpoint_stop', 'notifyStop'),
    ('cflib/crazyflie/commander.py', 'Commander.send_stop_setpoint', 'stopSetpoint'),
    ('cflib/crazyflie/commander.py', 'Commander.send_velocity_world_setpoint', 'velocityWorld'),
    ('cflib/crazyflie/commander.py', 'Commander.send_zdistance_setpoint', 'zdistance'),
    ('cflib/crazyflie/commander.py', 'Commander.send_hover_setpoint', 'hover'),
    ('cflib/crazyflie/commander.py', 'Commander.send_full_state_setpoint', 'fullState'),
    ('cflib/crazyflie/commander.py', 'Commander.send_position_setpoint', 'position'),
    ('cflib/crazyflie/high_level_commander.py', 'HighLevelCommander.set_group_mask', 'hlGroupMask'),
    ('cflib/crazyflie/high_level_commander.py', 'HighLevelCommander.takeoff', 'hlTakeoff'),
    ('cflib/crazyflie/high_level_commander.py', 'HighLevelCommander.land', 'hlLand'),
    ('cflib/crazyflie/high_level_commander.py', 'HighLevelCommander.stop', 'hlStop'),
    ('cflib/crazyflie/high_level_commander.py', 'HighLevelCommander.go_to', 'hlGoTo'),
    ('cflib/crazyflie/high_level_commander.py', 'HighLevelCommander.spiral', 'hlSpiral'),
    ('cflib/crazyflie/high_level_commander.py', 'HighLevelCommander.start_trajectory', 'hlStartTraj'),
    ('cflib/crazyflie/high_level_commander.py', 'HighLevelCommander.define_trajectory', 'hlDefineTraj'),
    ('cflib/crazyflie/high_level_commander.py', 'HighLevelCommander._send_packet', 'hlSend'),
    ('cflib/crazyflie/localization.py', 'Localization.send_extpos', 'extpos'),
    ('cflib/crazyflie/localization.py', 'Localization.send_extpose', 'extpose'),
    ('cflib/crazyflie/localization.py', 'Localization.send_short_lpp_packet', 'shortLpp'),
    ('cflib/crazyflie/localization.py', 'Localization.send_emergency_stop', 'emergencyStop'),
    ('cflib/crazyflie/localization.py', 'Localization.send_emergency_stop_watchdog', 'emergencyWatchdog'),
    ('cflib/crazyflie/localization.py', 'Localization.send_lh_persist_data_packet', 'lhPersist'),
    ('cflib/crazyflie/extpos.py', 'Extpos.send_extpos', 'extposWrap'),
    ('cflib/crazyflie/extpos.py', 'Extpos.send_extpose', 'extposeWrap'),
    ('cflib/crazyflie/platformservice.py', 'PlatformService.set_continous_wave', 'contWave'),
    ('cflib/crazyflie/platformservice.py', 'PlatformService.send_arming_request', 'arming'),
    ('cflib/crazyflie/platformservice.py', 'PlatformService.send_crash_recovery_request', 'crashRecovery'),
    ('lpslib/lopoanchor.py', 'LoPoAnchor.set_position', 'lopoPosition'),
    ('lpslib/lopoanchor.py', 'LoPoAnchor.reboot', 'lopoReboot'),
    ('lpslib/lopoanchor.py', 'LoPoAnchor.set_mode', 'lopoMode'),
]


def _sorted_nodes(node, pred):
    return sorted((n for n in ast.walk(node) if pred(n)), key=lambda n: (n.lineno, n.col_offset))


def _params(fn):
    a = fn.args
    names = [x.arg for x in a.posonlyargs + a.args]
    defaults = [None] * (len(names) - len(a.defaults)) + [ast.unparse(d) for d in a.defaults]
    return ['%s=%s' % (n, d) if d is not None else n for n, d in zip(names, defaults)]


def _emit_method(g, trees, relpath, qual, key):
    fn = X.find(trees[relpath], qual)
    g.raw('-- %s :: %s' % (relpath, qual))
    g.strings(key + '_params', _params(fn))
    sc = X.struct_calls(fn)
    for k, c in enumerate(sc):
        X.expect(c['fn'] == 'pack', '%s: unexpected struct.%s' % (qual, c['fn']))
        X.expect(c['fmt'] is not None, '%s: struct.pack format is not a string literal: %s' % (qual, c['fmt_src']))
        g.string('%s_fmt%d' % (key, k), c['fmt'])
        g.strings('%s_args%d' % (key, k), c['args'])
    g.nat(key + '_nPacks', len(sc))
    # assignments to attributes of the packet object, `pk.set_header(...)`, calls that hand the packet on
    asg = {}
    for n in _sorted_nodes(fn, lambda n: isinstance(n, ast.Assign) and len(n.targets) == 1 and isinstance(n.targets[0], ast.Attribute)
                           and isinstance(n.targets[0].value, ast.Name) and n.targets[0].value.id == 'pk'):
        asg.setdefault(n.targets[0].attr, []).append(ast.unparse(n.value))
    g.strings(key + '_port', asg.get('port', []))
    g.strings(key + '_chan', asg.get('channel', []))
    g.strings(key + '_data', asg.get('data', []))
    hdr = [ast.unparse(n) for n in _sorted_nodes(fn, lambda n: isinstance(n, ast.Call) and ast.unparse(n.func) == 'pk.set_header')]
    g.strings(key + '_setHeader', hdr)
    sends = [ast.unparse(n) for n in _sorted_nodes(fn, lambda n: isinstance(n, ast.Call) and isinstance(n.func, ast.Attribute)
                                                   and n.func.attr in ('send_packet', '_send_packet', 'send_short_lpp_packet',
                                                                       'send_extpos', 'send_extpose'))]
    # the struct.pack argument of HighLevelCommander._send_packet(...) is pinned through <key>_args, not here
    sends = [s if len(s) < 80 else s.split('(')[0] + '(...)' for s in sends]
    g.strings(key + '_sends', sends)
    g.strings(key + '_cmps', X.compares(fn))
    g.strings(key + '_raises', [ast.unparse(n.exc.func) if isinstance(n.exc, ast.Call) else ast.unparse(n.exc)
                                for n in _sorted_nodes(fn, lambda n: isinstance(n, ast.Raise) and n.exc is not None)])
    return fn


def _consts(g, prefix, vals, required):
    for name in required:
        X.expect(name in vals, 'constant %s.%s not found' % (prefix, name))
    for name in sorted(vals):
        if name.isupper() or '_' in name and name.upper() == name:
            g.nat('%s.%s' % (prefix, name), vals[name]) if vals[name] >= 0 else g.int('%s.%s' % (prefix, name), vals[name])


def _module_consts(tree):
    res = {}
    for n in tree.body:
        if isinstance(n, ast.Assign) and len(n.targets) == 1 and isinstance(n.targets[0], ast.Name):
            try:
                v = ast.literal_eval(n.value)
            except Exception:
                continue
            if isinstance(v, int) and not isinstance(v, bool):
                res[n.targets[0].id] = v
    return res


def _class_consts(cls):
    res = {}
    for n in cls.body:
        if isinstance(n, ast.Assign) and len(n.targets) == 1 and isinstance(n.targets[0], ast.Name):
            try:
                v = ast.literal_eval(n.value)
            except Exception:
                continue
            if isinstance(v, int) and not isinstance(v, bool):
                res[n.targets[0].id] = v
    return res


def _assign_texts(fn):
    """{target text: [value text, ...]} for plain and augmented assignments in source order"""
    res = {}
    for n in _sorted_nodes(fn, lambda n: isinstance(n, (ast.Assign, ast.AugAssign))):
        if isinstance(n, ast.Assign):
            for t in n.targets:
                res.setdefault(ast.unparse(t), []).append(ast.unparse(n.value))
        else:
            res.setdefault(ast.unparse(n.target), []).append(ast.unparse(n))
    return res


def extract(ctx):
    files = sorted({m[0] for m in METHODS} | {'cflib/crtp/crtpstack.py', 'cflib/utils/encoding.py', 'cflib/crazyflie/__init__.py'})
    g = X.GenFile(PID, files)
    trees = {f: X.parse(f) for f in files}
    # ---- constants
    crtp = trees['cflib/crtp/crtpstack.py']
    _consts(g, 'Port', _class_consts(X.find(crtp, 'CRTPPort')),
            ['COMMANDER', 'LOCALIZATION', 'COMMANDER_GENERIC', 'SETPOINT_HL', 'PLATFORM'])
    pkc = X.find(crtp, 'CRTPPacket')
    mds = _class_consts(pkc)
    X.expect('MAX_DATA_SIZE' in mds, 'CRTPPacket.MAX_DATA_SIZE not found')
    g.nat('maxDataSize', mds['MAX_DATA_SIZE'])
    _consts(g, 'Cmdr', _module_consts(trees['cflib/crazyflie/commander.py']), ['TYPE_STOP', 'TYPE_HOVER', 'SET_SETPOINT_CHANNEL'])
    _consts(g, 'HL', _class_consts(X.find(trees['cflib/crazyflie/high_level_commander.py'], 'HighLevelCommander')), ['COMMAND_GO_TO_2'])
    _consts(g, 'Loc', _class_consts(X.find(trees['cflib/crazyflie/localization.py'], 'Localization')), ['EXT_POSE', 'GENERIC_CH'])
    _consts(g, 'Plat', _module_consts(trees['cflib/crazyflie/platformservice.py']), ['PLATFORM_COMMAND', 'PLATFORM_REQUEST_ARMING'])
    _consts(g, 'Lopo', _class_consts(X.find(trees['lpslib/lopoanchor.py'], 'LoPoAnchor')), ['LPP_TYPE_POSITION'])
    # ---- CRTP header logic
    uh = X.find(pkc, '_update_header')
    ua = _assign_texts(uh)
    X.expect('self.header' in ua and len(ua['self.header']) == 1, '_update_header: expected one assignment to self.header')
    hnode = [n for n in ast.walk(uh) if isinstance(n, ast.Assign)][0].value
    g.raw('def hdrExpr (port chan : Nat) : Nat := ' + X.expr_to_lean(hnode, {'self._port': 'port', 'self.channel': 'chan'}))
    init = X.find(pkc, '__init__')
    g.strings('pktInitParams', _params(init))
    ia = {ast.unparse(n.targets[0]): n.value for n in ast.walk(init) if isinstance(n, ast.Assign) and len(n.targets) == 1}
    for nm in ('self._port', 'self._channel'):
        X.expect(nm in ia, 'CRTPPacket.__init__: %s not assigned' % nm)
    g.raw('def initPortExpr (h : Nat) : Nat := ' + X.expr_to_lean(ia['self._port'], {'header': 'h'}))
    g.raw('def initChanExpr (h : Nat) : Nat := ' + X.expr_to_lean(ia['self._channel'], {'header': 'h'}))
    for prop in ('port', 'channel'):
        setter = X.find(pkc, '_set_' + prop)
        g.strings('set_%s_body' % prop, [ast.unparse(s) for s in setter.body if not (isinstance(s, ast.Expr) and isinstance(s.value, ast.Constant))])
    sh = X.find(pkc, 'set_header')
    g.strings('set_header_body', [ast.unparse(s) for s in sh.body if not (isinstance(s, ast.Expr) and isinstance(s.value, ast.Constant))])
    props = {ast.unparse(n.targets[0]): ast.unparse(n.value) for n in pkc.body if isinstance(n, ast.Assign) and len(n.targets) == 1}
    g.strings('pktProperties', ['%s=%s' % (k, props.get(k, '?')) for k in ('data', 'port', 'channel')])
    # size check in Crazyflie.send_packet
    sp = X.find(trees['cflib/crazyflie/__init__.py'], 'Crazyflie.send_packet')
    first = [s for s in sp.body if not (isinstance(s, ast.Expr) and isinstance(s.value, ast.Constant))][0]
    g.string('sendPacketFirstStmt', ast.unparse(first).replace('\n', ' ; '))
    for nm in ('is_data_size_valid', 'available_data_size', 'get_data_size'):
        f = X.find(pkc, nm)
        rets = [ast.unparse(n.value) for n in ast.walk(f) if isinstance(n, ast.Return) and n.value is not None]
        g.strings('pkt_' + nm, rets)
    # ---- the emitting methods
    fns = {}
    for relpath, qual, key in METHODS:
        fns[key] = _emit_method(g, trees, relpath, qual, key)
    # ---- method specific expressions
    # send_setpoint: x-mode mix text, full-state scaling
    at = _assign_texts(fns['setpoint'])
    g.strings('setpoint_xmodeAssign', at.get('(roll, pitch)', at.get('roll, pitch', [])))
    ifs = [ast.unparse(n.test) for n in _sorted_nodes(fns['setpoint'], lambda n: isinstance(n, ast.If))]
    g.strings('setpoint_ifs', ifs)
    thr = [n for n in ast.walk(fns['setpoint']) if isinstance(n, ast.Compare) and ast.unparse(n.left) == 'thrust' and isinstance(n.ops[0], ast.Gt)]
    X.expect(len(thr) == 1, 'send_setpoint: expected one `thrust > <const>` comparison')
    try:
        g.nat('thrustMax', int(ast.literal_eval(thr[0].comparators[0])))
    except Exception:
        raise ExtractError('send_setpoint: thrust bound is not a literal')
    fs = fns['fullState']
    inner = [n for n in ast.walk(fs) if isinstance(n, ast.FunctionDef) and n is not fs]
    X.expect(len(inner) == 1, 'send_full_state_setpoint: expected one local helper')
    g.string('fullState_helper', inner[0].name + '(' + ','.join(_params(inner[0])) + '): ' +
             ' ; '.join(ast.unparse(s) for s in inner[0].body))
    fa = _assign_texts(fs)
    g.strings('fullState_assigns', ['%s = %s' % (k, v) for k in sorted(fa) for v in fa[k] if k not in ('pk', 'pk.port', 'pk.data')])
    # takeoff / land yaw handling
    for key in ('hlTakeoff', 'hlLand'):
        a = _assign_texts(fns[key])
        g.strings(key + '_assigns', ['%s = %s' % (k, v) for k in sorted(a) for v in a[k]])
        g.strings(key + '_ifs', [ast.unparse(n.test) for n in _sorted_nodes(fns[key], lambda n: isinstance(n, ast.If))])
    # spiral clamps
    sa = _assign_texts(fns['hlSpiral'])
    g.strings('hlSpiral_assigns', ['%s = %s' % (k, v) for k in sorted(sa) for v in sa[k]])

    def const_float(src):
        try:
            v = eval(compile(ast.parse(src, mode='eval'), '<gen>', 'eval'), {'__builtins__': {}}, {'math': math})
        except Exception as e:
            raise ExtractError('spiral: cannot evaluate %s: %s' % (src, e))
        X.expect(isinstance(v, (int, float)) and not isinstance(v, bool), 'spiral: %s is not a number' % src)
        return v
    cmps = [n for n in _sorted_nodes(fns['hlSpiral'], lambda n: isinstance(n, ast.Compare)) if ast.unparse(n.left) in ('angle', 'r0', 'rF')]
    X.expect([ast.unparse(n.left) for n in cmps] == ['angle', 'angle', 'r0', 'rF'], 'spiral: clamp comparisons changed: %s' % [ast.unparse(n) for n in cmps])
    for nm, n in zip(('angleHi', 'angleLo', 'r0Lo', 'rFLo'), cmps):
        X.expect(len(n.ops) == 1, 'spiral: chained comparison')
        g.string('spiral_%s_op' % nm, type(n.ops[0]).__name__)
        b = const_float(ast.unparse(n.comparators[0]))
        g.nat('spiral_%s_f64' % nm, f64bits(float(b)))
    for tgt, nm in (('angle', 'angleSet'), ('r0', 'r0Set'), ('rF', 'rFSet')):
        vals = sa.get(tgt, [])
        X.expect(len(vals) == (2 if tgt == 'angle' else 1), 'spiral: assignments to %s changed: %s' % (tgt, vals))
        for k, v in enumerate(vals):
            c = const_float(v)
            g.nat('spiral_%s%d_f32' % (nm, k), f32bits(c))
    # lighthouse persist
    la = _assign_texts(fns['lhPersist'])
    X.expect('max_bs_nr' in la and len(la['max_bs_nr']) == 1, 'lh persist: max_bs_nr not found')
    try:
        g.nat('lhMaxBs', int(la['max_bs_nr'][0]))
    except ValueError:
        raise ExtractError('lh persist: max_bs_nr is not a literal')
    g.strings('lhPersist_maskGeo', la.get('mask_geo', []))
    g.strings('lhPersist_maskCalib', la.get('mask_calib', []))
    g.strings('lhPersist_calls', [ast.unparse(n) for n in _sorted_nodes(fns['lhPersist'], lambda n: isinstance(n, ast.Call) and isinstance(n.func, ast.Attribute) and n.func.attr == 'sort')])
    g.strings('lhPersist_fors', ['%s in %s' % (ast.unparse(n.target), ast.unparse(n.iter)) for n in _sorted_nodes(fns['lhPersist'], lambda n: isinstance(n, ast.For))])
    g.strings('lhPersist_ifs', [ast.unparse(n.test) for n in _sorted_nodes(fns['lhPersist'], lambda n: isinstance(n, ast.If))])
    # lopo set_position locals
    lp = _assign_texts(fns['lopoPosition'])
    g.strings('lopoPosition_assigns', ['%s = %s' % (k, v) for k in sorted(lp) for v in lp[k] if k != 'data'])
    # ---- compress_quaternion
    cq = X.find(trees['cflib/utils/encoding.py'], 'compress_quaternion')
    ca = _assign_texts(cq)
    for nm in ('i_largest', 'negate', 'comp', 'negbit', 'mag', 'quat_n', 'M_SQRT1_2'):
        X.expect(nm in ca, 'compress_quaternion: no assignment to ' + nm)
        g.strings('cq_' + nm, ca[nm])
    g.strings('cq_fors', ['%s in %s' % (ast.unparse(n.target), ast.unparse(n.iter)) for n in _sorted_nodes(cq, lambda n: isinstance(n, ast.For))])
    g.strings('cq_ifs', [ast.unparse(n.test) for n in _sorted_nodes(cq, lambda n: isinstance(n, ast.If))])
    g.strings('cq_returns', [ast.unparse(n.value) for n in _sorted_nodes(cq, lambda n: isinstance(n, ast.Return) and n.value is not None)])
    steps = [n for n in ast.walk(cq) if isinstance(n, ast.Assign) and ast.unparse(n.targets[0]) == 'comp' and isinstance(n.value, ast.BinOp)]
    X.expect(len(steps) == 1, 'compress_quaternion: expected one `comp = <bit expression>`')
    g.raw('def cqStep (comp negbit mag : Nat) : Nat := ' + X.expr_to_lean(steps[0].value, {'comp': 'comp', 'negbit': 'negbit', 'mag': 'mag'}))
    return {'C08.lean': g.render()}

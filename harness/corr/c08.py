"""C08 - every command packet decodes to the caller's arguments under the firmware layout.

Tie A: every struct.pack format string + argument-expression list, the port/channel assignments, the
protocol-version / range comparisons, the packet-type / command / port constants, the CRTP header expression,
the compress_quaternion bit expression and the spiral clamp constants are re-extracted from the anchored files
into Gen/C08.lean.  The Lean model builds its packets with `pack (parseFmt! Gen.C08.<m>_fmt<k>)`.
Tie B: the real Commander / HighLevelCommander / Localization / Extpos / PlatformService / LoPoAnchor objects
on a stub Crazyflie whose send_packet is the REAL Crazyflie.send_packet (recording fake link) vs the Lean model
(Driver/C08.lean), bytes compared exactly, raised exception classes compared by enum.
"""
import ast
import math
import struct

from harness.lib import extract as X
from harness.lib.common import ExtractError, exc_enum, f32bits, f64bits, hexs

PID = 'C08'
LEAN_TARGETS = ['CfVerif.Props.C08']
PROPS_MODULES = ['CfVerif.Props.C08']
DRIVER = 'Driver/C08.lean'
REQUIRED_THEOREMS = ['CfVerif.C08.' + t for t in (
    'header_lossless', 'emit_decodes', 'history_decodes', 'history_results', 'history_version_is_latest', 'wire_is_what_was_emitted',
    'emitted_packet_never_mutated', 'gen_object_state', 'gen_fresh_packet', 'emit_complete', 'unrepresentable_raises', 'emit_port_channel_size', 'lopo_payload_decodes', 'thrust_out_of_range_raises',
    'thrust_float_never_sent', 'int16_overflow_raises', 'f64ToInt_trunc', 'compress_quaternion_layout', 'iLargest_is_max',
    'bsMask_testBit', 'spiral_comparisons_exact', 'f64ToInt_nan_inf_raise', 'lh_persist_invalid_raises', 'lh_persist_live_counterexample', 'neg_int_zero',
    'gen_emitters', 'gen_setpoint', 'gen_hover', 'gen_fullState', 'gen_hlGoTo', 'gen_hlSpiral', 'gen_lhPersist', 'gen_lhPersist_detail', 'gen_packet',
    'gen_compress_quaternion')]
TRUSTED = ['harness/corr/c08.py extractor + correspondence + Python twin of the firmware decoder',
           'Spec/C08.lean: the firmware packet layouts, type numbers, version gates and sign conventions (written from the firmware, not from cflib)',
           "binary64->binary32 conversion inside struct.pack('f') and all double arithmetic (x-mode mix, v*1000, quaternion "
           'normalisation/scaling) are computed by CPython/numpy and handed to the model as operands',
           "struct '<' formats: little-endian, no padding"]
ASSUMPTIONS = ['arguments are Python ints/bools/floats (None only for yaw of takeoff/land); other types are outside the model',
               'warnings.warn(DeprecationWarning) and print() in the legacy branches do not raise']
RULE = ('cases = one API call each (30 emitting methods x protocol versions -1..255 on both sides of every switch x x-mode), arguments '
        'drawn per field from typical values, boundary/special floats (signed zeros, inf, nan, binary32 max and the first doubles that '
        'overflow it, subnormals, +-2pi neighbours), any binary64/binary32 bit pattern, Python ints in float fields, field-width '
        'boundaries of every integer field, bools, floats in integer fields; plus HISTORIES of one long-lived Crazyflie/Commander/'
        'HighLevelCommander/Localization object set whose negotiated protocol version (direct, via the real handshake callbacks, '
        '-1 while the handshake runs / for firmware without versioning) and x-mode change between calls: every versioned method '
        'across every ordered pair of versions around both switches, bursts of back-to-back calls for every ordered pair of methods of '
        'each emitter family, and random mixed histories; the recording link queues the packet OBJECTS and serialises them only at '
        'transmit points / the end of the history; non-trivial = distinct request '
        'line / distinct (history, position)')

# ---------------------------------------------------------------------------------------------------
# Tie A
# (file, qualified name, Gen key)
METHODS = [
    ('cflib/crazyflie/commander.py', 'Commander.send_setpoint', 'setpoint'),
    ('cflib/crazyflie/commander.py', 'Commander.send_notify_setpoint_stop', 'notifyStop'),
    ('cflib/crazyflie/commander.py', 'Commander.send_stop_setpoint', 'stopSetpoint'),
    ('cflib/crazyflie/commander.py', 'Commander.send_velocity_world_setpoint', 'velocityWorld'),
    ('cflib/crazyflie/commander.py', 'Commander.send_zdistance_setpoint', 'zdistance'),
    ('cflib/crazyflie/commander.py', 'Commander.send_hover_setpoint', 'hover'),
    ('cflib/crazyflie/commander.py', 'Commander.send_full_state_setpoint', 'fullState'),
    ('cflib/crazyflie/commander.py', 'Commander.send_position_setpoint', 'position'),
    ('cflib/crazyflie/high_level_commander.py', 'HighLevelCommander.set_group_mask', 'hlGroupMask'),
    ('cflib/crazyflie/high_level_commander.py', 'HighLevelCommander.takeoff', 'hlTakeoff'),
    ('cflib/crazyflie/high_level_commander.py', 'HighLevelCommander.land', 'hlLand'),
    ('cflib/crazyflie/high_level_commander.py', 'HighLevelCommander.stop', 'hlStop'),
    ('cflib/crazyflie/high_level_commander.py', 'HighLevelCommander.go_to', 'hlGoTo'),
    ('cflib/crazyflie/high_level_commander.py', 'HighLevelCommander.spiral', 'hlSpiral'),
    ('cflib/crazyflie/high_level_commander.py', 'HighLevelCommander.start_trajectory', 'hlStartTraj'),
    ('cflib/crazyflie/high_level_commander.py', 'HighLevelCommander.define_trajectory', 'hlDefineTraj'),
    ('cflib/crazyflie/high_level_commander.py', 'HighLevelCommander._send_packet', 'hlSend'),
    ('cflib/crazyflie/localization.py', 'Localization.send_extpos', 'extpos'),
    ('cflib/crazyflie/localization.py', 'Localization.send_extpose', 'extpose'),
    ('cflib/crazyflie/localization.py', 'Localization.send_short_lpp_packet', 'shortLpp'),
    ('cflib/crazyflie/localization.py', 'Localization.send_emergency_stop', 'emergencyStop'),
    ('cflib/crazyflie/localization.py', 'Localization.send_emergency_stop_watchdog', 'emergencyWatchdog'),
    ('cflib/crazyflie/localization.py', 'Localization.send_lh_persist_data_packet', 'lhPersist'),
    ('cflib/crazyflie/extpos.py', 'Extpos.send_extpos', 'extposWrap'),
    ('cflib/crazyflie/extpos.py', 'Extpos.send_extpose', 'extposeWrap'),
    ('cflib/crazyflie/platformservice.py', 'PlatformService.set_continous_wave', 'contWave'),
    ('cflib/crazyflie/platformservice.py', 'PlatformService.send_arming_request', 'arming'),
    ('cflib/crazyflie/platformservice.py', 'PlatformService.send_crash_recovery_request', 'crashRecovery'),
    ('lpslib/lopoanchor.py', 'LoPoAnchor.set_position', 'lopoPosition'),
    ('lpslib/lopoanchor.py', 'LoPoAnchor.reboot', 'lopoReboot'),
    ('lpslib/lopoanchor.py', 'LoPoAnchor.set_mode', 'lopoMode'),
]


def _sorted_nodes(node, pred):
    return sorted((n for n in ast.walk(node) if pred(n)), key=lambda n: (n.lineno, n.col_offset))


def _params(fn):
    a = fn.args
    names = [x.arg for x in a.posonlyargs + a.args]
    defaults = [None] * (len(names) - len(a.defaults)) + [ast.unparse(d) for d in a.defaults]
    return ['%s=%s' % (n, d) if d is not None else n for n, d in zip(names, defaults)]


def _emit_method(g, trees, relpath, qual, key):
    fn = X.find(trees[relpath], qual)
    g.raw('-- %s :: %s' % (relpath, qual))
    g.strings(key + '_params', _params(fn))
    sc = X.struct_calls(fn)
    for k, c in enumerate(sc):
        X.expect(c['fn'] == 'pack', '%s: unexpected struct.%s' % (qual, c['fn']))
        X.expect(c['fmt'] is not None, '%s: struct.pack format is not a string literal: %s' % (qual, c['fmt_src']))
        g.string('%s_fmt%d' % (key, k), c['fmt'])
        g.strings('%s_args%d' % (key, k), c['args'])
    g.nat(key + '_nPacks', len(sc))
    # assignments to attributes of the packet object, `pk.set_header(...)`, calls that hand the packet on
    asg = {}
    for n in _sorted_nodes(fn, lambda n: isinstance(n, ast.Assign) and len(n.targets) == 1 and isinstance(n.targets[0], ast.Attribute)
                           and isinstance(n.targets[0].value, ast.Name) and n.targets[0].value.id == 'pk'):
        asg.setdefault(n.targets[0].attr, []).append(ast.unparse(n.value))
    g.strings(key + '_port', asg.get('port', []))
    g.strings(key + '_chan', asg.get('channel', []))
    g.strings(key + '_data', asg.get('data', []))
    hdr = [ast.unparse(n) for n in _sorted_nodes(fn, lambda n: isinstance(n, ast.Call) and ast.unparse(n.func) == 'pk.set_header')]
    g.strings(key + '_setHeader', hdr)
    sends = [ast.unparse(n) for n in _sorted_nodes(fn, lambda n: isinstance(n, ast.Call) and isinstance(n.func, ast.Attribute)
                                                   and n.func.attr in ('send_packet', '_send_packet', 'send_short_lpp_packet',
                                                                       'send_extpos', 'send_extpose'))]
    # the struct.pack argument of HighLevelCommander._send_packet(...) is pinned through <key>_args, not here
    sends = [s if len(s) < 80 else s.split('(')[0] + '(...)' for s in sends]
    g.strings(key + '_sends', sends)
    # the object handed to Crazyflie.send_packet: which expression, and every binding of that name in this method
    # (the model assumes a packet object constructed in this very call and never stored: `pk = CRTPPacket()`)
    sent, binds = [], []
    for n in _sorted_nodes(fn, lambda n: isinstance(n, ast.Call) and isinstance(n.func, ast.Attribute) and n.func.attr == 'send_packet'):
        sent.append(', '.join([ast.unparse(x) for x in n.args] + ['%s=%s' % (k.arg, ast.unparse(k.value)) for k in n.keywords]))
        for x in n.args[:1]:
            if isinstance(x, ast.Name):
                for m in _sorted_nodes(fn, lambda m: isinstance(m, (ast.Assign, ast.AugAssign, ast.AnnAssign, ast.NamedExpr))):
                    tg = m.targets if isinstance(m, ast.Assign) else [m.target]
                    if any(isinstance(t, ast.Name) and t.id == x.id for t in tg):
                        binds.append(ast.unparse(m))
    g.strings(key + '_sentObject', sent)
    g.strings(key + '_sentBindings', binds)
    g.strings(key + '_cmps', X.compares(fn))
    g.strings(key + '_raises', [ast.unparse(n.exc.func) if isinstance(n.exc, ast.Call) else ast.unparse(n.exc)
                                for n in _sorted_nodes(fn, lambda n: isinstance(n, ast.Raise) and n.exc is not None)])
    return fn


def _consts(g, prefix, vals, required):
    for name in required:
        X.expect(name in vals, 'constant %s.%s not found' % (prefix, name))
    for name in sorted(vals):
        if name.isupper() or '_' in name and name.upper() == name:
            g.nat('%s.%s' % (prefix, name), vals[name]) if vals[name] >= 0 else g.int('%s.%s' % (prefix, name), vals[name])


def _module_consts(tree):
    res = {}
    for n in tree.body:
        if isinstance(n, ast.Assign) and len(n.targets) == 1 and isinstance(n.targets[0], ast.Name):
            try:
                v = ast.literal_eval(n.value)
            except Exception:
                continue
            if isinstance(v, int) and not isinstance(v, bool):
                res[n.targets[0].id] = v
    return res


def _class_consts(cls):
    res = {}
    for n in cls.body:
        if isinstance(n, ast.Assign) and len(n.targets) == 1 and isinstance(n.targets[0], ast.Name):
            try:
                v = ast.literal_eval(n.value)
            except Exception:
                continue
            if isinstance(v, int) and not isinstance(v, bool):
                res[n.targets[0].id] = v
    return res


def _assign_texts(fn):
    """{target text: [value text, ...]} for plain and augmented assignments in source order"""
    res = {}
    for n in _sorted_nodes(fn, lambda n: isinstance(n, (ast.Assign, ast.AugAssign))):
        if isinstance(n, ast.Assign):
            for t in n.targets:
                res.setdefault(ast.unparse(t), []).append(ast.unparse(n.value))
        else:
            res.setdefault(ast.unparse(n.target), []).append(ast.unparse(n))
    return res


def extract(ctx):
    files = sorted({m[0] for m in METHODS} | {'cflib/crtp/crtpstack.py', 'cflib/utils/encoding.py', 'cflib/crazyflie/__init__.py'})
    g = X.GenFile(PID, files)
    trees = {f: X.parse(f) for f in files}
    # ---- constants
    crtp = trees['cflib/crtp/crtpstack.py']
    _consts(g, 'Port', _class_consts(X.find(crtp, 'CRTPPort')),
            ['COMMANDER', 'LOCALIZATION', 'COMMANDER_GENERIC', 'SETPOINT_HL', 'PLATFORM'])
    pkc = X.find(crtp, 'CRTPPacket')
    mds = _class_consts(pkc)
    X.expect('MAX_DATA_SIZE' in mds, 'CRTPPacket.MAX_DATA_SIZE not found')
    g.nat('maxDataSize', mds['MAX_DATA_SIZE'])
    _consts(g, 'Cmdr', _module_consts(trees['cflib/crazyflie/commander.py']), ['TYPE_STOP', 'TYPE_HOVER', 'SET_SETPOINT_CHANNEL'])
    _consts(g, 'HL', _class_consts(X.find(trees['cflib/crazyflie/high_level_commander.py'], 'HighLevelCommander')), ['COMMAND_GO_TO_2'])
    _consts(g, 'Loc', _class_consts(X.find(trees['cflib/crazyflie/localization.py'], 'Localization')), ['EXT_POSE', 'GENERIC_CH'])
    _consts(g, 'Plat', _module_consts(trees['cflib/crazyflie/platformservice.py']), ['PLATFORM_COMMAND', 'PLATFORM_REQUEST_ARMING'])
    _consts(g, 'Lopo', _class_consts(X.find(trees['lpslib/lopoanchor.py'], 'LoPoAnchor')), ['LPP_TYPE_POSITION'])
    # ---- CRTP header logic
    uh = X.find(pkc, '_update_header')
    ua = _assign_texts(uh)
    X.expect('self.header' in ua and len(ua['self.header']) == 1, '_update_header: expected one assignment to self.header')
    hnode = [n for n in ast.walk(uh) if isinstance(n, ast.Assign)][0].value
    g.raw('def hdrExpr (port chan : Nat) : Nat := ' + X.expr_to_lean(hnode, {'self._port': 'port', 'self.channel': 'chan'}))
    init = X.find(pkc, '__init__')
    g.strings('pktInitParams', _params(init))
    ia = {ast.unparse(n.targets[0]): n.value for n in ast.walk(init) if isinstance(n, ast.Assign) and len(n.targets) == 1}
    for nm in ('self._port', 'self._channel'):
        X.expect(nm in ia, 'CRTPPacket.__init__: %s not assigned' % nm)
    g.raw('def initPortExpr (h : Nat) : Nat := ' + X.expr_to_lean(ia['self._port'], {'header': 'h'}))
    g.raw('def initChanExpr (h : Nat) : Nat := ' + X.expr_to_lean(ia['self._channel'], {'header': 'h'}))
    for prop in ('port', 'channel'):
        setter = X.find(pkc, '_set_' + prop)
        g.strings('set_%s_body' % prop, [ast.unparse(s) for s in setter.body if not (isinstance(s, ast.Expr) and isinstance(s.value, ast.Constant))])
    sh = X.find(pkc, 'set_header')
    g.strings('set_header_body', [ast.unparse(s) for s in sh.body if not (isinstance(s, ast.Expr) and isinstance(s.value, ast.Constant))])
    props = {ast.unparse(n.targets[0]): ast.unparse(n.value) for n in pkc.body if isinstance(n, ast.Assign) and len(n.targets) == 1}
    g.strings('pktProperties', ['%s=%s' % (k, props.get(k, '?')) for k in ('data', 'port', 'channel')])
    # size check in Crazyflie.send_packet
    sp = X.find(trees['cflib/crazyflie/__init__.py'], 'Crazyflie.send_packet')
    first = [s for s in sp.body if not (isinstance(s, ast.Expr) and isinstance(s.value, ast.Constant))][0]
    g.string('sendPacketFirstStmt', ast.unparse(first).replace('\n', ' ; '))
    for nm in ('is_data_size_valid', 'available_data_size', 'get_data_size'):
        f = X.find(pkc, nm)
        rets = [ast.unparse(n.value) for n in ast.walk(f) if isinstance(n, ast.Return) and n.value is not None]
        g.strings('pkt_' + nm, rets)
    # ---- the emitting methods
    fns = {}
    for relpath, qual, key in METHODS:
        fns[key] = _emit_method(g, trees, relpath, qual, key)
    # ---- completeness of the method list: every function of the anchored classes that hands something to the link
    handoff = ('send_packet', '_send_packet', 'send_short_lpp_packet', 'send_extpos', 'send_extpose')
    for relpath, cls in (('cflib/crazyflie/commander.py', 'Commander'), ('cflib/crazyflie/high_level_commander.py', 'HighLevelCommander'),
                         ('cflib/crazyflie/localization.py', 'Localization'), ('cflib/crazyflie/extpos.py', 'Extpos'),
                         ('cflib/crazyflie/platformservice.py', 'PlatformService'), ('lpslib/lopoanchor.py', 'LoPoAnchor')):
        c = X.find(trees[relpath], cls)
        names = []
        for fn in c.body:
            if isinstance(fn, (ast.FunctionDef, ast.AsyncFunctionDef)):
                if any(isinstance(n, ast.Call) and isinstance(n.func, ast.Attribute) and n.func.attr in handoff for n in ast.walk(fn)):
                    names.append(fn.name)
        g.strings('emitters_' + cls, names)
        # state kept by the long-lived objects: every attribute store (method:attr), every non-constant `self.<attr>` read by
        # an emitting method, decorators (caches) and global/nonlocal statements
        stores, reads, decos = [], set(), []
        modelled = {q.split('.')[1] for rp, q, _ in METHODS if rp == relpath and q.split('.')[0] == cls}
        for fn in c.body:
            if not isinstance(fn, (ast.FunctionDef, ast.AsyncFunctionDef)):
                continue
            for d in fn.decorator_list:
                decos.append('%s:@%s' % (fn.name, ast.unparse(d)))
            for n in _sorted_nodes(fn, lambda n: isinstance(n, (ast.Attribute, ast.Subscript)) and isinstance(n.ctx, (ast.Store, ast.Del))):
                root = ast.unparse(n).split('.')[0].split('[')[0]
                # the local packet being built and local dicts/lists are not object state
                if (isinstance(n, ast.Attribute) and root != 'pk') or (isinstance(n, ast.Subscript) and (root == 'self' or root[:1].isupper())):
                    stores.append('%s:%s' % (fn.name, ast.unparse(n)))
            for n in _sorted_nodes(fn, lambda n: isinstance(n, (ast.Global, ast.Nonlocal))):
                stores.append('%s:%s' % (fn.name, ast.unparse(n)))
            for n in ast.walk(fn):
                if isinstance(n, ast.Call) and ast.unparse(n.func) in ('setattr', 'object.__setattr__', 'delattr'):
                    stores.append('%s:%s' % (fn.name, ast.unparse(n)))
            if fn.name in modelled:
                for n in ast.walk(fn):
                    if isinstance(n, ast.Attribute) and isinstance(n.value, ast.Name) and n.value.id == 'self' and isinstance(n.ctx, ast.Load) \
                            and not n.attr.isupper():
                        reads.add(n.attr)
        g.strings('stores_' + cls, stores)
        g.strings('selfReads_' + cls, sorted(reads))
        g.strings('decorators_' + cls, decos)
    gpv = X.find(trees['cflib/crazyflie/platformservice.py'], 'PlatformService.get_protocol_version')
    g.strings('getProtocolVersion', [ast.unparse(st) for st in gpv.body if not (isinstance(st, ast.Expr) and isinstance(st.value, ast.Constant))])
    # module-level mutable state of the anchored modules (anything but imports, constants, classes, functions, docstrings, loggers)
    for relpath in ('cflib/crazyflie/commander.py', 'cflib/crazyflie/high_level_commander.py', 'cflib/crazyflie/localization.py',
                    'cflib/crazyflie/extpos.py', 'cflib/crazyflie/platformservice.py', 'lpslib/lopoanchor.py', 'cflib/utils/encoding.py'):
        odd = []
        for st in trees[relpath].body:
            if isinstance(st, (ast.Import, ast.ImportFrom, ast.ClassDef, ast.FunctionDef)):
                continue
            if isinstance(st, ast.Expr) and isinstance(st.value, ast.Constant):
                continue
            if isinstance(st, ast.Assign):
                try:
                    v = ast.literal_eval(st.value)
                    if isinstance(v, (int, float, str)) or (isinstance(v, list) and all(isinstance(x, str) for x in v)):
                        continue
                except Exception:
                    pass
            odd.append(ast.unparse(st).split('\n')[0][:100])
        g.strings('moduleState_' + relpath.split('/')[-1][:-3], odd)
    # ---- method specific expressions
    # send_setpoint: x-mode mix text, full-state scaling
    at = _assign_texts(fns['setpoint'])
    g.strings('setpoint_xmodeAssign', at.get('(roll, pitch)', at.get('roll, pitch', [])))
    ifs = [ast.unparse(n.test) for n in _sorted_nodes(fns['setpoint'], lambda n: isinstance(n, ast.If))]
    g.strings('setpoint_ifs', ifs)
    thr = [n for n in ast.walk(fns['setpoint']) if isinstance(n, ast.Compare) and ast.unparse(n.left) == 'thrust' and isinstance(n.ops[0], ast.Gt)]
    X.expect(len(thr) == 1, 'send_setpoint: expected one `thrust > <const>` comparison')
    try:
        g.nat('thrustMax', int(ast.literal_eval(thr[0].comparators[0])))
    except Exception:
        raise ExtractError('send_setpoint: thrust bound is not a literal')
    fs = fns['fullState']
    inner = [n for n in ast.walk(fs) if isinstance(n, ast.FunctionDef) and n is not fs]
    X.expect(len(inner) == 1, 'send_full_state_setpoint: expected one local helper')
    g.string('fullState_helper', inner[0].name + '(' + ','.join(_params(inner[0])) + '): ' +
             ' ; '.join(ast.unparse(s) for s in inner[0].body))
    fa = _assign_texts(fs)
    g.strings('fullState_assigns', ['%s = %s' % (k, v) for k in sorted(fa) for v in fa[k] if k not in ('pk', 'pk.port', 'pk.data')])
    # takeoff / land yaw handling
    for key in ('hlTakeoff', 'hlLand'):
        a = _assign_texts(fns[key])
        g.strings(key + '_assigns', ['%s = %s' % (k, v) for k in sorted(a) for v in a[k]])
        g.strings(key + '_ifs', [ast.unparse(n.test) for n in _sorted_nodes(fns[key], lambda n: isinstance(n, ast.If))])
    # spiral clamps
    sa = _assign_texts(fns['hlSpiral'])
    g.strings('hlSpiral_assigns', ['%s = %s' % (k, v) for k in sorted(sa) for v in sa[k]])

    def const_float(src):
        try:
            v = eval(compile(ast.parse(src, mode='eval'), '<gen>', 'eval'), {'__builtins__': {}}, {'math': math})
        except Exception as e:
            raise ExtractError('spiral: cannot evaluate %s: %s' % (src, e))
        X.expect(isinstance(v, (int, float)) and not isinstance(v, bool), 'spiral: %s is not a number' % src)
        return v
    cmps = [n for n in _sorted_nodes(fns['hlSpiral'], lambda n: isinstance(n, ast.Compare)) if ast.unparse(n.left) in ('angle', 'r0', 'rF')]
    X.expect([ast.unparse(n.left) for n in cmps] == ['angle', 'angle', 'r0', 'rF'], 'spiral: clamp comparisons changed: %s' % [ast.unparse(n) for n in cmps])
    for nm, n in zip(('angleHi', 'angleLo', 'r0Lo', 'rFLo'), cmps):
        X.expect(len(n.ops) == 1, 'spiral: chained comparison')
        g.string('spiral_%s_op' % nm, type(n.ops[0]).__name__)
        b = const_float(ast.unparse(n.comparators[0]))
        g.nat('spiral_%s_f64' % nm, f64bits(float(b)))
    for tgt, nm in (('angle', 'angleSet'), ('r0', 'r0Set'), ('rF', 'rFSet')):
        vals = sa.get(tgt, [])
        X.expect(len(vals) == (2 if tgt == 'angle' else 1), 'spiral: assignments to %s changed: %s' % (tgt, vals))
        for k, v in enumerate(vals):
            c = const_float(v)
            g.nat('spiral_%s%d_f32' % (nm, k), f32bits(c))
    # lighthouse persist
    la = _assign_texts(fns['lhPersist'])
    X.expect('max_bs_nr' in la and len(la['max_bs_nr']) == 1, 'lh persist: max_bs_nr not found')
    try:
        g.nat('lhMaxBs', int(la['max_bs_nr'][0]))
    except ValueError:
        raise ExtractError('lh persist: max_bs_nr is not a literal')
    g.strings('lhPersist_maskGeo', la.get('mask_geo', []))
    g.strings('lhPersist_maskCalib', la.get('mask_calib', []))
    g.strings('lhPersist_calls', [ast.unparse(n) for n in _sorted_nodes(fns['lhPersist'], lambda n: isinstance(n, ast.Call) and isinstance(n.func, ast.Attribute) and n.func.attr == 'sort')])
    g.strings('lhPersist_fors', ['%s in %s' % (ast.unparse(n.target), ast.unparse(n.iter)) for n in _sorted_nodes(fns['lhPersist'], lambda n: isinstance(n, ast.For))])
    g.strings('lhPersist_ifs', [ast.unparse(n.test) for n in _sorted_nodes(fns['lhPersist'], lambda n: isinstance(n, ast.If))])
    # lopo set_position locals
    lp = _assign_texts(fns['lopoPosition'])
    g.strings('lopoPosition_assigns', ['%s = %s' % (k, v) for k in sorted(lp) for v in lp[k] if k != 'data'])
    # ---- compress_quaternion
    cq = X.find(trees['cflib/utils/encoding.py'], 'compress_quaternion')
    ca = _assign_texts(cq)
    for nm in ('i_largest', 'negate', 'comp', 'negbit', 'mag', 'quat_n', 'M_SQRT1_2'):
        X.expect(nm in ca, 'compress_quaternion: no assignment to ' + nm)
        g.strings('cq_' + nm, ca[nm])
    g.strings('cq_fors', ['%s in %s' % (ast.unparse(n.target), ast.unparse(n.iter)) for n in _sorted_nodes(cq, lambda n: isinstance(n, ast.For))])
    g.strings('cq_ifs', [ast.unparse(n.test) for n in _sorted_nodes(cq, lambda n: isinstance(n, ast.If))])
    g.strings('cq_returns', [ast.unparse(n.value) for n in _sorted_nodes(cq, lambda n: isinstance(n, ast.Return) and n.value is not None)])
    steps = [n for n in ast.walk(cq) if isinstance(n, ast.Assign) and ast.unparse(n.targets[0]) == 'comp' and isinstance(n.value, ast.BinOp)]
    X.expect(len(steps) == 1, 'compress_quaternion: expected one `comp = <bit expression>`')
    g.raw('def cqStep (comp negbit mag : Nat) : Nat := ' + X.expr_to_lean(steps[0].value, {'comp': 'comp', 'negbit': 'negbit', 'mag': 'mag'}))
    return {'C08.lean': g.render()}


# ---------------------------------------------------------------------------------------------------
# Tie B: the real code on a stub Crazyflie
class _Link:
    needs_resending = False

    def __init__(self):
        self.sent = []

    def send_packet(self, pk):
        # a queueing driver (RadioDriver, UsbDriver, ...): the packet OBJECT is queued; header byte and data bytes are read
        # only when the driver's thread transmits, i.e. after send_packet returned and possibly after further API calls
        self.sent.append(pk)

    @staticmethod
    def serialise(pk):
        return (pk.header, bytes(pk.data))


_STUB = {}


def _stub_class():
    """a Crazyflie stand-in without threads whose send_packet IS Crazyflie.send_packet"""
    if 'cls' in _STUB:
        return _STUB['cls']
    import logging
    logging.disable(logging.CRITICAL)
    import threading
    from cflib.crazyflie import Crazyflie
    from cflib.crazyflie.commander import Commander
    from cflib.crazyflie.extpos import Extpos
    from cflib.crazyflie.high_level_commander import HighLevelCommander
    from cflib.crazyflie.localization import Localization
    from cflib.crazyflie.platformservice import PlatformService
    from cflib.utils.callbacks import Caller
    from lpslib.lopoanchor import LoPoAnchor

    class StubCF:
        send_packet = Crazyflie.send_packet
        # helpers that send_packet delegates to in the current tree (none in older trees)
        for _n in ('_send_packet_locked', '_link_error_cb', '_cancel_answer_timers'):
            if hasattr(Crazyflie, _n):
                locals()[_n] = getattr(Crazyflie, _n)
        del _n

        def __init__(self, ver):
            self.link = _Link()
            self._send_lock = threading.Lock()
            self._send_lock_owner = None
            self._deferred_link_error = None
            self._answer_patterns = {}
            self.packet_sent = Caller()
            self.platform = PlatformService(self)
            self.platform._protocolVersion = ver
            self.commander = Commander(self)
            self.high_level_commander = HighLevelCommander(self)
            self.loc = Localization(self)
            self.extpos = Extpos(self)
            self.lopo = LoPoAnchor(self)

        def add_port_callback(self, port, cb):
            pass
    _STUB['cls'] = StubCF
    return StubCF


def run_real(ver, fn):
    """call fn(cf) on a fresh stub; returns ('ok', [(header, bytes)...]) or ('err', enum)"""
    import contextlib
    import io
    import warnings
    cf = _stub_class()(ver)
    try:
        with warnings.catch_warnings(), contextlib.redirect_stdout(io.StringIO()):
            warnings.simplefilter('ignore')
            fn(cf)
    except Exception as e:
        if cf._send_lock.locked():
            return ('err', 'lock-leaked:' + exc_enum(e))
        if cf.link.sent:
            return ('err', 'after-send:' + exc_enum(e))
        return ('err', exc_enum(e))
    return ('ok', [_Link.serialise(pk) for pk in cf.link.sent])


def show_real(r):
    if r[0] == 'err':
        return 'err ' + r[1]
    return 'ok ' + (';'.join('%d:%s' % (h, hexs(d)) for h, d in r[1]) or '-')


# ---- argument encoding for the model ------------------------------------------------------------------
def conv(x):
    try:
        return str(f32bits(x))
    except OverflowError:
        return 'Eoverflow'
    except struct.error:
        return 'Estruct_error'


def num(x):
    if isinstance(x, (bool, int)):
        return 'i%d:%s' % (int(x), conv(x))
    return 'f%d:%s' % (f64bits(x), conv(x))


def optnum(x):
    return 'none' if x is None else num(x)


def scaled(x):
    if isinstance(x, (bool, int)):
        return 'i%d' % int(x)
    return 'f%d' % f64bits(x * 1000)


def vec3(v):
    return ','.join(scaled(x) for x in v)


def quat_norm(quat):
    """the double arithmetic of compress_quaternion (normalisation, scaling) - outside the model"""
    import numpy as np
    with np.errstate(all='ignore'):
        quat_n = np.array(quat) / np.linalg.norm(quat)
        M_SQRT1_2 = 1.0 / np.sqrt(2)
        return [(float(quat_n[i]), float(((1 << 9) - 1) * (abs(quat_n[i]) / M_SQRT1_2) + 0.5)) for i in range(4)]


def quat_oracle(quat):
    return ','.join('%d:%d' % (f64bits(q), f64bits(t)) for q, t in quat_norm(quat))


def intlist(l):
    return ','.join(str(int(x)) for x in l) or '-'


# ---------------------------------------------------------------------------------------------------
# Python twin of Spec/C08.lean (firmware decoder), written from the firmware's packed structs; it is cross-checked
# against the Lean `Fw.decode` / `Fw.decodeLpp` on every packet of every run (correspond) and used by search().
_CT = {'uint8_t': (1, False), 'bool': (1, False), 'uint16_t': (2, False), 'uint32_t': (4, False), 'int16_t': (2, True), 'float': (4, False)}


def c_unpack(layout, data):
    """exact-size unpack of a packed little-endian C struct; floats are returned as bit patterns"""
    if sum(_CT[t][0] for t in layout) != len(data):
        return None
    out, off = [], 0
    for t in layout:
        n, signed = _CT[t]
        out.append(int.from_bytes(data[off:off + n], 'little', signed=signed))
        off += n
    return out


def fneg32(b):
    return b ^ 0x80000000


def quat_fields(comp):
    l = comp >> 30
    fields = []
    for i in (3, 2, 1, 0):
        if i != l:
            fields.append('%d/%d/%d' % (i, (comp >> 9) & 1, comp & 511))
            comp >>= 10
    return '%d:%s' % (l, ','.join(fields))


F4 = ['float'] * 4


def fw_decode(ver, header, data):
    port, chan = (header >> 4) & 15, header & 3
    d = bytes(data)

    def fmt(name, vals):
        return name + ''.join(' %d' % v for v in vals)
    if (port, chan) == (3, 0):                                       # crtp_commander_rpyt.c: struct CommanderCrtpLegacyValues
        v = c_unpack(['float', 'float', 'float', 'uint16_t'], d)
        return fmt('rpyt', v) if v else 'none'
    if (port, chan) == (7, 0):                                       # crtp_commander_generic.c
        if not d:
            return 'none'
        t, r = d[0], d[1:]
        if t == 0:
            return 'stop' if not r else 'none'
        if t in (1, 2, 5, 7, 8, 9, 10):
            if t in (8, 9, 10) and ver < 9:
                return 'none'
            v = c_unpack(F4, r)
            if not v:
                return 'none'
            if t == 1:
                v[3] = fneg32(v[3])          # velocityWorldTypeLegacy: yawrate = -values->yawrate
            if t in (2, 5):
                v[2] = fneg32(v[2])          # zDistanceTypeLegacy / hoverTypeLegacy
            return fmt({1: 'velocityWorld', 8: 'velocityWorld', 2: 'zDistance', 9: 'zDistance', 5: 'hover', 10: 'hover', 7: 'position'}[t], v)
        if t == 6:                                                   # struct fullStatePacket_s
            v = c_unpack(['int16_t'] * 9 + ['uint32_t'] + ['int16_t'] * 3, r)
            if not v:
                return 'none'
            return 'fullState ' + ' '.join(str(x) for x in v[:9]) + ' ' + quat_fields(v[9]) + ' ' + ' '.join(str(x) for x in v[10:])
        return 'none'
    if (port, chan) == (7, 1):
        if d and d[0] == 0:                                          # metaNotifySetpointsStop
            v = c_unpack(['uint32_t'], d[1:])
            return fmt('notifySetpointsStop', v) if v else 'none'
        return 'none'
    if (port, chan) == (8, 0):                                       # crtp_commander_high_level.c
        if not d:
            return 'none'
        c, r = d[0], d[1:]
        table = {0: ('hlSetGroupMask', ['uint8_t']), 3: ('hlStop', ['uint8_t']),
                 4: ('hlGoTo', ['uint8_t', 'uint8_t'] + ['float'] * 5),
                 5: ('hlStartTrajectory', ['uint8_t'] * 4 + ['float']),
                 6: ('hlDefineTrajectory', ['uint8_t', 'uint8_t', 'uint8_t', 'uint32_t', 'uint8_t']),
                 7: ('hlTakeoff2', ['uint8_t', 'float', 'float', 'bool', 'float']),
                 8: ('hlLand2', ['uint8_t', 'float', 'float', 'bool', 'float']),
                 11: ('hlSpiral', ['uint8_t'] * 3 + ['float'] * 5), 12: ('hlGoTo2', ['uint8_t'] * 3 + ['float'] * 5)}
        if c not in table or (c in (11, 12) and ver < 8):
            return 'none'
        v = c_unpack(table[c][1], r)
        if not v:
            return 'none'
        if c in (7, 8):
            v[3] = 1 if v[3] else 0
        return fmt(table[c][0], v)
    if (port, chan) == (6, 0):                                       # crtp_localization_service.c: struct CrtpExtPosition
        v = c_unpack(['float'] * 3, d)
        return fmt('extPosition', v) if v else 'none'
    if (port, chan) == (6, 1):
        if not d:
            return 'none'
        t, r = d[0], d[1:]
        if t == 2:
            return 'shortLpp %d %s' % (r[0], hexs(r[1:])) if r else 'none'
        if t == 3:
            return 'emergencyStop' if not r else 'none'
        if t == 4:
            return 'emergencyStopWatchdog' if not r else 'none'
        if t == 8:
            v = c_unpack(['float'] * 7, r)
            return fmt('extPose', v) if v else 'none'
        if t == 11:
            v = c_unpack(['uint16_t', 'uint16_t'], r)
            return fmt('lhPersist', v) if v else 'none'
        return 'none'
    if (port, chan) == (13, 0):                                      # platformservice.c
        if len(d) == 2 and d[0] == 0:
            return 'setContinousWave %d' % (1 if d[1] else 0)
        if len(d) == 2 and d[0] == 1:
            return 'armSystem %d' % (1 if d[1] else 0)
        if len(d) == 1 and d[0] == 2:
            return 'recoverSystem'
        return 'none'
    return 'none'


def lpp_decode(payload):
    d = bytes(payload)
    if not d:
        return 'none'
    t, r = d[0], d[1:]
    if t == 1:
        v = c_unpack(['float'] * 3, r)
        return 'position %d %d %d' % tuple(v) if v else 'none'
    if t in (2, 3):
        v = c_unpack(['uint8_t'], r)
        return ('reboot %d' if t == 2 else 'mode %d') % v[0] if v else 'none'
    return 'none'


# ---------------------------------------------------------------------------------------------------
# Python twin of `expected?` (Proofs/C08Spec.lean): the command the ARGUMENTS denote, or Unrep
class Unrep(Exception):
    pass


def x_f32(x):
    try:
        return f32bits(x)
    except (OverflowError, struct.error):
        raise Unrep('float field')


def x_uint(n, x):
    if isinstance(x, (bool, int)) and 0 <= int(x) < 256 ** n:
        return int(x)
    raise Unrep('uint%d field' % (8 * n))


def x_fix16(x):
    try:
        v = int(x * 1000)
    except (ValueError, OverflowError):
        raise Unrep('fixed point')
    if -32768 <= v <= 32767:
        return v
    raise Unrep('int16 field')


def is_int0(x):
    return isinstance(x, (bool, int)) and int(x) == 0


def x_negated(x, firmware_flips_back):
    """field of an argument the code sends as -x.  Returns the pattern the decoder twin reports: the wire pattern (RPYT
    pitch) or the value the firmware uses after its own flip (legacy yaw rates).  For the Python int 0 the wire carries
    +0.0 (not -0.0): the same number (side condition Call.Pre / theorem neg_int_zero)."""
    b = x_f32(x)
    if firmware_flips_back:
        return 0x80000000 if is_int0(x) else b
    return 0 if is_int0(x) else fneg32(b)


TWO_PI = 6.283185307179586


def expected(ver, name, a):
    """canonical text of the firmware command the arguments denote; 'nothing' if the call must not send;
    raises Unrep when some argument is not representable"""
    def fmt(nm, vals):
        return nm + ''.join(' %d' % v for v in vals)
    if name == 'setpoint':
        xm, roll, pitch, yaw, thrust = a
        if xm:
            roll, pitch = 0.707 * (roll - pitch), 0.707 * (roll + pitch)
        return fmt('rpyt', [x_f32(roll), x_negated(pitch, False), x_f32(yaw), x_uint(2, thrust)])
    if name == 'notifyStop':
        return fmt('notifySetpointsStop', [x_uint(4, a[0])])
    if name == 'stopSetpoint':
        return 'stop'
    if name == 'velocityWorld':
        return fmt('velocityWorld', [x_f32(a[0]), x_f32(a[1]), x_f32(a[2]), x_negated(a[3], True) if ver <= 8 else x_f32(a[3])])
    if name in ('zdistance', 'hover'):
        return fmt({'zdistance': 'zDistance', 'hover': 'hover'}[name],
                   [x_f32(a[0]), x_f32(a[1]), x_negated(a[2], True) if ver <= 8 else x_f32(a[2]), x_f32(a[3])])
    if name == 'position':
        return fmt('position', [x_f32(v) for v in a])
    if name == 'hlGroupMask':
        return fmt('hlSetGroupMask', [x_uint(1, a[0])])
    if name in ('hlTakeoff', 'hlLand'):
        h, d, gm, yaw = a
        return fmt({'hlTakeoff': 'hlTakeoff2', 'hlLand': 'hlLand2'}[name],
                   [x_uint(1, gm), x_f32(h), 0 if yaw is None else x_f32(yaw), 1 if yaw is None else 0, x_f32(d)])
    if name == 'hlStop':
        return fmt('hlStop', [x_uint(1, a[0])])
    if name == 'hlGoTo':
        x, y, z, yaw, d, rel, lin, gm = a
        if ver < 8:
            return fmt('hlGoTo', [x_uint(1, gm), x_uint(1, rel)] + [x_f32(v) for v in (x, y, z, yaw, d)])
        return fmt('hlGoTo2', [x_uint(1, gm), x_uint(1, rel), x_uint(1, lin)] + [x_f32(v) for v in (x, y, z, yaw, d)])
    if name == 'hlSpiral':
        angle, r0, rf, asc, d, sw, cw, gm = a
        if ver < 8:
            return 'nothing'
        phi = f32bits(TWO_PI) if angle > TWO_PI else f32bits(-TWO_PI) if angle < -TWO_PI else x_f32(angle)
        return fmt('hlSpiral', [x_uint(1, gm), x_uint(1, sw), x_uint(1, cw), phi, 0 if r0 < 0 else x_f32(r0), 0 if rf < 0 else x_f32(rf),
                                x_f32(asc), x_f32(d)])
    if name == 'hlStartTraj':
        tid, ts, rel, rev, gm = a
        return fmt('hlStartTrajectory', [x_uint(1, gm), x_uint(1, rel), x_uint(1, rev), x_uint(1, tid), x_f32(ts)])
    if name == 'hlDefineTraj':
        tid, off, n, ty = a
        return fmt('hlDefineTrajectory', [x_uint(1, tid), 1, x_uint(1, ty), x_uint(4, off), x_uint(1, n)])
    if name in ('extpos', 'extposWrap'):
        return fmt('extPosition', [x_f32(v) for v in a])
    if name in ('extpose', 'extposeWrap'):
        return fmt('extPose', [x_f32(v) for v in a])
    if name == 'shortLpp':
        dest, data = a
        if len(data) + 2 > 30:
            raise Unrep('payload too large')
        return 'shortLpp %d %s' % (x_uint(1, dest), hexs(data))
    if name == 'emergencyStop':
        return 'emergencyStop'
    if name == 'emergencyWatchdog':
        return 'emergencyStopWatchdog'
    if name == 'lhPersist':
        masks = []
        for l in a:
            if any(not (0 <= b <= 15) for b in l):
                raise Unrep('base station id')
            masks.append(sum(1 << b for b in set(l)))
        return fmt('lhPersist', masks)
    if name in ('contWave', 'arming'):
        return '%s %d' % ({'contWave': 'setContinousWave', 'arming': 'armSystem'}[name], 1 if x_uint(1, a[0]) else 0)
    if name == 'crashRecovery':
        return 'recoverSystem'
    if name == 'lopoPosition':
        return 'shortLpp %d LPP position %d %d %d' % (x_uint(1, a[0]), x_f32(a[1]), x_f32(a[2]), x_f32(a[3]))
    if name in ('lopoReboot', 'lopoMode'):
        return 'shortLpp %d LPP %s %d' % (x_uint(1, a[0]), {'lopoReboot': 'reboot', 'lopoMode': 'mode'}[name], x_uint(1, a[1]))
    raise KeyError(name)


def expected_fullstate_check(a, decoded):
    """full state: fixed-point fields exactly int(x*1000); the quaternion fields, decompressed as the firmware does,
    must reproduce the caller's (normalised) orientation up to the 9-bit resolution (and the q ~ -q sign).
    Returns None if fine, 'unrep' if some argument is unrepresentable, else a description of the mismatch."""
    import math
    pos, vel, acc, quat, rates = a
    try:
        want = [x_fix16(x) for x in list(pos) + list(vel) + list(acc)]
        wantr = [x_fix16(x) for x in rates]
    except Unrep:
        return 'unrep'
    qs = [float(x) for x in quat]
    if not all(math.isfinite(x) for x in qs):
        return 'unrep'
    n2 = math.fsum(x * x for x in qs)
    if not (1e-200 < n2 < 1e200):
        return 'unrep'
    if decoded is None:
        return 'not sent'
    w = decoded.split(' ')
    if w[0] != 'fullState' or len(w) != 14:
        return 'decoded as ' + decoded
    if [int(x) for x in w[1:10]] != want or [int(x) for x in w[11:14]] != wantr:
        return 'fixed-point fields %s %s, wanted %s %s' % (w[1:10], w[11:14], want, wantr)
    l, fs = w[10].split(':')
    l = int(l)
    qd = [0.0] * 4
    ss = 0.0
    for f in fs.split(','):
        i, nb, m = (int(x) for x in f.split('/'))
        qd[i] = (m / 511.0) / math.sqrt(2) * (-1 if nb else 1)
        ss += qd[i] * qd[i]
    qd[l] = math.sqrt(max(0.0, 1.0 - ss))
    nrm = math.sqrt(n2)
    qn = [x / nrm for x in qs]
    if qn[l] < 0:
        qn = [-x for x in qn]
    err = max(abs(x - y) for x, y in zip(qd, qn))
    if err > 3e-3:
        return 'decompressed quaternion %s differs from normalised argument %s by %g' % (qd, qn, err)
    return None


# ---- the real API calls ----------------------------------------------------------------------------
def call_real(name, a, stateful=False):
    """thunk cf -> None performing the API call (stateful: x-mode is whatever the long-lived Commander holds)"""
    if name == 'setpoint':
        def f(cf):
            if not stateful:
                cf.commander.set_client_xmode(a[0])
            cf.commander.send_setpoint(a[1], a[2], a[3], a[4])
        return f
    c = {'notifyStop': lambda cf: cf.commander.send_notify_setpoint_stop(*a),
         'stopSetpoint': lambda cf: cf.commander.send_stop_setpoint(),
         'velocityWorld': lambda cf: cf.commander.send_velocity_world_setpoint(*a),
         'zdistance': lambda cf: cf.commander.send_zdistance_setpoint(*a),
         'hover': lambda cf: cf.commander.send_hover_setpoint(*a),
         'fullState': lambda cf: cf.commander.send_full_state_setpoint(list(a[0]), list(a[1]), list(a[2]), list(a[3]), a[4][0], a[4][1], a[4][2]),
         'position': lambda cf: cf.commander.send_position_setpoint(*a),
         'hlGroupMask': lambda cf: cf.high_level_commander.set_group_mask(*a),
         'hlTakeoff': lambda cf: cf.high_level_commander.takeoff(a[0], a[1], group_mask=a[2], yaw=a[3]),
         'hlLand': lambda cf: cf.high_level_commander.land(a[0], a[1], group_mask=a[2], yaw=a[3]),
         'hlStop': lambda cf: cf.high_level_commander.stop(*a),
         'hlGoTo': lambda cf: cf.high_level_commander.go_to(a[0], a[1], a[2], a[3], a[4], relative=a[5], linear=a[6], group_mask=a[7]),
         'hlSpiral': lambda cf: cf.high_level_commander.spiral(a[0], a[1], a[2], a[3], a[4], sideways=a[5], clockwise=a[6], group_mask=a[7]),
         'hlStartTraj': lambda cf: cf.high_level_commander.start_trajectory(a[0], a[1], relative=a[2], reversed=a[3], group_mask=a[4]),
         'hlDefineTraj': lambda cf: cf.high_level_commander.define_trajectory(a[0], a[1], a[2], a[3]),
         'extpos': lambda cf: cf.loc.send_extpos(list(a)),
         'extposWrap': lambda cf: cf.extpos.send_extpos(*a),
         'extpose': lambda cf: cf.loc.send_extpose(list(a[:3]), list(a[3:])),
         'extposeWrap': lambda cf: cf.extpos.send_extpose(*a),
         'shortLpp': lambda cf: cf.loc.send_short_lpp_packet(a[0], a[1]),
         'emergencyStop': lambda cf: cf.loc.send_emergency_stop(),
         'emergencyWatchdog': lambda cf: cf.loc.send_emergency_stop_watchdog(),
         'lhPersist': lambda cf: cf.loc.send_lh_persist_data_packet(list(a[0]), list(a[1])),
         'contWave': lambda cf: cf.platform.set_continous_wave(*a),
         'arming': lambda cf: cf.platform.send_arming_request(*a),
         'crashRecovery': lambda cf: cf.platform.send_crash_recovery_request(),
         'lopoPosition': lambda cf: cf.lopo.set_position(a[0], list(a[1:])),
         'lopoReboot': lambda cf: cf.lopo.reboot(*a),
         'lopoMode': lambda cf: cf.lopo.set_mode(*a)}
    return c[name]


def model_line(ver, name, a):
    """request line for Driver/C08.lean; raises OverflowError when the double arithmetic that is outside the model
    (x-mode mix, x*1000) itself raises for huge ints"""
    if name == 'setpoint':
        xm, roll, pitch, yaw, thrust = a
        mr, mp = 0.707 * (roll - pitch), 0.707 * (roll + pitch)       # the x-mode double arithmetic (outside the model)
        return '%d setpoint %d %s %s %s %s %s %s' % (ver, xm, num(roll), num(pitch), num(mr), num(mp), num(yaw), num(thrust))
    if name == 'fullState':
        return '%d fullState %s %s %s %s %s' % (ver, vec3(a[0]), vec3(a[1]), vec3(a[2]), quat_oracle(a[3]), vec3(a[4]))
    if name in ('hlTakeoff', 'hlLand'):
        return '%d %s %s %s %s %s' % (ver, name, num(a[0]), num(a[1]), num(a[2]), optnum(a[3]))
    if name == 'shortLpp':
        return '%d shortLpp %s %s' % (ver, num(a[0]), hexs(a[1]))
    if name == 'lhPersist':
        return '%d lhPersist %s %s' % (ver, intlist(a[0]), intlist(a[1]))
    return ' '.join(['%d' % ver, name] + [num(v) for v in a])


# ---- value pools ------------------------------------------------------------------------------------
F32_MAX = 3.4028234663852886e38
FLOAT_SPECIAL = [0.0, -0.0, 1.0, -1.0, 0.5, -0.25, float('inf'), float('-inf'), float('nan'), -float('nan'),
                 F32_MAX, -F32_MAX, 3.4028235677973362e38, 1.401298464324817e-45, -1.401298464324817e-45, 7e-46, 1e-320, 5e-324,
                 1.1754943508222875e-38, 0.1, -0.1, 3.141592653589793, 6.283185307179586, -6.283185307179586, 6.283185307179587,
                 -6.283185307179587, 6.28318530717958, 65535.0, 65536.0, 32.767, 32.768, -32.768, -32.769, 1e-3]
FLOAT_UNREP = [3.4028235677973366e38, -3.4028235677973366e38, 1e39, -1e39, 1e308, 2 ** 128, -2 ** 128, 10 ** 40, 10 ** 400]
INT_AS_FLOAT = [0, 1, -1, 2, 7, -30, 1000, 16777217, 2 ** 127, True, False]
INT_FIELD_EDGE = [0, 1, 2, 3, 7, 15, 16, 127, 128, 254, 255, 256, 257, -1, -128, -129, 32767, 32768, 65535, 65536, 65537,
                  2 ** 31 - 1, 2 ** 31, 2 ** 32 - 1, 2 ** 32, 2 ** 64, -2 ** 31, True, False]
VERSIONS = [-1, 0, 1, 5, 6, 7, 8, 9, 10, 11, 255]


class Gen:
    """draws arguments; `wild` raises the share of unrepresentable / ill-typed values (a case is mostly-valid otherwise)"""

    def __init__(self, rng):
        self.rng = rng
        self.wild = 0.0

    def case(self):
        r = self.rng.random()
        self.wild = 0.0 if r < 0.55 else 0.04 if r < 0.85 else 0.35

    def ver(self):
        return self.rng.choice(VERSIONS) if self.rng.random() < 0.8 else self.rng.randrange(-1, 40)

    def flt(self):
        rng = self.rng
        if rng.random() < self.wild:
            return rng.choice(FLOAT_UNREP)
        r = rng.random()
        if r < 0.22:
            return rng.choice(FLOAT_SPECIAL)
        if r < 0.30:
            return rng.choice(INT_AS_FLOAT)
        if r < 0.40:
            x = struct.unpack('<d', struct.pack('<Q', rng.getrandbits(64)))[0]        # any binary64 pattern
            if x == x and abs(x) != float('inf') and abs(x) > F32_MAX and rng.random() >= self.wild:
                x = x / 1e300 if abs(x) > 1e300 else x / abs(x)
            return x
        if r < 0.55:
            return struct.unpack('<f', struct.pack('<I', rng.getrandbits(32)))[0]     # any binary32 pattern (exact)
        if r < 0.65:
            return rng.randint(-5, 5)
        if r < 0.78:
            return round(rng.uniform(-40, 40), rng.choice([0, 1, 2, 3]))
        return rng.uniform(-10, 10)

    def field(self, lim=256):
        rng = self.rng
        if rng.random() < self.wild:
            return rng.choice([lim, lim + 1, -1, -lim, 2 ** 64, 1.0, 0.0, 2.5, float('nan')] + INT_FIELD_EDGE)
        r = rng.random()
        if r < 0.6:
            return rng.randrange(lim)
        if r < 0.8:
            return rng.choice([0, 1, lim - 1, lim // 2, True, False])
        return rng.choice([v for v in INT_FIELD_EDGE if 0 <= v < lim])

    def flag(self):
        if self.rng.random() < 0.85:
            return self.rng.choice([True, False])
        return self.field()

    def thrust(self):
        rng = self.rng
        if rng.random() < max(self.wild, 0.1):
            return rng.choice([65536, 65537, -1, -2, 2 ** 32, -2 ** 40, 0.0, 1000.0, 1000.5, 65535.0, 65535.5, 65536.0, -0.0, -1e-9, -1.0,
                               float('nan'), float('inf'), float('-inf'), 1e300])
        return rng.choice([0, 1, 10001, 60000, 65534, 65535, True]) if rng.random() < 0.3 else rng.randrange(0, 65536)

    def vec(self):
        rng = self.rng
        if rng.random() < self.wild:
            return [rng.choice([float('nan'), float('inf'), float('-inf'), 1e300, -1e300, 1e18, 4.5e15, 2 ** 70, 1.0, 32.768, -32.769, 33, -33, 40.0])
                    for _ in range(3)]
        r = rng.random()
        if r < 0.6:
            return [round(rng.uniform(-32.7, 32.7), rng.choice([1, 2, 3, 4, 9])) for _ in range(3)]
        if r < 0.8:
            return [rng.choice([32.767, 32.7679999, -32.768, -32.7689999, 32.7675, 0.0005, -0.0005, 0.001, 0.0009999, 1.0005, 0.0, -0.0, 32, -32,
                                0, 1, 1e-320, 0.29, 0.57, 1.13, 8.2]) for _ in range(3)]
        return [struct.unpack('<f', struct.pack('<I', rng.getrandbits(32) & 0xC1FFFFFF))[0] for _ in range(3)]   # |x| < 32

    def quat(self):
        rng = self.rng
        if rng.random() < self.wild:
            return [rng.choice([float('nan'), float('inf'), float('-inf'), 1e200, -1e200, 1e-200, -1e-200, 0.0, 1.0, 5e-324]) for _ in range(4)]
        r = rng.random()
        if r < 0.5:
            return [rng.gauss(0, 1) for _ in range(4)]
        if r < 0.7:
            q = [rng.choice([0.0, -0.0, 1.0, -1.0, 0.5, -0.5, 0.7071067811865476, -0.7071067811865476, 0, 1, -1]) for _ in range(4)]
            if not any(q):
                q[rng.randrange(4)] = 1.0
            return q
        if r < 0.8:
            q = [0.0] * 4
            q[rng.randrange(4)] = rng.choice([1.0, -1.0, 2.0, -1e-3, 1, -1])
            return q
        a = rng.uniform(0.1, 1) * rng.choice([1, -1])
        return [a, rng.choice([a, -a]), rng.choice([a, -a, 0.0]), rng.choice([a, -a, 0.0])]

    def bslist(self):
        rng = self.rng
        if rng.random() < self.wild:
            return [rng.choice([-1, 0, 1, 14, 15, 16, 17, -5, 100]) for _ in range(rng.randrange(1, 4))]
        r = rng.random()
        if r < 0.15:
            return []
        if r < 0.85:
            return rng.sample(range(16), rng.randrange(1, 17))
        return [rng.randrange(16) for _ in range(rng.randrange(1, 6))]          # may contain duplicates

    def angle(self):
        rng = self.rng
        r = rng.random()
        if r < 0.5:
            return rng.uniform(-8, 8)
        if r < 0.75:
            return rng.choice([6.283185307179586, 6.283185307179587, 6.283185307179585, -6.283185307179586, -6.283185307179587, 6, 7, -6, -7,
                               float('nan'), float('inf'), float('-inf'), 0.0, 1e300, -1e300])
        return self.flt()

    def radius(self):
        rng = self.rng
        return rng.choice([rng.uniform(-1, 2), rng.uniform(0, 2), self.flt(), 0.0, -0.0, -1, 0, 1, -5e-324, float('nan'), float('-inf'), -1e300])


def gen_call(g, name):
    """python arguments of one call of the named method"""
    rng = g.rng
    if name == 'setpoint':
        return (rng.random() < 0.4, g.flt(), g.flt(), g.flt(), g.thrust())
    if name == 'notifyStop':
        return (g.field(2 ** 32),)
    if name in ('stopSetpoint', 'emergencyStop', 'emergencyWatchdog', 'crashRecovery'):
        return ()
    if name in ('velocityWorld', 'zdistance', 'hover', 'position'):
        return tuple(g.flt() for _ in range(4))
    if name == 'fullState':
        return (g.vec(), g.vec(), g.vec(), g.quat(), g.vec())
    if name in ('hlGroupMask', 'hlStop'):
        return (g.field(),)
    if name in ('hlTakeoff', 'hlLand'):
        return (g.flt(), g.flt(), g.field(), None if rng.random() < 0.3 else g.flt())
    if name == 'hlGoTo':
        return tuple(g.flt() for _ in range(5)) + (g.flag(), g.flag(), g.field())
    if name == 'hlSpiral':
        return (g.angle(), g.radius(), g.radius(), g.flt(), g.flt(), g.flag(), g.flag(), g.field())
    if name == 'hlStartTraj':
        return (g.field(), g.flt(), g.flag(), g.flag(), g.field())
    if name == 'hlDefineTraj':
        return (g.field(), g.field(2 ** 32), g.field(), rng.choice([0, 1, 0, 1, g.field()]))
    if name in ('extpos', 'extposWrap'):
        return tuple(g.flt() for _ in range(3))
    if name in ('extpose', 'extposeWrap'):
        return tuple(g.flt() for _ in range(7))
    if name == 'shortLpp':
        data = bytes(rng.randrange(256) for _ in range(rng.choice([0, 1, 2, 5, 13, 27, 28, 28, 29, 30, 40] if g.wild else [0, 1, 2, 5, 13, 27, 28])))
        return (g.field(), rng.choice([bytes, bytearray])(data))
    if name == 'lhPersist':
        return (g.bslist(), g.bslist())
    if name in ('contWave', 'arming'):
        return (g.flag(),)
    if name == 'lopoPosition':
        return (g.field(), g.flt(), g.flt(), g.flt())
    if name in ('lopoReboot', 'lopoMode'):
        return (g.field(), rng.choice([0, 1, 2, 3, g.field()]))
    raise KeyError(name)


WEIGHTS = [('setpoint', 6), ('notifyStop', 2), ('stopSetpoint', 0.2), ('velocityWorld', 4), ('zdistance', 4), ('hover', 4), ('fullState', 8),
           ('position', 3), ('hlGroupMask', 1), ('hlTakeoff', 3), ('hlLand', 3), ('hlStop', 1), ('hlGoTo', 4), ('hlSpiral', 5), ('hlStartTraj', 3),
           ('hlDefineTraj', 3), ('extpos', 2), ('extposWrap', 1), ('extpose', 2), ('extposeWrap', 1), ('shortLpp', 3), ('emergencyStop', 0.2),
           ('emergencyWatchdog', 0.2), ('lhPersist', 4), ('contWave', 1), ('arming', 1), ('crashRecovery', 0.2), ('lopoPosition', 2),
           ('lopoReboot', 1), ('lopoMode', 1)]


def gen_cases(ctx, base):
    """[(name, ver, args, model line)]"""
    g = Gen(ctx.rng)
    cases = []
    for name, w in WEIGHTS:
        n = max(3, int(base * w))
        made = tries = 0
        while made < n and tries < 4 * n:
            tries += 1
            g.case()
            ver = g.ver()
            a = gen_call(g, name)
            try:
                line = model_line(ver, name, a)
            except OverflowError:
                ctx.count('skipped:double-arithmetic-raises')      # huge int in the x-mode mix / x*1000: outside the model
                continue
            made += 1
            cases.append((name, ver, a, line))
    return cases


def _eval_args(text):
    """arguments are stored as their Python repr (nan / inf / bytes literals included)"""
    return eval(text, {'__builtins__': {}}, {'nan': float('nan'), 'inf': float('inf'), 'bytearray': bytearray})


def corpus_cases():
    """harness/corpus/c08/*.json: {"cases": [{"name": method, "ver": protocol version, "args": "<python repr of the argument tuple>"}]}"""
    import glob
    import json
    import os
    out = []
    for f in sorted(glob.glob(os.path.join(os.path.dirname(os.path.dirname(os.path.abspath(__file__))), 'corpus', 'c08', '*.json'))):
        for e in json.load(open(f)).get('cases', []):
            out.append((e['name'], int(e['ver']), _eval_args(e['args'])))
    return out


# ---- histories: ONE long-lived object set, protocol version and x-mode change between calls -------------
VERSIONED = ['velocityWorld', 'zdistance', 'hover', 'hlGoTo', 'hlSpiral']
FAMILIES = [['setpoint', 'notifyStop', 'stopSetpoint', 'velocityWorld', 'zdistance', 'hover', 'fullState', 'position'],
            ['hlGroupMask', 'hlTakeoff', 'hlLand', 'hlStop', 'hlGoTo', 'hlSpiral', 'hlStartTraj', 'hlDefineTraj'],
            ['extpos', 'extpose', 'shortLpp', 'emergencyStop', 'emergencyWatchdog', 'lhPersist', 'extposWrap', 'extposeWrap'],
            ['contWave', 'arming', 'crashRecovery'], ['lopoPosition', 'lopoReboot', 'lopoMode', 'shortLpp']]
SWITCH_VERSIONS = [-1, 0, 7, 8, 9, 10]


def real_negotiate(cf, v, how):
    """the platform service of the long-lived Crazyflie learns the version of a (new) connection"""
    from cflib.crtp.crtpstack import CRTPPacket
    if how == 'set':
        cf.platform._protocolVersion = v
        return
    cf.platform.fetch_platform_informations(lambda: None)        # start of a connection: version unknown (-1), request sent
    if how == 'fetch':
        return
    pk = CRTPPacket()
    pk.set_header(15, 1)
    if how == 'old-firmware':                                     # no magic string: protocol versioning not supported -> -1
        pk.data = b'some other firmware'
        cf.platform._crt_service_callback(pk)
        return
    pk.data = b'Bitcraze Crazyflie'
    cf.platform._crt_service_callback(pk)
    pk = CRTPPacket()
    pk.set_header(13, 1)
    pk.data = (0, v)
    cf.platform._platform_callback(pk)


def run_history(events):
    """events: ('xmode', b) | ('ver', v, how) | ('call', name, args) | ('transmit',).  The link queues packet objects; they are
    serialised at the ('transmit',) events and at the end of the history (never at call time).  Returns [(version the
    harness negotiated last, x-mode set last, version the platform object reports, outcome)] for the call events."""
    import contextlib
    import io
    import warnings
    cf = _stub_class()(-1)
    cur_ver, cur_xm = -1, False
    out, frames = [], {}

    def transmit():
        for i, pk in enumerate(cf.link.sent):
            if i not in frames:
                frames[i] = _Link.serialise(pk)
    with warnings.catch_warnings(), contextlib.redirect_stdout(io.StringIO()):
        warnings.simplefilter('ignore')
        for ev in events:
            if ev[0] == 'xmode':
                cf.commander.set_client_xmode(ev[1])
                cur_xm = bool(ev[1])
            elif ev[0] == 'ver':
                real_negotiate(cf, ev[1], ev[2])
                cur_ver = ev[1] if ev[2] in ('set', 'handshake') else -1
            elif ev[0] == 'transmit':
                transmit()
            else:
                n0 = len(cf.link.sent)
                seen = cf.platform.get_protocol_version()
                name, a = ev[1], ev[2]
                buf = None
                if name == 'shortLpp' and isinstance(a[1], bytearray):
                    buf = bytearray(a[1])                  # the caller's own buffer ...
                    a = (a[0], buf)
                try:
                    call_real(name, a, stateful=True)(cf)
                    r = ('ok', (n0, len(cf.link.sent)))
                except Exception as e:
                    if cf._send_lock.locked():
                        r = ('err', 'lock-leaked:' + exc_enum(e))
                        cf._send_lock.release()
                    elif len(cf.link.sent) > n0:
                        r = ('err', 'after-send:' + exc_enum(e))
                    else:
                        r = ('err', exc_enum(e))
                if buf is not None:
                    buf[:] = b'\xee' * len(buf)             # ... which the caller reuses right after the call
                out.append((cur_ver, cur_xm, seen, r))
        transmit()
    return [(v, x, sn, ('ok', [frames[i] for i in range(*r[1])]) if r[0] == 'ok' else r) for v, x, sn, r in out]


def history_lines(events):
    lines = ['new']
    for ev in events:
        if ev[0] == 'xmode':
            lines.append('xmode %d' % (1 if ev[1] else 0))
        elif ev[0] == 'ver':
            lines.append('negotiated %d' % (ev[1] if ev[2] in ('set', 'handshake') else -1))
        elif ev[0] == 'transmit':
            pass        # when the link serialises does not matter in the model (theorem wire_is_what_was_emitted)
        else:
            lines.append('H ' + model_line(0, ev[1], ev[2]).split(' ', 1)[1])
    return lines


def gen_histories(ctx, nrand):
    """systematic: every versioned method across every ordered pair of versions around both switches (incl. -1 before the
    handshake has finished), each way the version can change; random: mixed histories of all methods"""
    rng = ctx.rng
    g = Gen(rng)
    hs = []
    for m in VERSIONED:
        for v1 in SWITCH_VERSIONS:
            for v2 in SWITCH_VERSIONS:
                g.case()
                g.wild = 0.0
                how1 = 'set' if v1 < 0 else rng.choice(['set', 'handshake'])
                if v2 < 0:
                    ev2 = ('ver', v2 if rng.random() < 0.5 else rng.choice([9, 10]), rng.choice(['fetch', 'old-firmware'])) if rng.random() < 0.7 else ('ver', -1, 'set')
                else:
                    ev2 = ('ver', v2, rng.choice(['set', 'handshake']))
                other = rng.choice([x for x in VERSIONED if x != m])
                hs.append([('ver', v1, how1), ('call', m, gen_call(g, m)), ev2, ('call', m, gen_call(g, m)), ('call', other, gen_call(g, other))])
    # bursts: back-to-back commands of one emitter family (every ordered pair of its methods, then a third), the link
    # transmits only afterwards (or, sometimes, in between)
    for fam in FAMILIES:
        for m1 in fam:
            for m2 in fam:
                g.case()
                g.wild = 0.0
                h = [('ver', rng.choice([7, 8, 9, 10]), 'set'), ('call', m1, gen_call(g, m1))]
                if rng.random() < 0.15:
                    h.append(('transmit',))
                m3 = rng.choice(fam)
                h += [('call', m2, gen_call(g, m2)), ('call', m3, gen_call(g, m3))]
                try:
                    history_lines(h)
                except OverflowError:
                    continue
                hs.append(h)
    names = [n for n, _ in WEIGHTS]
    for _ in range(nrand):
        h = []
        for _ in range(rng.randrange(3, 14)):
            r = rng.random()
            if r < 0.22:
                v = rng.choice(SWITCH_VERSIONS + [11, 255])
                h.append(('ver', v, rng.choice(['set', 'handshake']) if v >= 0 else rng.choice(['set', 'fetch', 'old-firmware'])))
            elif r < 0.32:
                h.append(('xmode', rng.choice([True, False, 1, 0])))
            elif r < 0.37:
                h.append(('transmit',))
            else:
                g.case()
                nm = rng.choice(VERSIONED + ['setpoint', 'setpoint']) if rng.random() < 0.7 else rng.choice(names)
                a = gen_call(g, nm)
                try:
                    model_line(0, nm, a)
                except OverflowError:
                    continue
                h.append(('call', nm, a))
        if any(e[0] == 'call' for e in h):
            hs.append(h)
    return hs


def corpus_histories():
    import glob
    import json
    import os
    out = []
    for f in sorted(glob.glob(os.path.join(os.path.dirname(os.path.dirname(os.path.abspath(__file__))), 'corpus', 'c08', '*.json'))):
        for e in json.load(open(f)).get('histories', []):
            out.append(_eval_args(e['events']))
    return out


def correspond_histories(ctx):
    hs = corpus_histories() + gen_histories(ctx, 60 if ctx.tier == 'quick' else 800)
    lines = []
    for h in hs:
        lines += history_lines(h)
    replies = iter(ctx.lean(DRIVER, lines))
    for h in hs:
        real = iter(run_history(h))
        next(replies)                                   # 'new'
        trail = []
        for ev in h:
            if ev[0] == 'transmit':
                trail.append(('transmit', None))
                continue
            m = next(replies)
            if ev[0] != 'call':
                trail.append(ev[:2])
                continue
            cur_ver, cur_xm, seen, r = next(real)
            got = 'v%d %s' % (seen, show_real(r))
            ctx.count('history:call:' + ev[1])
            if trail and trail[-1][0] == 'call':
                ctx.count('history:back-to-back-before-transmit')
            ctx.count('history:version-in-force:' + ('<8' if cur_ver < 8 else '8' if cur_ver == 8 else '>8'))
            prev = [t[1] for t in trail if t[0] == 'ver']
            if len(prev) >= 2 and (prev[-2] <= 8) != (prev[-1] <= 8):
                ctx.count('history:call-after-crossing-<=8')
            if len(prev) >= 2 and (prev[-2] < 8) != (prev[-1] < 8):
                ctx.count('history:call-after-crossing-<8')
            ctx.case({'history': repr(h)[:300]}, ('hist', repr(h), len(trail)))
            trail.append(('call', ev[1]))
            if got != m:
                ctx.disagree('history:' + ev[1], repr(h)[:600], m[:300], got[:300])


def branches(name, ver, a):
    """branch / condition labels of one call (for the distribution record: none of these may stay constant)"""
    out = []
    if name == 'setpoint':
        out.append('xmode=%s' % a[0])
        t = a[4]
        out.append('thrust:' + ('float' if isinstance(t, float) else 'low' if t < 0 else 'high' if t > 65535 else 'ok'))
        out.append('neg-int0' if is_int0(a[2]) and not a[0] else 'neg-other')
    if name in ('velocityWorld', 'zdistance', 'hover'):
        yr = a[3] if name == 'velocityWorld' else a[2]
        out.append('%s:%s%s' % (name, 'legacy' if ver <= 8 else 'new', ':int0' if is_int0(yr) and ver <= 8 else ''))
    if name == 'hlGoTo':
        out.append('goto:' + ('legacy' if ver < 8 else 'new') + ':rel=%s:lin=%s' % (bool(a[5]), bool(a[6])))
    if name in ('hlTakeoff', 'hlLand'):
        out.append('%s:yaw=%s' % (name, 'None' if a[3] is None else 'given'))
    if name == 'hlSpiral':
        if ver < 8:
            out.append('spiral:unsupported')
        else:
            out.append('spiral:angle:' + ('hi' if a[0] > TWO_PI else 'lo' if a[0] < -TWO_PI else 'in'))
            out.append('spiral:r0:' + ('neg' if a[1] < 0 else 'ok'))
            out.append('spiral:rF:' + ('neg' if a[2] < 0 else 'ok'))
    if name == 'fullState':
        import math
        q = a[3]
        if all(isinstance(x, (int, float)) and math.isfinite(x) for x in q) and any(q):
            qn = quat_norm(q)
            l = max(range(4), key=lambda i: (abs(qn[i][0]), -i))
            out.append('quat:largest=%d:negate=%s' % (l, qn[l][0] < 0))
        else:
            out.append('quat:degenerate')
        out.append('fullState:' + ('ints' if any(isinstance(x, int) for v in (a[0], a[1], a[2], a[4]) for x in v) else 'floats'))
    if name == 'lhPersist':
        out.append('lh:' + ('dup' if len(set(a[0])) < len(a[0]) or len(set(a[1])) < len(a[1]) else 'nodup') +
                   (':invalid' if any(not 0 <= b <= 15 for b in a[0] + a[1]) else ''))
    if name == 'shortLpp':
        out.append('lpp:len%s28' % ('>' if len(a[1]) > 28 else '<='))
    return out


def correspond(ctx):
    cases = []
    for name, ver, a in corpus_cases():
        cases.append((name, ver, a, model_line(ver, name, a)))
    cases += gen_cases(ctx, 60 if ctx.tier == 'quick' else 700)
    correspond_histories(ctx)
    replies = ctx.lean(DRIVER, [c[3] for c in cases])
    packets = []
    for (name, ver, a, line), model in zip(cases, replies):
        r = run_real(ver, call_real(name, a))
        got = show_real(r)
        ctx.count('op:' + name)
        ctx.count('result:' + (got.split(' ')[0] if got.startswith('ok') else got))
        if got == 'ok -':
            ctx.count('result:nothing-sent')
        ctx.count('version:' + ('<8' if ver < 8 else '8' if ver == 8 else '>8'))
        for b in branches(name, ver, a):
            ctx.count('branch:' + b)
        ctx.case({'line': line[:200]}, (name, line))
        if got != model:
            ctx.disagree(name, line[:400], model[:300], got[:300])
        if r[0] == 'ok':
            packets += [(ver, h, d) for h, d in r[1]]
    # the Python twin of the firmware decoder (used by search) against Spec/C08.lean: on every packet sent above, on
    # the same packets under other protocol versions, truncated / extended / with another header, and on random packets
    rng = ctx.rng
    probes = []
    for ver, h, d in packets:
        probes.append((ver, h, d))
        r = rng.random()
        if r < 0.25:
            probes.append((rng.choice(VERSIONS), h, d))
        elif r < 0.4:
            probes.append((ver, h, d[:rng.randrange(len(d) + 1)]))
        elif r < 0.5:
            probes.append((ver, h, d + bytes([rng.randrange(256)])))
        elif r < 0.6:
            probes.append((ver, rng.randrange(256), d))
        elif r < 0.7 and d:
            probes.append((ver, h, bytes([rng.randrange(16)]) + d[1:]))
    for _ in range(300 if ctx.tier == 'quick' else 3000):
        probes.append((rng.choice(VERSIONS), rng.choice([0x3C, 0x7C, 0x7D, 0x8C, 0x6C, 0x6D, 0xDC, rng.randrange(256)]),
                       bytes([rng.randrange(16)]) + bytes(rng.randrange(256) for _ in range(rng.choice([0, 1, 2, 4, 8, 12, 13, 14, 16, 22, 23, 28, 29])))))
    lines = ['fwdecode %d %d %s' % (v, h, hexs(d)) for v, h, d in probes]
    lpps = [d[2:] for _, h, d in probes if (h >> 4, h & 3) == (6, 1) and len(d) >= 2 and d[0] == 2]
    lines += ['lppdecode %s' % hexs(p) for p in lpps]
    rep = ctx.lean(DRIVER, lines)
    for (v, h, d), m in zip(probes, rep):
        tw = 'ok ' + fw_decode(v, h, d)
        ctx.count('spec-twin:' + ('none' if tw == 'ok none' else tw.split(' ')[1]))
        ctx.case({'fwdecode': [v, h, d.hex()]}, ('fw', v, h, d))
        if tw != m:
            ctx.disagree('firmware-decoder-twin', 'fwdecode %d %d %s' % (v, h, hexs(d)), m[:300], tw[:300])
    for p, m in zip(lpps, rep[len(probes):]):
        tw = 'ok ' + lpp_decode(p)
        ctx.count('spec-twin:lpp')
        if tw != m:
            ctx.disagree('anchor-decoder-twin', 'lppdecode ' + hexs(p), m[:300], tw[:300])


# ---------------------------------------------------------------------------------------------------
# failing-input search: the property itself, evaluated on the real code's packets with the Python spec twins
def judge(ctx, name, ver, a):
    """evaluate the property on one call of the real code (fresh objects)"""
    r = run_real(ver, call_real(name, a))
    judge_result(ctx, name, ver, a, r, {'method': name, 'version': ver, 'args': repr(a)})


def judge_result(ctx, name, ver, a, r, desc, keysuffix=''):
    """the property on the outcome `r` of one call made while protocol version `ver` was the negotiated one"""
    nw = len(ctx.witnesses)
    _judge_result(ctx, name, ver, a, r, desc)
    for w in ctx.witnesses[nw:]:
        w['key'] += keysuffix


def _judge_result(ctx, name, ver, a, r, desc):
    ctx.evaluations += 1
    if r[0] == 'err' and (r[1].startswith('lock-leaked') or r[1].startswith('after-send')):
        ctx.witness('raise-' + r[1].split(':')[0], 'exception raised after the packet was handed to the link / with the send lock held', desc, got=r[1])
        return
    pk = r[1] if r[0] == 'ok' else None
    if pk is not None:
        if len(pk) > 1:
            ctx.witness('multiple-packets:' + name, 'one call handed several packets to the link', desc, got=show_real(r))
            return
        for h, d in pk:
            if len(d) > 30:
                ctx.witness('oversize:' + name, 'payload larger than 30 bytes handed to the link', desc, got=show_real(r))
                return
    dec = None
    if pk:
        dec = fw_decode(ver, pk[0][0], pk[0][1])
    if name == 'fullState':
        res = expected_fullstate_check(a, dec)
        if res == 'unrep':
            if pk and all(isinstance(x, float) and x == x and abs(x) != float('inf') for x in a[3]) and 1e-200 < sum(x * x for x in a[3]) < 1e200:
                ctx.witness('sent-unrepresentable:fullState', 'full-state packet sent although a fixed-point component does not fit int16',
                            desc, got=show_real(r), decoded=dec)
            return
        if res is not None:
            ctx.witness('decode-mismatch:fullState', 'full-state packet does not decode to the arguments: ' + res, desc, got=show_real(r), decoded=dec)
        return
    try:
        want = expected(ver, name, a)
    except Unrep as e:
        if pk:
            ctx.witness('sent-unrepresentable:' + name, 'packet sent although an argument is not representable (%s)' % e, desc,
                        got=show_real(r), decoded=dec)
        return
    except OverflowError:
        return           # huge int in the x-mode mix: outside the property
    if want == 'nothing':
        if pk:
            ctx.witness('sent-unsupported:' + name, 'packet sent for a command the protocol version does not support', desc, got=show_real(r))
        return
    if pk is None or not pk:
        ctx.witness('valid-arguments-not-sent:' + name, 'representable arguments, but the call %s' % ('raised ' + r[1] if r[0] == 'err' else 'sent nothing'),
                    desc, want=want)
        return
    if ' LPP ' in want:
        w0, w1 = want.split(' LPP ')
        ok = dec.startswith(w0 + ' ') and lpp_decode(bytes.fromhex(dec.split(' ')[2].replace('-', ''))) == w1
    else:
        ok = dec == want
    if not ok:
        key = 'decode-mismatch:' + name
        if name == 'lhPersist' and (len(set(a[0])) < len(a[0]) or len(set(a[1])) < len(a[1])):
            key = 'D17-lh-persist-duplicate-id'
        ctx.witness(key, 'the packet does not decode, under the firmware layout for this protocol version, to the arguments of the call',
                    desc, got=show_real(r), decoded=dec, want=want)


def search(ctx):
    from cflib.crtp.crtpstack import CRTPPacket
    # (1) header byte: lossless for every port and channel, through every way the code sets them
    for port in range(16):
        for chan in range(4):
            hs = []
            pk = CRTPPacket()
            pk.port = port
            pk.channel = chan
            hs.append(pk.header)
            pk = CRTPPacket()
            pk.channel = chan
            pk.port = port
            hs.append(pk.header)
            pk = CRTPPacket()
            pk.set_header(port, chan)
            hs.append(pk.header)
            hs.append(pk.get_header())
            for h in hs:
                ctx.evaluations += 1
                if not (0 <= h < 256 and (h >> 4) == port and (h & 3) == chan and (h >> 2) & 3 == 3):
                    ctx.witness('header-lossy', 'header byte does not encode port and channel losslessly', {'port': port, 'channel': chan}, got=h)
            q = CRTPPacket(hs[0])
            if (q.port, q.channel) != (port, chan):
                ctx.witness('header-lossy', 'port/channel not recovered from the header byte', {'port': port, 'channel': chan}, got=(q.port, q.channel))
    # (2) committed witnesses and boundary tables
    for name, ver, a in corpus_cases():
        judge(ctx, name, ver, a)
    judge(ctx, 'lhPersist', 10, ([1, 1], []))                 # D17: duplicate id carries into the next bit
    judge(ctx, 'lhPersist', 10, ([], [3, 7, 3]))
    for t in (-1, 0, 1, 65535, 65536, 1000.0, -0.0, float('nan')):
        for xm in (False, True):
            judge(ctx, 'setpoint', 10, (xm, 1.5, -2.5, 30.0, t))
    for ver in (-1, 0, 7, 8, 9, 10):
        for yr in (0, 0.0, -0.0, 1, 25.5, float('inf'), -float('nan')):
            for nm in ('velocityWorld', 'zdistance', 'hover'):
                judge(ctx, nm, ver, (0.25, -0.5, yr if nm != 'velocityWorld' else 0.75, 0.4 if nm != 'velocityWorld' else yr))
        for rel in (False, True, 0, 1, 2):
            for lin in (False, True, 0, 1):
                judge(ctx, 'hlGoTo', ver, (1.0, -2.0, 0.5, 3.0, 2.5, rel, lin, 0))
        for rel in (False, True):
            for rev in (False, True):
                judge(ctx, 'hlStartTraj', ver, (3, 1.0, rel, rev, 0))
        for sw in (False, True):
            for cw in (False, True):
                for ang in (7.0, -7.0, 1.0):
                    judge(ctx, 'hlSpiral', ver, (ang, -1.0, 0.5, 0.2, 2.0, sw, cw, 0))
        for yaw in (None, 0.0, 1.0):
            judge(ctx, 'hlTakeoff', ver, (1.0, 2.0, 0, yaw))
            judge(ctx, 'hlLand', ver, (0.0, 2.0, 0, yaw))
    for v in (32.767, 32.768, -32.768, -32.769, 1e9, float('nan')):
        judge(ctx, 'fullState', 10, ([v, 0.0, 0.0], [0.0, v, 0.0], [0.0, 0.0, 0.0], [0.0, 0.0, 0.0, 1.0], [0.0, 0.0, 0.0]))
    for b in range(-1, 18):
        judge(ctx, 'lhPersist', 10, ([b], []))
        judge(ctx, 'lhPersist', 10, ([], [0, b]))
    for n in (27, 28, 29, 30, 31):
        judge(ctx, 'shortLpp', 10, (5, bytes(range(n))))
    # (3) generated calls
    for name, ver, a, _ in gen_cases(ctx, 25 if ctx.tier == 'quick' else 300):
        judge(ctx, name, ver, a)
    # (4) histories: one long-lived Crazyflie / Commander / HighLevelCommander / Localization while the negotiated protocol
    #     version (and x-mode) change between calls; every call must decode under the version negotiated last before it
    for h in corpus_histories() + gen_histories(ctx, 40 if ctx.tier == 'quick' else 500):
        judge_history(ctx, h)


def judge_history(ctx, h):
    calls = [ev for ev in h if ev[0] == 'call']
    for i, ((cur_ver, cur_xm, seen, r), ev) in enumerate(zip(run_history(h), calls)):
        name, a = ev[1], ev[2]
        if name == 'setpoint':
            a = (cur_xm,) + tuple(a[1:])
        desc = {'history': repr(h), 'call_index': i, 'method': name, 'negotiated_version': cur_ver, 'xmode': cur_xm, 'args': repr(a)}
        if seen != cur_ver:
            ctx.witness('stale-version', 'the platform service reports another protocol version than the one negotiated last', desc, got=seen)
        judge_result(ctx, name, cur_ver, a, r, desc, keysuffix=':in-history')


def replay(ctx, rp):
    """./check C08 --replay <file>: re-evaluate the recorded call on the current tree; True iff it still violates the property"""
    w = rp.get('witness') or {}
    inp = w.get('input') or {}
    if 'history' in inp:
        judge_history(ctx, _eval_args(inp['history']))
        for x in ctx.witnesses:
            print('VIOLATED [%s] call #%s %s under negotiated version %s: got %s, decoded %s, wanted %s' % (
                x['key'], x['input'].get('call_index'), x['input'].get('method'), x['input'].get('negotiated_version'),
                x.get('got'), x.get('decoded'), x.get('want')))
        return bool(ctx.witnesses)
    if 'method' in inp:
        judge(ctx, inp['method'], int(inp['version']), _eval_args(inp['args']))
        for x in ctx.witnesses:
            print('VIOLATED [%s] %s: got %s, decoded %s, wanted %s' % (x['key'], x['what'], x.get('got'), x.get('decoded'), x.get('want')))
        return bool(ctx.witnesses)
    if rp.get('kind') == 'no-failing-input-found':
        import json
        print('replay: this file names broken obligations, not an input; run ./check C08 to re-check them')
        print(json.dumps(rp.get('broken', []), indent=1)[:3000])
        return False
    search(ctx)
    return any(x['key'] == w.get('key') for x in ctx.witnesses)

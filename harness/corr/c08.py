"""C08 - every command packet decodes to the caller's arguments under the firmware layout.

Tie A: every struct.pack format string + argument-expression list, the port/channel assignments, the
protocol-version / range comparisons, the packet-type / command / port constants, the CRTP header expression,
the compress_quaternion bit expression and the spiral clamp constants are re-extracted from the anchored files
into Gen/C08.lean.  The Lean model builds its packets with `pack (parseFmt! Gen.C08.<m>_fmt<k>)`.
Tie B: the real Commander / HighLevelCommander / Localization / Extpos / PlatformService / LoPoAnchor objects
on a stub Crazyflie whose send_packet is the REAL Crazyflie.send_packet (recording fake link) vs the Lean model
(Driver/C08.lean), bytes compared exactly, raised exception classes compared by enum.
"""
import ast
import math
import struct

from harness.lib import extract as X
from harness.lib.common import ExtractError, exc_enum, f32bits, f64bits, hexs

PID = 'C08'
LEAN_TARGETS = ['CfVerif.Props.C08']
PROPS_MODULES = ['CfVerif.Props.C08']
DRIVER = 'Driver/C08.lean'
REQUIRED_THEOREMS = ['CfVerif.C08.header_lossless', 'CfVerif.C08.hover_decodes', 'CfVerif.C08.setpoint_decodes']
TRUSTED = ['harness/corr/c08.py extractor + correspondence + Python twin of the firmware decoder',
           'Spec/C08.lean: the firmware packet layouts, type numbers, version gates and sign conventions (written from the firmware, not from cflib)',
           "binary64->binary32 conversion inside struct.pack('f') and all double arithmetic (x-mode mix, v*1000, quaternion "
           'normalisation/scaling) are computed by CPython/numpy and handed to the model as operands',
           "struct '<' formats: little-endian, no padding"]
ASSUMPTIONS = ['arguments are Python ints/bools/floats (None only for yaw of takeoff/land); other types are outside the model',
               'warnings.warn(DeprecationWarning) and print() in the legacy branches do not raise']
RULE = ('cases = one API call each (30 emitting methods x protocol versions -1..255 on both sides of every switch x x-mode), arguments '
        'drawn per field from typical values, boundary/special floats (signed zeros, inf, nan, binary32 max and the first doubles that '
        'overflow it, subnormals, +-2pi neighbours), any binary64/binary32 bit pattern, Python ints in float fields, field-width '
        'boundaries of every integer field, bools, floats in integer fields; non-trivial = distinct request line')

# ---------------------------------------------------------------------------------------------------
# Tie A
# (file, qualified name, Gen key)
METHODS = [
    ('cflib/crazyflie/commander.py', 'Commander.send_setpoint', 'setpoint'),
    ('cflib/crazyflie/commander.py', 'Commander.send_notify_setpoint_stop', 'notifyStop'),
    ('cflib/crazyflie/commander.py', 'Commander.send_stop_setpoint', 'stopSetpoint'),
    ('cflib/crazyflie/commander.py', 'Commander.send_velocity_world_setpoint', 'velocityWorld'),
    ('cflib/crazyflie/commander.py', 'Commander.send_zdistance_setpoint', 'zdistance'),
    ('cflib/crazyflie/commander.py', 'Commander.send_hover_setpoint', 'hover'),
    ('cflib/crazyflie/commander.py', 'Commander.send_full_state_setpoint', 'fullState'),
    ('cflib/crazyflie/commander.py', 'Commander.send_position_setpoint', 'position'),
    ('cflib/crazyflie/high_level_commander.py', 'HighLevelCommander.set_group_mask', 'hlGroupMask'),
    ('cflib/crazyflie/high_level_commander.py', 'HighLevelCommander.takeoff', 'hlTakeoff'),
    ('cflib/crazyflie/high_level_commander.py', 'HighLevelCommander.land', 'hlLand'),
    ('cflib/crazyflie/high_level_commander.py', 'HighLevelCommander.stop', 'hlStop'),
    ('cflib/crazyflie/high_level_commander.py', 'HighLevelCommander.go_to', 'hlGoTo'),
    ('cflib/crazyflie/high_level_commander.py', 'HighLevelCommander.spiral', 'hlSpiral'),
    ('cflib/crazyflie/high_level_commander.py', 'HighLevelCommander.start_trajectory', 'hlStartTraj'),
    ('cflib/crazyflie/high_level_commander.py', 'HighLevelCommander.define_trajectory', 'hlDefineTraj'),
    ('cflib/crazyflie/high_level_commander.py', 'HighLevelCommander._send_packet', 'hlSend'),
    ('cflib/crazyflie/localization.py', 'Localization.send_extpos', 'extpos'),
    ('cflib/crazyflie/localization.py', 'Localization.send_extpose', 'extpose'),
    ('cflib/crazyflie/localization.py', 'Localization.send_short_lpp_packet', 'shortLpp'),
    ('cflib/crazyflie/localization.py', 'Localization.send_emergency_stop', 'emergencyStop'),
    ('cflib/crazyflie/localization.py', 'Localization.send_emergency_stop_watchdog', 'emergencyWatchdog'),
    ('cflib/crazyflie/localization.py', 'Localization.send_lh_persist_data_packet', 'lhPersist'),
    ('cflib/crazyflie/extpos.py', 'Extpos.send_extpos', 'extposWrap'),
    ('cflib/crazyflie/extpos.py', 'Extpos.send_extpose', 'extposeWrap'),
    ('cflib/crazyflie/platformservice.py', 'PlatformService.set_continous_wave', 'contWave'),
    ('cflib/crazyflie/platformservice.py', 'PlatformService.send_arming_request', 'arming'),
    ('cflib/crazyflie/platformservice.py', 'PlatformService.send_crash_recovery_request', 'crashRecovery'),
    ('lpslib/lopoanchor.py', 'LoPoAnchor.set_position', 'lopoPosition'),
    ('lpslib/lopoanchor.py', 'LoPoAnchor.reboot', 'lopoReboot'),
    ('lpslib/lopoanchor.py', 'LoPoAnchor.set_mode', 'lopoMode'),
]


def _sorted_nodes(node, pred):
    return sorted((n for n in ast.walk(node) if pred(n)), key=lambda n: (n.lineno, n.col_offset))


def _params(fn):
    a = fn.args
    names = [x.arg for x in a.posonlyargs + a.args]
    defaults = [None] * (len(names) - len(a.defaults)) + [ast.unparse(d) for d in a.defaults]
    return ['%s=%s' % (n, d) if d is not None else n for n, d in zip(names, defaults)]


def _emit_method(g, trees, relpath, qual, key):
    fn = X.find(trees[relpath], qual)
    g.raw('-- %s :: %s' % (relpath, qual))
    g.strings(key + '_params', _params(fn))
    sc = X.struct_calls(fn)
    for k, c in enumerate(sc):
        X.expect(c['fn'] == 'pack', '%s: unexpected struct.%s' % (qual, c['fn']))
        X.expect(c['fmt'] is not None, '%s: struct.pack format is not a string literal: %s' % (qual, c['fmt_src']))
        g.string('%s_fmt%d' % (key, k), c['fmt'])
        g.strings('%s_args%d' % (key, k), c['args'])
    g.nat(key + '_nPacks', len(sc))
    # assignments to attributes of the packet object, `pk.set_header(...)`, calls that hand the packet on
    asg = {}
    for n in _sorted_nodes(fn, lambda n: isinstance(n, ast.Assign) and len(n.targets) == 1 and isinstance(n.targets[0], ast.Attribute)
                           and isinstance(n.targets[0].value, ast.Name) and n.targets[0].value.id == 'pk'):
        asg.setdefault(n.targets[0].attr, []).append(ast.unparse(n.value))
    g.strings(key + '_port', asg.get('port', []))
    g.strings(key + '_chan', asg.get('channel', []))
    g.strings(key + '_data', asg.get('data', []))
    hdr = [ast.unparse(n) for n in _sorted_nodes(fn, lambda n: isinstance(n, ast.Call) and ast.unparse(n.func) == 'pk.set_header')]
    g.strings(key + '_setHeader', hdr)
    sends = [ast.unparse(n) for n in _sorted_nodes(fn, lambda n: isinstance(n, ast.Call) and isinstance(n.func, ast.Attribute)
                                                   and n.func.attr in ('send_packet', '_send_packet', 'send_short_lpp_packet',
                                                                       'send_extpos', 'send_extpose'))]
    # the struct.pack argument of HighLevelCommander._send_packet(...) is pinned through <key>_args, not here
    sends = [s if len(s) < 80 else s.split('(')[0] + '(...)' for s in sends]
    g.strings(key + '_sends', sends)
    g.strings(key + '_cmps', X.compares(fn))
    g.strings(key + '_raises', [ast.unparse(n.exc.func) if isinstance(n.exc, ast.Call) else ast.unparse(n.exc)
                                for n in _sorted_nodes(fn, lambda n: isinstance(n, ast.Raise) and n.exc is not None)])
    return fn


def _consts(g, prefix, vals, required):
    for name in required:
        X.expect(name in vals, 'constant %s.%s not found' % (prefix, name))
    for name in sorted(vals):
        if name.isupper() or '_' in name and name.upper() == name:
            g.nat('%s.%s' % (prefix, name), vals[name]) if vals[name] >= 0 else g.int('%s.%s' % (prefix, name), vals[name])


def _module_consts(tree):
    res = {}
    for n in tree.body:
        if isinstance(n, ast.Assign) and len(n.targets) == 1 and isinstance(n.targets[0], ast.Name):
            try:
                v = ast.literal_eval(n.value)
            except Exception:
                continue
            if isinstance(v, int) and not isinstance(v, bool):
                res[n.targets[0].id] = v
    return res


def _class_consts(cls):
    res = {}
    for n in cls.body:
        if isinstance(n, ast.Assign) and len(n.targets) == 1 and isinstance(n.targets[0], ast.Name):
            try:
                v = ast.literal_eval(n.value)
            except Exception:
                continue
            if isinstance(v, int) and not isinstance(v, bool):
                res[n.targets[0].id] = v
    return res


def _assign_texts(fn):
    """{target text: [value text, ...]} for plain and augmented assignments in source order"""
    res = {}
    for n in _sorted_nodes(fn, lambda n: isinstance(n, (ast.Assign, ast.AugAssign))):
        if isinstance(n, ast.Assign):
            for t in n.targets:
                res.setdefault(ast.unparse(t), []).append(ast.unparse(n.value))
        else:
            res.setdefault(ast.unparse(n.target), []).append(ast.unparse(n))
    return res


def extract(ctx):
    files = sorted({m[0] for m in METHODS} | {'cflib/crtp/crtpstack.py', 'cflib/utils/encoding.py', 'cflib/crazyflie/__init__.py'})
    g = X.GenFile(PID, files)
    trees = {f: X.parse(f) for f in files}
    # ---- constants
    crtp = trees['cflib/crtp/crtpstack.py']
    _consts(g, 'Port', _class_consts(X.find(crtp, 'CRTPPort')),
            ['COMMANDER', 'LOCALIZATION', 'COMMANDER_GENERIC', 'SETPOINT_HL', 'PLATFORM'])
    pkc = X.find(crtp, 'CRTPPacket')
    mds = _class_consts(pkc)
    X.expect('MAX_DATA_SIZE' in mds, 'CRTPPacket.MAX_DATA_SIZE not found')
    g.nat('maxDataSize', mds['MAX_DATA_SIZE'])
    _consts(g, 'Cmdr', _module_consts(trees['cflib/crazyflie/commander.py']), ['TYPE_STOP', 'TYPE_HOVER', 'SET_SETPOINT_CHANNEL'])
    _consts(g, 'HL', _class_consts(X.find(trees['cflib/crazyflie/high_level_commander.py'], 'HighLevelCommander')), ['COMMAND_GO_TO_2'])
    _consts(g, 'Loc', _class_consts(X.find(trees['cflib/crazyflie/localization.py'], 'Localization')), ['EXT_POSE', 'GENERIC_CH'])
    _consts(g, 'Plat', _module_consts(trees['cflib/crazyflie/platformservice.py']), ['PLATFORM_COMMAND', 'PLATFORM_REQUEST_ARMING'])
    _consts(g, 'Lopo', _class_consts(X.find(trees['lpslib/lopoanchor.py'], 'LoPoAnchor')), ['LPP_TYPE_POSITION'])
    # ---- CRTP header logic
    uh = X.find(pkc, '_update_header')
    ua = _assign_texts(uh)
    X.expect('self.header' in ua and len(ua['self.header']) == 1, '_update_header: expected one assignment to self.header')
    hnode = [n for n in ast.walk(uh) if isinstance(n, ast.Assign)][0].value
    g.raw('def hdrExpr (port chan : Nat) : Nat := ' + X.expr_to_lean(hnode, {'self._port': 'port', 'self.channel': 'chan'}))
    init = X.find(pkc, '__init__')
    g.strings('pktInitParams', _params(init))
    ia = {ast.unparse(n.targets[0]): n.value for n in ast.walk(init) if isinstance(n, ast.Assign) and len(n.targets) == 1}
    for nm in ('self._port', 'self._channel'):
        X.expect(nm in ia, 'CRTPPacket.__init__: %s not assigned' % nm)
    g.raw('def initPortExpr (h : Nat) : Nat := ' + X.expr_to_lean(ia['self._port'], {'header': 'h'}))
    g.raw('def initChanExpr (h : Nat) : Nat := ' + X.expr_to_lean(ia['self._channel'], {'header': 'h'}))
    for prop in ('port', 'channel'):
        setter = X.find(pkc, '_set_' + prop)
        g.strings('set_%s_body' % prop, [ast.unparse(s) for s in setter.body if not (isinstance(s, ast.Expr) and isinstance(s.value, ast.Constant))])
    sh = X.find(pkc, 'set_header')
    g.strings('set_header_body', [ast.unparse(s) for s in sh.body if not (isinstance(s, ast.Expr) and isinstance(s.value, ast.Constant))])
    props = {ast.unparse(n.targets[0]): ast.unparse(n.value) for n in pkc.body if isinstance(n, ast.Assign) and len(n.targets) == 1}
    g.strings('pktProperties', ['%s=%s' % (k, props.get(k, '?')) for k in ('data', 'port', 'channel')])
    # size check in Crazyflie.send_packet
    sp = X.find(trees['cflib/crazyflie/__init__.py'], 'Crazyflie.send_packet')
    first = [s for s in sp.body if not (isinstance(s, ast.Expr) and isinstance(s.value, ast.Constant))][0]
    g.string('sendPacketFirstStmt', ast.unparse(first).replace('\n', ' ; '))
    for nm in ('is_data_size_valid', 'available_data_size', 'get_data_size'):
        f = X.find(pkc, nm)
        rets = [ast.unparse(n.value) for n in ast.walk(f) if isinstance(n, ast.Return) and n.value is not None]
        g.strings('pkt_' + nm, rets)
    # ---- the emitting methods
    fns = {}
    for relpath, qual, key in METHODS:
        fns[key] = _emit_method(g, trees, relpath, qual, key)
    # ---- method specific expressions
    # send_setpoint: x-mode mix text, full-state scaling
    at = _assign_texts(fns['setpoint'])
    g.strings('setpoint_xmodeAssign', at.get('(roll, pitch)', at.get('roll, pitch', [])))
    ifs = [ast.unparse(n.test) for n in _sorted_nodes(fns['setpoint'], lambda n: isinstance(n, ast.If))]
    g.strings('setpoint_ifs', ifs)
    thr = [n for n in ast.walk(fns['setpoint']) if isinstance(n, ast.Compare) and ast.unparse(n.left) == 'thrust' and isinstance(n.ops[0], ast.Gt)]
    X.expect(len(thr) == 1, 'send_setpoint: expected one `thrust > <const>` comparison')
    try:
        g.nat('thrustMax', int(ast.literal_eval(thr[0].comparators[0])))
    except Exception:
        raise ExtractError('send_setpoint: thrust bound is not a literal')
    fs = fns['fullState']
    inner = [n for n in ast.walk(fs) if isinstance(n, ast.FunctionDef) and n is not fs]
    X.expect(len(inner) == 1, 'send_full_state_setpoint: expected one local helper')
    g.string('fullState_helper', inner[0].name + '(' + ','.join(_params(inner[0])) + '): ' +
             ' ; '.join(ast.unparse(s) for s in inner[0].body))
    fa = _assign_texts(fs)
    g.strings('fullState_assigns', ['%s = %s' % (k, v) for k in sorted(fa) for v in fa[k] if k not in ('pk', 'pk.port', 'pk.data')])
    # takeoff / land yaw handling
    for key in ('hlTakeoff', 'hlLand'):
        a = _assign_texts(fns[key])
        g.strings(key + '_assigns', ['%s = %s' % (k, v) for k in sorted(a) for v in a[k]])
        g.strings(key + '_ifs', [ast.unparse(n.test) for n in _sorted_nodes(fns[key], lambda n: isinstance(n, ast.If))])
    # spiral clamps
    sa = _assign_texts(fns['hlSpiral'])
    g.strings('hlSpiral_assigns', ['%s = %s' % (k, v) for k in sorted(sa) for v in sa[k]])

    def const_float(src):
        try:
            v = eval(compile(ast.parse(src, mode='eval'), '<gen>', 'eval'), {'__builtins__': {}}, {'math': math})
        except Exception as e:
            raise ExtractError('spiral: cannot evaluate %s: %s' % (src, e))
        X.expect(isinstance(v, (int, float)) and not isinstance(v, bool), 'spiral: %s is not a number' % src)
        return v
    cmps = [n for n in _sorted_nodes(fns['hlSpiral'], lambda n: isinstance(n, ast.Compare)) if ast.unparse(n.left) in ('angle', 'r0', 'rF')]
    X.expect([ast.unparse(n.left) for n in cmps] == ['angle', 'angle', 'r0', 'rF'], 'spiral: clamp comparisons changed: %s' % [ast.unparse(n) for n in cmps])
    for nm, n in zip(('angleHi', 'angleLo', 'r0Lo', 'rFLo'), cmps):
        X.expect(len(n.ops) == 1, 'spiral: chained comparison')
        g.string('spiral_%s_op' % nm, type(n.ops[0]).__name__)
        b = const_float(ast.unparse(n.comparators[0]))
        g.nat('spiral_%s_f64' % nm, f64bits(float(b)))
    for tgt, nm in (('angle', 'angleSet'), ('r0', 'r0Set'), ('rF', 'rFSet')):
        vals = sa.get(tgt, [])
        X.expect(len(vals) == (2 if tgt == 'angle' else 1), 'spiral: assignments to %s changed: %s' % (tgt, vals))
        for k, v in enumerate(vals):
            c = const_float(v)
            g.nat('spiral_%s%d_f32' % (nm, k), f32bits(c))
    # lighthouse persist
    la = _assign_texts(fns['lhPersist'])
    X.expect('max_bs_nr' in la and len(la['max_bs_nr']) == 1, 'lh persist: max_bs_nr not found')
    try:
        g.nat('lhMaxBs', int(la['max_bs_nr'][0]))
    except ValueError:
        raise ExtractError('lh persist: max_bs_nr is not a literal')
    g.strings('lhPersist_maskGeo', la.get('mask_geo', []))
    g.strings('lhPersist_maskCalib', la.get('mask_calib', []))
    g.strings('lhPersist_calls', [ast.unparse(n) for n in _sorted_nodes(fns['lhPersist'], lambda n: isinstance(n, ast.Call) and isinstance(n.func, ast.Attribute) and n.func.attr == 'sort')])
    g.strings('lhPersist_fors', ['%s in %s' % (ast.unparse(n.target), ast.unparse(n.iter)) for n in _sorted_nodes(fns['lhPersist'], lambda n: isinstance(n, ast.For))])
    g.strings('lhPersist_ifs', [ast.unparse(n.test) for n in _sorted_nodes(fns['lhPersist'], lambda n: isinstance(n, ast.If))])
    # lopo set_position locals
    lp = _assign_texts(fns['lopoPosition'])
    g.strings('lopoPosition_assigns', ['%s = %s' % (k, v) for k in sorted(lp) for v in lp[k] if k != 'data'])
    # ---- compress_quaternion
    cq = X.find(trees['cflib/utils/encoding.py'], 'compress_quaternion')
    ca = _assign_texts(cq)
    for nm in ('i_largest', 'negate', 'comp', 'negbit', 'mag', 'quat_n', 'M_SQRT1_2'):
        X.expect(nm in ca, 'compress_quaternion: no assignment to ' + nm)
        g.strings('cq_' + nm, ca[nm])
    g.strings('cq_fors', ['%s in %s' % (ast.unparse(n.target), ast.unparse(n.iter)) for n in _sorted_nodes(cq, lambda n: isinstance(n, ast.For))])
    g.strings('cq_ifs', [ast.unparse(n.test) for n in _sorted_nodes(cq, lambda n: isinstance(n, ast.If))])
    g.strings('cq_returns', [ast.unparse(n.value) for n in _sorted_nodes(cq, lambda n: isinstance(n, ast.Return) and n.value is not None)])
    steps = [n for n in ast.walk(cq) if isinstance(n, ast.Assign) and ast.unparse(n.targets[0]) == 'comp' and isinstance(n.value, ast.BinOp)]
    X.expect(len(steps) == 1, 'compress_quaternion: expected one `comp = <bit expression>`')
    g.raw('def cqStep (comp negbit mag : Nat) : Nat := ' + X.expr_to_lean(steps[0].value, {'comp': 'comp', 'negbit': 'negbit', 'mag': 'mag'}))
    return {'C08.lean': g.render()}


# ---------------------------------------------------------------------------------------------------
# Tie B: the real code on a stub Crazyflie
class _Link:
    needs_resending = False

    def __init__(self):
        self.sent = []

    def send_packet(self, pk):
        # what every link driver transmits: the header byte followed by the data bytes
        self.sent.append((pk.header, bytes(pk.data)))


_STUB = {}


def _stub_class():
    """a Crazyflie stand-in without threads whose send_packet IS Crazyflie.send_packet"""
    if 'cls' in _STUB:
        return _STUB['cls']
    import logging
    logging.disable(logging.CRITICAL)
    import threading
    from cflib.crazyflie import Crazyflie
    from cflib.crazyflie.commander import Commander
    from cflib.crazyflie.extpos import Extpos
    from cflib.crazyflie.high_level_commander import HighLevelCommander
    from cflib.crazyflie.localization import Localization
    from cflib.crazyflie.platformservice import PlatformService
    from cflib.utils.callbacks import Caller
    from lpslib.lopoanchor import LoPoAnchor

    class StubCF:
        send_packet = Crazyflie.send_packet

        def __init__(self, ver):
            self.link = _Link()
            self._send_lock = threading.Lock()
            self._answer_patterns = {}
            self.packet_sent = Caller()
            self.platform = PlatformService(self)
            self.platform._protocolVersion = ver
            self.commander = Commander(self)
            self.high_level_commander = HighLevelCommander(self)
            self.loc = Localization(self)
            self.extpos = Extpos(self)
            self.lopo = LoPoAnchor(self)

        def add_port_callback(self, port, cb):
            pass
    _STUB['cls'] = StubCF
    return StubCF


def run_real(ver, fn):
    """call fn(cf) on a fresh stub; canonical reply string"""
    import contextlib
    import io
    import warnings
    cf = _stub_class()(ver)
    try:
        with warnings.catch_warnings(), contextlib.redirect_stdout(io.StringIO()):
            warnings.simplefilter('ignore')
            fn(cf)
    except Exception as e:
        if cf._send_lock.locked():
            return 'err lock-leaked:' + exc_enum(e)
        if cf.link.sent:
            return 'err after-send:' + exc_enum(e)
        return 'err ' + exc_enum(e)
    return 'ok ' + (';'.join('%d:%s' % (h, hexs(d)) for h, d in cf.link.sent) or '-')


# ---- argument encoding ------------------------------------------------------------------------------
def conv(x):
    try:
        return str(f32bits(x))
    except OverflowError:
        return 'Eoverflow'
    except struct.error:
        return 'Estruct_error'


def num(x):
    if isinstance(x, (bool, int)):
        return 'i%d:%s' % (int(x), conv(x))
    return 'f%d:%s' % (f64bits(x), conv(x))


def optnum(x):
    return 'none' if x is None else num(x)


def scaled(x):
    if isinstance(x, (bool, int)):
        return 'i%d' % int(x)
    return 'f%d' % f64bits(x * 1000)


def vec3(v):
    return ','.join(scaled(x) for x in v)


def quat_oracle(quat):
    """the double arithmetic of compress_quaternion (normalisation, scaling) - outside the model"""
    import numpy as np
    with np.errstate(all='ignore'):
        quat_n = np.array(quat) / np.linalg.norm(quat)
        M_SQRT1_2 = 1.0 / np.sqrt(2)
        return ','.join('%d:%d' % (f64bits(float(quat_n[i])), f64bits(float(((1 << 9) - 1) * (abs(quat_n[i]) / M_SQRT1_2) + 0.5)))
                        for i in range(4))


def intlist(l):
    return ','.join(str(int(x)) for x in l) or '-'


# ---- value pools ------------------------------------------------------------------------------------
F32_MAX = 3.4028234663852886e38
FLOAT_SPECIAL = [0.0, -0.0, 1.0, -1.0, 0.5, -0.25, float('inf'), float('-inf'), float('nan'), -float('nan'),
                 F32_MAX, -F32_MAX, 3.4028235677973362e38, 3.4028235677973366e38, -3.4028235677973366e38, 1e39, -1e39, 1e308,
                 1.401298464324817e-45, -1.401298464324817e-45, 7e-46, 1e-320, 5e-324, 1.1754943508222875e-38,
                 0.1, -0.1, 3.141592653589793, 6.283185307179586, -6.283185307179586, 6.283185307179587, -6.283185307179587,
                 6.28318530717958, 65535.0, 65536.0, 32.767, 32.768, -32.768, -32.769, 1e-3]
INT_AS_FLOAT = [0, 1, -1, 2, 7, -30, 1000, 16777217, 2 ** 127, 2 ** 128, -2 ** 128, 10 ** 40, 10 ** 400, True, False]
INT_FIELD = [0, 1, 2, 3, 7, 15, 16, 127, 128, 254, 255, 256, 257, -1, -128, -129, 32767, 32768, 65535, 65536, 65537,
             2 ** 31 - 1, 2 ** 31, 2 ** 32 - 1, 2 ** 32, 2 ** 64, -2 ** 31, True, False]
VERSIONS = [-1, 0, 1, 5, 6, 7, 8, 9, 10, 11, 255]


def rfloat(rng):
    r = rng.random()
    if r < 0.22:
        return rng.choice(FLOAT_SPECIAL)
    if r < 0.30:
        return rng.choice(INT_AS_FLOAT)
    if r < 0.45:
        return struct.unpack('<d', struct.pack('<Q', rng.getrandbits(64)))[0]        # any binary64 pattern
    if r < 0.60:
        return struct.unpack('<f', struct.pack('<I', rng.getrandbits(32)))[0]        # any binary32 pattern (exact)
    if r < 0.70:
        return rng.randint(-5, 5)
    if r < 0.80:
        return round(rng.uniform(-40, 40), rng.choice([0, 1, 2, 3]))
    return rng.uniform(-10, 10)


def rfield(rng, lim=256):
    r = rng.random()
    if r < 0.5:
        return rng.randrange(lim)
    if r < 0.8:
        return rng.choice(INT_FIELD)
    if r < 0.85:
        return rng.choice([1.0, 0.0, 2.5, float('nan')])
    if r < 0.93:
        return rng.choice([True, False])
    return rng.randrange(-3, 2 ** 33)


def rbool(rng):
    r = rng.random()
    if r < 0.8:
        return rng.choice([True, False])
    return rfield(rng)


def rver(rng):
    return rng.choice(VERSIONS) if rng.random() < 0.8 else rng.randrange(-1, 40)


# ---- one generator per emitting method: returns (model line, thunk on the real code) ------------------
def g_setpoint(rng):
    ver = rver(rng)
    xm = rng.random() < 0.4
    roll, pitch, yaw = rfloat(rng), rfloat(rng), rfloat(rng)
    r = rng.random()
    if r < 0.5:
        thrust = rng.randrange(0, 65536)
    elif r < 0.8:
        thrust = rng.choice([0, 1, 10001, 60000, 65534, 65535, 65536, 65537, -1, -2, 2 ** 32, -2 ** 40, True])
    else:
        thrust = rng.choice([0.0, 1000.0, 1000.5, 65535.0, 65535.5, 65536.0, -0.0, -1e-9, -1.0, float('nan'), float('inf'), float('-inf'), 1e300])
    try:
        mr, mp = 0.707 * (roll - pitch), 0.707 * (roll + pitch)       # the x-mode double arithmetic (outside the model)
    except OverflowError:
        return None    # int too large to convert to float: the mix itself raises (double arithmetic, outside the model)
    line = '%d setpoint %d %s %s %s %s %s %s' % (ver, xm, num(roll), num(pitch), num(mr), num(mp), num(yaw), num(thrust))

    def real(cf):
        cf.commander.set_client_xmode(xm)
        cf.commander.send_setpoint(roll, pitch, yaw, thrust)
    return ver, line, real, ('setpoint', xm, ver <= 8)


def g4(name, meth):
    def g(rng):
        ver = rver(rng)
        a = [rfloat(rng) for _ in range(4)]
        line = '%d %s %s' % (ver, name, ' '.join(num(x) for x in a))
        return ver, line, (lambda cf: getattr(cf.commander, meth)(*a)), (name, ver <= 8)
    return g


def g_notify(rng):
    ver = rver(rng)
    ms = rfield(rng, 2 ** 32)
    return ver, '%d notifyStop %s' % (ver, num(ms)), (lambda cf: cf.commander.send_notify_setpoint_stop(ms)), ('notifyStop',)


def g_simple(name, fn):
    def g(rng):
        ver = rver(rng)
        return ver, '%d %s' % (ver, name), fn, (name,)
    return g


def rvec(rng):
    r = rng.random()
    if r < 0.55:
        return [round(rng.uniform(-33, 33), rng.choice([1, 2, 3, 4, 9])) for _ in range(3)]
    if r < 0.7:
        return [rng.choice([32.767, 32.768, 32.7679999, -32.768, -32.769, -32.7689999, 32.7675, 0.0005, -0.0005, 0.001, 0.0009999,
                            1.0005, 0.0, -0.0, 32, -32, 33, -33, 0, 1, 1e-320]) for _ in range(3)]
    if r < 0.8:
        return [rng.choice([float('nan'), float('inf'), float('-inf'), 1e300, -1e300, 1e18, 4.5e15, 2 ** 70, 1.0]) for _ in range(3)]
    return [rfloat(rng) for _ in range(3)]


def rquat(rng):
    r = rng.random()
    if r < 0.5:
        return [rng.gauss(0, 1) for _ in range(4)]
    if r < 0.7:
        q = [rng.choice([0.0, -0.0, 1.0, -1.0, 0.5, -0.5, 0.7071067811865476, -0.7071067811865476, 0, 1, -1]) for _ in range(4)]
        return q
    if r < 0.8:
        q = [0.0] * 4
        q[rng.randrange(4)] = rng.choice([1.0, -1.0, 2.0, -1e-3, 1, -1])
        return q
    if r < 0.9:
        return [rng.choice([float('nan'), float('inf'), float('-inf'), 1e200, -1e200, 1e-200, -1e-200, 0.0, 1.0, 5e-324]) for _ in range(4)]
    a = rng.uniform(-1, 1)
    return [a, rng.choice([a, -a]), rng.choice([a, -a, 0.0]), rng.choice([a, -a, 0.0])]


def g_fullstate(rng):
    ver = rver(rng)
    pos, vel, acc, rates = rvec(rng), rvec(rng), rvec(rng), rvec(rng)
    quat = rquat(rng)
    try:
        line = '%d fullState %s %s %s %s %s' % (ver, vec3(pos), vec3(vel), vec3(acc), quat_oracle(quat), vec3(rates))
    except OverflowError:
        return None     # int * 1000 -> float overflow inside the double arithmetic (outside the model)

    def real(cf):
        cf.commander.send_full_state_setpoint(list(pos), list(vel), list(acc), list(quat), rates[0], rates[1], rates[2])
    return ver, line, real, ('fullState',)


def g_hl1(name, meth):
    def g(rng):
        ver = rver(rng)
        gm = rfield(rng)
        return ver, '%d %s %s' % (ver, name, num(gm)), (lambda cf: getattr(cf.high_level_commander, meth)(gm)), (name,)
    return g


def g_hl_takeoff(name, meth):
    def g(rng):
        ver = rver(rng)
        h, d, gm = rfloat(rng), rfloat(rng), rfield(rng)
        yaw = None if rng.random() < 0.3 else rfloat(rng)
        line = '%d %s %s %s %s %s' % (ver, name, num(h), num(d), num(gm), optnum(yaw))
        return ver, line, (lambda cf: getattr(cf.high_level_commander, meth)(h, d, group_mask=gm, yaw=yaw)), (name, yaw is None)
    return g


def g_hl_goto(rng):
    ver = rver(rng)
    x, y, z, yaw, d = (rfloat(rng) for _ in range(5))
    rel, lin, gm = rbool(rng), rbool(rng), rfield(rng)
    line = '%d hlGoTo %s' % (ver, ' '.join(num(v) for v in (x, y, z, yaw, d, rel, lin, gm)))
    return ver, line, (lambda cf: cf.high_level_commander.go_to(x, y, z, yaw, d, relative=rel, linear=lin, group_mask=gm)), ('hlGoTo', ver < 8)


def g_hl_spiral(rng):
    ver = rver(rng)
    r = rng.random()
    if r < 0.5:
        angle = rng.uniform(-8, 8)
    elif r < 0.7:
        angle = rng.choice([6.283185307179586, 6.283185307179587, 6.283185307179585, -6.283185307179586, -6.283185307179587, 6, 7, -6, -7,
                            float('nan'), float('inf'), float('-inf'), 0.0])
    else:
        angle = rfloat(rng)
    r0 = rng.choice([rng.uniform(-1, 2), rfloat(rng), 0.0, -0.0, -1, 0, 1, -5e-324, float('nan'), float('-inf')])
    rf = rng.choice([rng.uniform(-1, 2), rfloat(rng), 0.0, -0.0, -1, 0, 1, -5e-324, float('nan'), float('-inf')])
    asc, d = rfloat(rng), rfloat(rng)
    sw, cw, gm = rbool(rng), rbool(rng), rfield(rng)
    line = '%d hlSpiral %s' % (ver, ' '.join(num(v) for v in (angle, r0, rf, asc, d, sw, cw, gm)))
    return ver, line, (lambda cf: cf.high_level_commander.spiral(angle, r0, rf, asc, d, sideways=sw, clockwise=cw, group_mask=gm)), ('hlSpiral', ver < 8)


def g_hl_start(rng):
    ver = rver(rng)
    tid, ts, rel, rev, gm = rfield(rng), rfloat(rng), rbool(rng), rbool(rng), rfield(rng)
    line = '%d hlStartTraj %s' % (ver, ' '.join(num(v) for v in (tid, ts, rel, rev, gm)))
    return ver, line, (lambda cf: cf.high_level_commander.start_trajectory(tid, ts, relative=rel, reversed=rev, group_mask=gm)), ('hlStartTraj',)


def g_hl_define(rng):
    ver = rver(rng)
    tid, off, n, ty = rfield(rng), rfield(rng, 2 ** 32), rfield(rng), rng.choice([0, 1, 0, 1, rfield(rng)])
    line = '%d hlDefineTraj %s' % (ver, ' '.join(num(v) for v in (tid, off, n, ty)))
    return ver, line, (lambda cf: cf.high_level_commander.define_trajectory(tid, off, n, ty)), ('hlDefineTraj',)


def g_extpos(name, wrap):
    def g(rng):
        ver = rver(rng)
        a = [rfloat(rng) for _ in range(3)]
        line = '%d %s %s' % (ver, name, ' '.join(num(v) for v in a))
        if wrap:
            return ver, line, (lambda cf: cf.extpos.send_extpos(*a)), (name,)
        return ver, line, (lambda cf: cf.loc.send_extpos(list(a))), (name,)
    return g


def g_extpose(name, wrap):
    def g(rng):
        ver = rver(rng)
        a = [rfloat(rng) for _ in range(7)]
        line = '%d %s %s' % (ver, name, ' '.join(num(v) for v in a))
        if wrap:
            return ver, line, (lambda cf: cf.extpos.send_extpose(*a)), (name,)
        return ver, line, (lambda cf: cf.loc.send_extpose(list(a[:3]), list(a[3:]))), (name,)
    return g


def g_shortlpp(rng):
    ver = rver(rng)
    dest = rfield(rng)
    data = bytes(rng.randrange(256) for _ in range(rng.choice([0, 1, 2, 5, 13, 27, 28, 29, 30, 40])))
    kind = rng.choice([bytes, bytearray])
    line = '%d shortLpp %s %s' % (ver, num(dest), hexs(data))
    return ver, line, (lambda cf: cf.loc.send_short_lpp_packet(dest, kind(data))), ('shortLpp', len(data) > 28)


def rbslist(rng):
    r = rng.random()
    if r < 0.15:
        return []
    if r < 0.7:
        return rng.sample(range(16), rng.randrange(1, 17))
    if r < 0.8:
        return [rng.randrange(16) for _ in range(rng.randrange(1, 6))]          # may contain duplicates
    return [rng.choice([-1, 0, 1, 14, 15, 16, 17, -5, 100]) for _ in range(rng.randrange(1, 4))]


def g_lhpersist(rng):
    ver = rver(rng)
    geo, cal = rbslist(rng), rbslist(rng)
    line = '%d lhPersist %s %s' % (ver, intlist(geo), intlist(cal))
    return ver, line, (lambda cf: cf.loc.send_lh_persist_data_packet(list(geo), list(cal))), ('lhPersist', len(set(geo)) < len(geo) or len(set(cal)) < len(cal))


def g_plat(name, meth):
    def g(rng):
        ver = rver(rng)
        v = rbool(rng)
        return ver, '%d %s %s' % (ver, name, num(v)), (lambda cf: getattr(cf.platform, meth)(v)), (name,)
    return g


def g_lopo_pos(rng):
    ver = rver(rng)
    aid = rfield(rng)
    a = [rfloat(rng) for _ in range(3)]
    line = '%d lopoPosition %s %s' % (ver, num(aid), ' '.join(num(v) for v in a))
    return ver, line, (lambda cf: cf.lopo.set_position(aid, list(a))), ('lopoPosition',)


def g_lopo2(name, meth):
    def g(rng):
        ver = rver(rng)
        aid, mode = rfield(rng), rng.choice([0, 1, 2, 3, rfield(rng)])
        line = '%d %s %s %s' % (ver, name, num(aid), num(mode))
        return ver, line, (lambda cf: getattr(cf.lopo, meth)(aid, mode)), (name,)
    return g


GENERATORS = [
    ('setpoint', g_setpoint, 6), ('notifyStop', g_notify, 2),
    ('stopSetpoint', g_simple('stopSetpoint', lambda cf: cf.commander.send_stop_setpoint()), 0.2),
    ('velocityWorld', g4('velocityWorld', 'send_velocity_world_setpoint'), 4), ('zdistance', g4('zdistance', 'send_zdistance_setpoint'), 4),
    ('hover', g4('hover', 'send_hover_setpoint'), 4), ('fullState', g_fullstate, 8), ('position', g4('position', 'send_position_setpoint'), 3),
    ('hlGroupMask', g_hl1('hlGroupMask', 'set_group_mask'), 1), ('hlTakeoff', g_hl_takeoff('hlTakeoff', 'takeoff'), 3),
    ('hlLand', g_hl_takeoff('hlLand', 'land'), 3), ('hlStop', g_hl1('hlStop', 'stop'), 1), ('hlGoTo', g_hl_goto, 4), ('hlSpiral', g_hl_spiral, 5),
    ('hlStartTraj', g_hl_start, 3), ('hlDefineTraj', g_hl_define, 3),
    ('extpos', g_extpos('extpos', False), 2), ('extposWrap', g_extpos('extposWrap', True), 1),
    ('extpose', g_extpose('extpose', False), 2), ('extposeWrap', g_extpose('extposeWrap', True), 1),
    ('shortLpp', g_shortlpp, 3),
    ('emergencyStop', g_simple('emergencyStop', lambda cf: cf.loc.send_emergency_stop()), 0.2),
    ('emergencyWatchdog', g_simple('emergencyWatchdog', lambda cf: cf.loc.send_emergency_stop_watchdog()), 0.2),
    ('lhPersist', g_lhpersist, 4), ('contWave', g_plat('contWave', 'set_continous_wave'), 1), ('arming', g_plat('arming', 'send_arming_request'), 1),
    ('crashRecovery', g_simple('crashRecovery', lambda cf: cf.platform.send_crash_recovery_request()), 0.2),
    ('lopoPosition', g_lopo_pos, 2), ('lopoReboot', g_lopo2('lopoReboot', 'reboot'), 1), ('lopoMode', g_lopo2('lopoMode', 'set_mode'), 1),
]


def gen_cases(ctx):
    rng = ctx.rng
    base = 60 if ctx.tier == 'quick' else 600
    cases = []
    for name, g, w in GENERATORS:
        n = max(3, int(base * w))
        made = 0
        tries = 0
        while made < n and tries < 4 * n:
            tries += 1
            c = g(rng)
            if c is None:
                ctx.count('skipped:double-arithmetic-raises')
                continue
            made += 1
            cases.append((name,) + c)
    return cases


def correspond(ctx):
    cases = gen_cases(ctx)
    replies = ctx.lean(DRIVER, [c[2] for c in cases])
    for (name, ver, line, real, key), model in zip(cases, replies):
        got = run_real(ver, real)
        ctx.count('op:' + name)
        ctx.count('result:' + (got.split(' ')[0] if got.startswith('ok') else got))
        if got == 'ok -':
            ctx.count('result:nothing-sent')
        ctx.case({'line': line[:200]}, (name, line))
        if got != model:
            ctx.disagree(name, line[:400], model[:300], got[:300])


def search(ctx):
    pass

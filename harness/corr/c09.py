"""C09 - Lighthouse geometry estimation recovers the true base-station poses  (PARTIAL: logic proved, numerics tested).

Tie A: the sample matcher's comparison expressions and loop shape, the initial estimator's linking loop (loop / raise
conditions, set expressions, reference choice), the geometry solver's index arithmetic (parameter-vector layout,
sparsity construction, reshape/slice expressions) and the IPPE<->CF axis permutation matrix are re-extracted from
cflib/localization into Gen/C09.lean; the Lean model *uses* the translated expressions.
Tie B: real LighthouseSampleMatcher.match, LighthouseInitialEstimator.estimate (linking part, symbolic poses),
LighthouseGeometrySolver._create_bs_map/_populate_indexes_and_jacobian/_populate_initial_guess/_params_to_struct/
_calc_residual gather/_condense_results and IppeCf's rotations vs the Lean model (Driver/C09.lean).
Validation (TESTING, not proof): the end-to-end pipeline on generated rooms against ground truth, in search().
"""
import ast
import contextlib
import io
import itertools
import math

from harness.lib import extract as X
from harness.lib.common import ExtractError, exc_enum

PID = 'C09'
LEAN_TARGETS = ['CfVerif.Props.C09']
PROPS_MODULES = ['CfVerif.Props.C09']
DRIVER = 'Driver/C09.lean'
REQUIRED_THEOREMS = ['CfVerif.C09.matcher_conditions', 'CfVerif.C09.matcher_groups', 'CfVerif.C09.matcher_partition', 'CfVerif.C09.group_contents',
                     'CfVerif.C09.linking_outcome', 'CfVerif.C09.linking_iff', 'CfVerif.C09.unlinked_rejected', 'CfVerif.C09.estimate_outcome', 'CfVerif.C09.estimate_exact_on_consistent_data', 'CfVerif.C09.average_sign_invariant',
                     'CfVerif.C09.layout_length', 'CfVerif.C09.bsmap_sorted', 'CfVerif.C09.sparsity_columns', 'CfVerif.C09.sparsity_rows',
                     'CfVerif.C09.residual_row_reads', 'CfVerif.C09.sparsity_covers_dependencies', 'CfVerif.C09.condense_layout', 'CfVerif.C09.initial_guess_layout', 'CfVerif.C09.solve_repeatable',
                     'CfVerif.C09.negated_rotvec_is_transpose', 'CfVerif.C09.zero_residual_at_truth',
                     'CfVerif.C09.ippe_rotations_proper', 'CfVerif.C09.ippe_axes', 'CfVerif.C09.ippe_vec_roundtrip', 'CfVerif.C09.ippe_mat_roundtrip']
TRUSTED = ['harness/corr/c09.py extractor + correspondence (symbolic subclassing of the estimator, least_squares recorder)',
           'numpy/scipy numerics: IPPE (_ippe.mat_run), mirror voting/selection, quaternion averaging, Pose<->scipy Rotation conversions, '
           'scipy.optimize.least_squares convergence: NOT modelled, only tested end-to-end in search()',
           'numpy fancy indexing / reshape / row-wise broadcasting as modelled; sorted() = merge sort on ids; dict = insertion-ordered map',
           'CPython set iteration order over-approximated by an arbitrary-member oracle (pick)',
           'float time stamps: ts + max_time_diff modelled in exact arithmetic',
           'T3 is over an arbitrary field with abstract norm/cos/sin/atan2/tan satisfying TrigLaws; binary64 rounding is not modelled']
ASSUMPTIONS = ['PARTIAL: convergence/accuracy of the numerics (the 1 mm / 1 mrad claim) is TESTED on generated rooms, not proved',
               'known finding: D92 (mirror vote pollution, ~2-5% of rooms miss the tolerance); D91 (eig->eigh) and D93 (IPPE NaN when a deck axis is perpendicular to the line of sight) are fixed in /repo: their witnesses stay in the corpus and a recurrence is a VIOLATION',
               'for an empty sample list only the API-level ValueError of solve() is compared']
RULE = ('cases = measurement streams (all streams of <=4/5 measurements over gaps {0,d,d+1} x 2 ids x min_bs, random bursty streams), '
        'co-visibility hypergraphs (chains, stars, islands, dense, degenerate; real rooms behind the real IPPE stage), solver set-ups '
        '(ids, samples, sensors, CF-pose counts incl. error cases) x 4 stages, IPPE integer vectors/matrices, residual rows on binary64; '
        'non-trivial = distinct (op, input); search(): end-to-end rooms are validation (testing), not proof')

MATCHER = 'cflib/localization/lighthouse_sample_matcher.py'
ESTIMATOR = 'cflib/localization/lighthouse_initial_estimator.py'
SOLVER = 'cflib/localization/lighthouse_geometry_solver.py'
IPPE = 'cflib/localization/ippe_cf.py'


# ------------------------------------------------------------------------------------------------------
# Tie A
def _tr(e, env, allow_sub=False):
    """integer/ordered-field expression over leaves named in env (keyed by ast.unparse text) -> Lean term"""
    s = ast.unparse(e)
    if s in env:
        return env[s]
    if isinstance(e, ast.Constant) and isinstance(e.value, int) and not isinstance(e.value, bool):
        return str(e.value)
    if isinstance(e, ast.BinOp):
        a, b = _tr(e.left, env, allow_sub), _tr(e.right, env, allow_sub)
        if isinstance(e.op, ast.Add):
            return '(%s + %s)' % (a, b)
        if isinstance(e.op, ast.Mult):
            return '(%s * %s)' % (a, b)
        if isinstance(e.op, ast.Sub) and allow_sub:
            return '(%s - %s)' % (a, b)
    raise ExtractError('untranslatable expression %s' % s)


_CMP = {ast.Gt: '>', ast.GtE: '≥', ast.Lt: '<', ast.LtE: '≤', ast.Eq: '=', ast.NotEq: '≠'}


def _cmp(e, env, allow_sub=False):
    X.expect(isinstance(e, ast.Compare) and len(e.ops) == 1 and type(e.ops[0]) in _CMP, 'untranslatable comparison %s' % ast.unparse(e))
    return 'decide (%s %s %s)' % (_tr(e.left, env, allow_sub), _CMP[type(e.ops[0])], _tr(e.comparators[0], env, allow_sub))


def _find_cmp(fn, text, what):
    for n in ast.walk(fn):
        if isinstance(n, ast.Compare) and ast.unparse(n) == text:
            return n
    raise ExtractError('%s: comparison `%s` not found' % (what, text))


def _cmp_by_left(fn, left, what, nth=0):
    """the nth comparison (source order) in fn whose left operand unparses to `left`"""
    hits = sorted((n for n in ast.walk(fn) if isinstance(n, ast.Compare) and ast.unparse(n.left) == left), key=lambda n: (n.lineno, n.col_offset))
    X.expect(len(hits) > nth, '%s: comparison on `%s` (#%d) not found' % (what, left, nth))
    return hits[nth]


def _stmts(fn, kinds):
    ns = sorted((n for n in ast.walk(fn) if isinstance(n, kinds)), key=lambda n: (n.lineno, n.col_offset))
    return ns


def _first_line(st):
    return ast.unparse(st).split('\n')[0]


def _assigns(fn):
    return [ast.unparse(n) for n in _stmts(fn, (ast.Assign, ast.AugAssign))]


def _assign_value(fn, target, what, nth=0):
    hits = [n for n in _stmts(fn, ast.Assign) if len(n.targets) == 1 and ast.unparse(n.targets[0]) == target]
    X.expect(len(hits) > nth, '%s: assignment to `%s` (#%d) not found' % (what, target, nth))
    return hits[nth].value


def _fors(fn):
    return ['for %s in %s' % (ast.unparse(n.target), ast.unparse(n.iter)) for n in _stmts(fn, ast.For)]


def _raises(fn):
    return [ast.unparse(n) for n in _stmts(fn, ast.Raise)]


def _returns(fn):
    return [ast.unparse(n) for n in _stmts(fn, ast.Return)]


def _calls(fn, suffix):
    return [ast.unparse(n) for n in _stmts(fn, ast.Call) if ast.unparse(n.func).endswith(suffix)]


def _int_matrix(node, what):
    try:
        val = ast.literal_eval(node)
    except Exception:
        raise ExtractError('%s: not a literal matrix: %s' % (what, ast.unparse(node)))
    rows = []
    X.expect(isinstance(val, (list, tuple)) and len(val) == 3, '%s: expected 3 rows' % what)
    for r in val:
        X.expect(isinstance(r, (list, tuple)) and len(r) == 3, '%s: expected 3 columns' % what)
        row = []
        for x in r:
            X.expect(isinstance(x, (int, float)) and float(x) == int(x), '%s: non-integral entry %r' % (what, x))
            row.append(int(x))
        rows.append(row)
    return rows


def _lints(l):
    return '[' + ', '.join(str(x) if x >= 0 else '(%d)' % x for x in l) + ']'


MUTATORS = {'pop', 'append', 'clear', 'remove', 'sort', 'reverse', 'update', 'insert', 'extend', 'popitem', 'setdefault', 'discard', 'add',
            'scale', 'fill', 'resize', 'put', 'itemset', 'sort_values'}


def _root(e):
    """root Name of an attribute/subscript chain without calls or slices (a chain that ALIASES the root object), else None"""
    while True:
        if isinstance(e, ast.Name):
            return e.id
        if isinstance(e, ast.Attribute):
            e = e.value
        elif isinstance(e, ast.Subscript) and not isinstance(e.slice, ast.Slice):
            e = e.value
        else:
            return None


def _iter_root(e):
    """root of an iterable whose ELEMENTS alias caller objects: x, x.attr, x.items()/.values()/.keys(), enumerate(...), sorted(...), x[a:b]"""
    if isinstance(e, ast.Call):
        f = ast.unparse(e.func)
        if f in ('enumerate', 'sorted', 'reversed', 'list', 'zip') and e.args:
            return _iter_root(e.args[0])
        if isinstance(e.func, ast.Attribute) and e.func.attr in ('items', 'values', 'keys'):
            return _iter_root(e.func.value)
        return None
    if isinstance(e, ast.Subscript) and isinstance(e.slice, ast.Slice):
        return _iter_root(e.value)
    return _root(e)


def caller_arg_mutations(fn, params):
    """statements of fn that mutate an object reachable from the caller's arguments `params` (directly, through an alias
    `x = arg.attr`, or through a loop variable ranging over their elements).  Conservative syntactic taint analysis."""
    tainted = set(params)
    changed = True
    while changed:
        changed = False
        for n in ast.walk(fn):
            new = []
            if isinstance(n, ast.Assign) and len(n.targets) == 1 and isinstance(n.targets[0], ast.Name) and _root(n.value) in tainted:
                new = [n.targets[0].id]
            elif isinstance(n, (ast.For, ast.comprehension)) and _iter_root(n.iter) in tainted:
                new = [m.id for m in ast.walk(n.target) if isinstance(m, ast.Name)]
            for x in new:
                if x not in tainted:
                    tainted.add(x)
                    changed = True
    hits = []
    for n in ast.walk(fn):
        if isinstance(n, ast.Call) and isinstance(n.func, ast.Attribute) and n.func.attr in MUTATORS and _root(n.func.value) in tainted:
            hits.append((n.lineno, ast.unparse(n)))
        elif isinstance(n, (ast.Assign, ast.AugAssign, ast.AnnAssign)):
            for t in (n.targets if isinstance(n, ast.Assign) else [n.target]):
                for tt in (t.elts if isinstance(t, (ast.Tuple, ast.List)) else [t]):
                    if isinstance(tt, (ast.Attribute, ast.Subscript)) and _root(tt.value if isinstance(tt, ast.Subscript) else tt.value) in tainted:
                        hits.append((n.lineno, _first_line(n)))
        elif isinstance(n, ast.Delete):
            for t in n.targets:
                if isinstance(t, (ast.Attribute, ast.Subscript)) and _root(t.value) in tainted:
                    hits.append((n.lineno, ast.unparse(n)))
    return ['%s: %s' % (fn.name, h) for _, h in sorted(set(hits))]


# (function, the parameters that hold objects owned by the caller of the public entry points match / estimate / solve)
CALLER_ARGS = [(MATCHER, 'LighthouseSampleMatcher.match', ['samples']),
               (ESTIMATOR, 'LighthouseInitialEstimator.estimate', ['matched_samples', 'sensor_positions']),
               (ESTIMATOR, 'LighthouseInitialEstimator._find_solutions', ['matched_samples', 'sensor_positions']),
               (ESTIMATOR, 'LighthouseInitialEstimator._angles_to_poses', ['matched_samples', 'sensor_positions']),
               (SOLVER, 'LighthouseGeometrySolver.solve', ['initial_guess', 'matched_samples', 'sensor_positions']),
               (SOLVER, 'LighthouseGeometrySolver._populate_target_angles', ['matched_samples']),
               (SOLVER, 'LighthouseGeometrySolver._populate_indexes_and_jacobian', ['matched_samples']),
               (SOLVER, 'LighthouseGeometrySolver._populate_initial_guess', ['initial_guess']),
               (SOLVER, 'LighthouseGeometrySolver._create_bs_map', ['initial_guess_bs_poses']),
               (SOLVER, 'LighthouseGeometrySolver._condense_results', ['matched_samples']),
               (SOLVER, 'LighthouseGeometrySolver._calc_residual', ['params', 'target_angles', 'sensor_positions'])]


def extract(ctx):
    g = X.GenFile(PID, [MATCHER, ESTIMATOR, SOLVER, IPPE, 'cflib/localization/lighthouse_bs_vector.py', 'cflib/localization/lighthouse_types.py'])
    # ---- sample matcher ---------------------------------------------------------------------------
    mt = X.parse(MATCHER)
    m = X.find(mt, 'LighthouseSampleMatcher.match')
    g.strings('matchCompares', X.compares(m))
    loops = _stmts(m, ast.For)
    X.expect(len(loops) == 1, 'match: expected one for loop')
    g.string('matchFor', 'for %s in %s' % (ast.unparse(loops[0].target), ast.unparse(loops[0].iter)))
    g.strings('matchLoopBody', [_first_line(s) for s in loops[0].body])
    ifs = [s for s in loops[0].body if isinstance(s, ast.If)]
    X.expect(len(ifs) == 2 and not ifs[0].orelse and not ifs[1].orelse, 'match: expected two else-less ifs in the loop body')
    g.strings('matchNoneBody', [_first_line(s) for s in ifs[0].body])
    g.strings('matchSplitBody', [_first_line(s) for s in ifs[1].body])
    idx = m.body.index(loops[0])
    g.strings('matchBefore', [_first_line(s) for s in m.body[:idx] if not (isinstance(s, ast.Expr) and isinstance(s.value, ast.Constant))])
    g.strings('matchAfter', [_first_line(s) for s in m.body[idx + 1:]])
    env = {'ts': 'ts', 'current.timestamp': 'curTs', 'max_time_diff': 'maxDiff'}
    g.raw('def splitCond {T : Type} [Add T] [LT T] [DecidableLT T] (ts curTs maxDiff : T) : Bool := ' + _cmp(ifs[1].test, env))
    defaults = dict(zip([a.arg for a in m.args.args][-len(m.args.defaults):], m.args.defaults))
    X.expect('max_time_diff' in defaults and 'min_nr_of_bs_in_match' in defaults, 'match: default arguments changed')
    g.string('maxTimeDiffDefault', ast.unparse(defaults['max_time_diff']))
    g.int('minBsDefault', ast.literal_eval(defaults['min_nr_of_bs_in_match']))
    a = X.find(mt, 'LighthouseSampleMatcher._append_result')
    g.strings('appendCompares', X.compares(a))
    X.expect(len(a.body) == 1 and isinstance(a.body[0], ast.If) and not a.body[0].orelse, '_append_result: expected a single else-less if')
    test = a.body[0].test
    X.expect(isinstance(test, ast.BoolOp) and isinstance(test.op, ast.And) and len(test.values) == 2, '_append_result: expected `a and b`')
    g.string('appendGuard', ast.unparse(test.values[0]))
    g.raw('def keepCond (n minBs : Int) : Bool := ' + _cmp(test.values[1], {'len(current.angles_calibrated)': 'n', 'min_nr_of_bs_in_match': 'minBs'}))
    g.strings('appendBody', [_first_line(s) for s in a.body[0].body])

    # ---- initial estimator: reference choice, linking loop, CF poses ---------------------------------
    et = X.parse(ESTIMATOR)
    est = X.find(et, 'LighthouseInitialEstimator.estimate')
    g.strings('estimateCompares', X.compares(est))
    g.strings('estimateAssigns', _assigns(est))
    g.strings('estimateRaises', _raises(est))
    g.strings('estimateFors', _fors(est))
    g.strings('estimateReturns', _returns(est))
    rem = X.find(et, 'LighthouseInitialEstimator._estimate_remaining_bs_poses')
    g.strings('linkCompares', X.compares(rem))
    g.strings('linkAssigns', _assigns(rem))
    g.strings('linkRaises', _raises(rem))
    g.strings('linkFors', _fors(rem))
    whiles = _stmts(rem, ast.While)
    X.expect(len(whiles) == 1, '_estimate_remaining_bs_poses: expected one while loop')
    g.raw('def loopCond (remaining : Nat) : Bool := ' + _cmp(whiles[0].test, {'remaining': 'remaining'}))
    g.raw('def knownCond (nKnown : Nat) : Bool := ' + _cmp(_cmp_by_left(rem, 'len(known)', 'link'), {'len(known)': 'nKnown'}))
    g.raw('def doneCond (nToFind : Nat) : Bool := ' + _cmp(_cmp_by_left(rem, 'len(to_find)', 'link', 0), {'len(to_find)': 'nToFind'}))
    g.raw('def stuckCond (nToFind remaining : Nat) : Bool := ' + _cmp(_cmp_by_left(rem, 'len(to_find)', 'link', 1), {'len(to_find)': 'nToFind', 'remaining': 'remaining'}))
    # statements of the while body in order (first lines): the model mirrors this sequence
    g.strings('linkWhileBody', [_first_line(s) for s in whiles[0].body])
    tail_ifs = [s for s in whiles[0].body if isinstance(s, ast.If)]
    X.expect(len(tail_ifs) == 2, '_estimate_remaining_bs_poses: expected two ifs at the end of the while body')
    g.strings('linkDoneBody', [_first_line(s) for s in tail_ifs[0].body])
    g.strings('linkStuckBody', [_first_line(s) for s in tail_ifs[1].body])
    g.strings('linkMapCalls', _calls(rem, '_map_pose_to_ref_frame') + _calls(rem, '_avarage_poses'))
    cfp = X.find(et, 'LighthouseInitialEstimator._estimate_cf_poses')
    g.strings('cfPosesAssigns', _assigns(cfp))
    g.strings('cfPosesFors', _fors(cfp))
    g.strings('cfPosesCalls', _calls(cfp, '.append'))
    avg = X.find(et, 'LighthouseInitialEstimator._avarage_poses')
    g.strings('avgAssigns', _assigns(avg))
    g.strings('avgReturns', _returns(avg))
    eig_calls = [n for n in _stmts(avg, ast.Call) if ast.unparse(n.func).startswith('np.linalg.eig')]
    X.expect(len(eig_calls) == 1 and len(eig_calls[0].args) == 1 and not eig_calls[0].keywords,
             '_avarage_poses: expected exactly one np.linalg.eig*(<matrix>) call (the quaternion average is no longer taken by the eigenvector route)')
    g.string('avgEigFunc', ast.unparse(eig_calls[0].func))
    g.string('avgEigArg', ast.unparse(eig_calls[0].args[0]))
    a2p = X.find(et, 'LighthouseInitialEstimator._angles_to_poses')
    g.strings('anglesToPosesAssigns', [s for s in _assigns(a2p) if s.startswith(('ids =', 'first =', 'poses[', 'pair_ids =', 'is_sample_valid'))])
    g.strings('anglesToPosesFors', _fors(a2p))

    # ---- geometry solver: layout ----------------------------------------------------------------------
    st = X.parse(SOLVER)
    init = X.find(st, 'LighthouseGeometrySolution.__init__')
    consts = {}
    for n in _stmts(init, ast.Assign):
        t = ast.unparse(n.targets[0])
        if isinstance(n.value, ast.Constant) and isinstance(n.value.value, int) and not isinstance(n.value.value, bool):
            consts[t] = n.value.value
        elif ast.unparse(n.value) in consts:
            consts[t] = consts[ast.unparse(n.value)]
    for py, lean in (('self.len_rot_vec', 'lenRotVec'), ('self.len_pose', 'lenPose'), ('self.n_params_per_bs', 'nParamsPerBs'),
                     ('self.n_params_per_cf', 'nParamsPerCf')):
        X.expect(py in consts, 'LighthouseGeometrySolution.__init__: %s is not an integer constant' % py)
        g.nat(lean, consts[py])
    senv = {'defs.n_params_per_bs': 'nParamsPerBs', 'defs.n_params_per_cf': 'nParamsPerCf', 'defs.len_rot_vec': 'lenRotVec',
            'defs.len_pose': 'lenPose', 'defs.n_bss': 'nBss', 'defs.n_cfs_in_params': 'nCfsInParams', 'defs.n_sensors': 'nSensors',
            'solution.n_sensors': 'nSensors'}
    solve = X.find(st, 'LighthouseGeometrySolver.solve')
    g.strings('solveAssigns', [s for s in _assigns(solve) if s.startswith(('solution.n_', 'x0 =', '(solution.bs_id_to_index'))])
    g.raw('def nCfsInParamsOf (nSamples : Int) : Int := ' + _tr(_assign_value(solve, 'solution.n_cfs_in_params', 'solve'), {'len(matched_samples)': 'nSamples'}, True))
    pij = X.find(st, 'LighthouseGeometrySolver._populate_indexes_and_jacobian')
    g.strings('jacFors', _fors(pij))
    g.strings('jacAssigns', _assigns(pij))
    g.strings('jacAppends', _calls(pij, '.append'))
    g.strings('jacCompares', X.compares(pij))
    g.raw('def lenResidualVec (nPairs : Nat) : Nat := ' + _tr(_assign_value(pij, 'len_residual_vec', 'jac'), {'len(index_angle_pair_to_cf)': 'nPairs'}))
    g.raw('def lenParamVec (nBss nCfsInParams : Nat) : Nat := ' + _tr(_assign_value(pij, 'len_param_vec', 'jac'), senv))
    g.raw('def nTotBsParams (nBss : Nat) : Nat := ' + _tr(_assign_value(pij, 'n_tot_bs_params', 'jac'), senv))
    senv2 = dict(senv, **{'bs_index': 'bsIndex', 'n_tot_bs_params': 'nTot', 'cf_i': 'cfI', 'first': 'first'})
    g.raw('def bsFirst (bsIndex : Nat) : Nat := ' + _tr(_assign_value(pij, 'first', 'jac', 0), senv2))
    g.raw('def cfFirst (nTot cfI : Nat) : Nat := ' + _tr(_assign_value(pij, 'first', 'jac', 1), senv2, True))
    g.raw('def cfGuard (cfI : Nat) : Bool := ' + _cmp(_cmp_by_left(pij, 'cf_i', 'jac'), senv2))
    fors = _stmts(pij, ast.For)

    def range_args(text, what):
        hits = [n for n in fors if ast.unparse(n.iter).startswith('range(') and text(n)]
        X.expect(len(hits) == 1, 'jac: expected exactly one %s loop' % what)
        return hits[0].iter.args
    ra = range_args(lambda n: ast.unparse(n.iter) == 'range(defs.n_sensors)', 'range(defs.n_sensors)')
    ra = range_args(lambda n: 'n_sensors' in ast.unparse(n.iter) and ast.unparse(n.iter) != 'range(defs.n_sensors)', 'sparsity row')
    X.expect(len(ra) == 1, 'jac: sparsity row range has %d arguments' % len(ra))
    g.raw('def rowsPerPair (nSensors : Nat) : Nat := ' + _tr(ra[0], senv))
    mark = [n for n in fors if ast.unparse(n.target) == 'i' and ast.unparse(n.iter).startswith('range(first')]
    X.expect(len(mark) == 2 and all(len(n.iter.args) == 2 and ast.unparse(n.iter.args[0]) == 'first' for n in mark), 'jac: expected two `for i in range(first, ...)` loops')
    g.raw('def bsRangeEnd (first : Nat) : Nat := ' + _tr(mark[0].iter.args[1], senv2))
    g.raw('def cfRangeEnd (first : Nat) : Nat := ' + _tr(mark[1].iter.args[1], senv2))
    g.strings('jacMarkBodies', [_first_line(s) for n in mark for s in n.body])
    g.string('jacMatrixShape', ast.unparse(_assign_value(pij, 'jac_sparsity', 'jac')))
    g.strings('jacReturns', _returns(pij))
    pts = X.find(st, 'LighthouseGeometrySolver._params_to_struct')
    g.strings('paramsToStructAssigns', _assigns(pts))
    g.raw('def bsParamCount (nBss : Nat) : Nat := ' + _tr(_assign_value(pts, 'bs_param_count', '_params_to_struct'), senv))
    g.strings('paramsToStructReturns', _returns(pts))
    cr = X.find(st, 'LighthouseGeometrySolver._calc_residual')
    g.strings('calcResidualAssigns', _assigns(cr))
    g.strings('posesToAnglePairsAssigns', _assigns(X.find(st, 'LighthouseGeometrySolver._poses_to_angle_pairs')))
    pig = X.find(st, 'LighthouseGeometrySolver._populate_initial_guess')
    g.strings('initialGuessAssigns', _assigns(pig))
    g.strings('initialGuessFors', _fors(pig))
    g.strings('poseToParamsReturns', _returns(X.find(st, 'LighthouseGeometrySolver._pose_to_params')))
    g.strings('paramsToPoseAssigns', _assigns(X.find(st, 'LighthouseGeometrySolver._params_to_pose')))
    g.strings('paramsToPoseReturns', _returns(X.find(st, 'LighthouseGeometrySolver._params_to_pose')))
    cbm = X.find(st, 'LighthouseGeometrySolver._create_bs_map')
    g.strings('bsMapFors', _fors(cbm))
    g.strings('bsMapAssigns', _assigns(cbm))
    cond = X.find(st, 'LighthouseGeometrySolver._condense_results')
    g.strings('condenseFors', _fors(cond))
    g.strings('condenseAssigns', _assigns(cond))
    g.strings('condenseAppends', _calls(cond, 'cf_poses.append'))
    cenv = {'len(matched_samples)': 'nSamples', 'solution.n_sensors': 'nSensors'}
    cf_loop = [n for n in _stmts(cond, ast.For) if ast.unparse(n.target) == 'i']
    X.expect(len(cf_loop) == 1 and ast.unparse(cf_loop[0].iter.func) == 'range' and len(cf_loop[0].iter.args) == 1, '_condense_results: expected `for i in range(...)`')
    g.raw('def condenseCfCount (nSamples : Nat) : Nat := ' + _tr(cf_loop[0].iter.args[0], cenv, True))
    aug = [n for n in _stmts(cond, ast.AugAssign) if ast.unparse(n.target) == 'i' and isinstance(n.op, ast.Add)]
    X.expect(len(aug) == 1, '_condense_results: expected one `i += ...`')
    g.raw('def errStride (nSensors : Nat) : Nat := ' + _tr(aug[0].value, cenv))

    # ---- row-wise numerics of the residual (T3): the statements the generic model transcribes -------------
    rt = X.find(st, 'LighthouseGeometrySolver._rotate_translate')
    # `v = np.nan_to_num(v, ...)`: the call is normalised (keyword arguments listed separately) so that spelling out the
    # replacement values for +-inf (all 0, as the model assumes) does not trip the obligation; a non-zero `nan=` does
    rt_assigns = []
    for n in _stmts(rt, (ast.Assign, ast.AugAssign)):
        v = getattr(n, 'value', None)
        if isinstance(n, ast.Assign) and isinstance(v, ast.Call) and ast.unparse(v.func) == 'np.nan_to_num':
            g.strings('nanToNumKeywords', ['%s=%s' % (k.arg, ast.unparse(k.value)) for k in v.keywords])
            rt_assigns.append('%s = np.nan_to_num(%s)' % (ast.unparse(n.targets[0]), ', '.join(ast.unparse(a) for a in v.args)))
        else:
            rt_assigns.append(ast.unparse(n))
    X.expect(sum(1 for a in rt_assigns if 'nan_to_num' in a) == 1, '_rotate_translate: expected exactly one np.nan_to_num assignment')
    g.strings('rotateTranslateAssigns', rt_assigns)
    g.strings('rotateTranslateReturns', _returns(rt))
    cap = X.find(st, 'LighthouseGeometrySolver._calc_angle_pairs')
    g.strings('calcAnglePairsAssigns', _assigns(cap))
    g.strings('calcAnglePairsReturns', _returns(cap))
    bvt = X.parse('cflib/localization/lighthouse_bs_vector.py')
    g.strings('fromCartAssigns', _assigns(X.find(bvt, 'LighthouseBsVector.from_cart')))
    g.strings('fromCartReturns', _returns(X.find(bvt, 'LighthouseBsVector.from_cart')))
    g.strings('angleListAssigns', _assigns(X.find(bvt, 'LighthouseBsVectors.angle_list')))
    ltt = X.parse('cflib/localization/lighthouse_types.py')
    g.strings('poseRotateTranslateReturns', _returns(X.find(ltt, 'Pose.rotate_translate')))
    g.strings('poseInvRotateTranslateReturns', _returns(X.find(ltt, 'Pose.inv_rotate_translate')))

    # ---- purity of the entry points: statements that mutate objects owned by the caller (must be none) --------------
    muts = []
    for rel, qual, params in CALLER_ARGS:
        fn = X.find(X.parse(rel), qual)
        have = [a.arg for a in fn.args.args]
        X.expect(all(p in have for p in params), '%s: parameters %s not found (has %s)' % (qual, params, have))
        muts += caller_arg_mutations(fn, params)
    g.strings('callerArgMutations', muts)
    g.strings('callerArgFunctions', [q for _, q, _ in CALLER_ARGS])

    # ---- IPPE <-> CF axis permutation ---------------------------------------------------------------------
    it = X.parse(IPPE)
    cls = X.find(it, 'IppeCf')
    r_i2c = r_c2i = None
    for n in cls.body:
        if isinstance(n, ast.Assign) and len(n.targets) == 1 and isinstance(n.targets[0], ast.Name):
            if n.targets[0].id == '_R_ippe_to_cf':
                X.expect(isinstance(n.value, ast.Call) and ast.unparse(n.value.func) == 'np.array' and len(n.value.args) == 1 and not n.value.keywords,
                         'IppeCf._R_ippe_to_cf is not np.array(<literal>)')
                r_i2c = _int_matrix(n.value.args[0], '_R_ippe_to_cf')
            if n.targets[0].id == '_R_cf_to_ippe':
                r_c2i = ast.unparse(n.value)
    X.expect(r_i2c is not None and r_c2i is not None, 'IppeCf rotation matrices not found')
    g.raw('def rIppeToCf : List (List Int) := [' + ', '.join(_lints(r) for r in r_i2c) + ']')
    g.string('rCfToIppeSrc', r_c2i)
    for fn, name in (('_rotate_vector_to_ippe', 'vecToIppeSrc'), ('_rotate_vector_to_cf', 'vecToCfSrc'), ('_rotate_rot_mat_to_cf', 'matToCfSrc')):
        rs = _returns(X.find(cls, fn))
        X.expect(len(rs) == 1, 'IppeCf.%s: expected one return' % fn)
        g.string(name, rs[0])
    c2i = X.find(cls, '_cf_to_ippe')
    g.strings('cfToIppeAssigns', _assigns(c2i))
    g.strings('cfToIppeReturns', _returns(c2i))
    i2c = X.find(cls, '_ippe_to_cf')
    g.strings('ippeToCfCalls', sorted(set(_calls(i2c, '_rotate_rot_mat_to_cf') + _calls(i2c, '_rotate_vector_to_cf'))))
    g.strings('solveCalls', [ast.unparse(n) for n in _stmts(X.find(cls, 'solve'), (ast.Assign, ast.Return))])
    return {'C09.lean': g.render()}


# ------------------------------------------------------------------------------------------------------
# real-code drivers
def _quiet():
    import logging
    import warnings
    logging.disable(logging.CRITICAL)
    warnings.simplefilter('ignore')


def _mods():
    _quiet()
    import numpy as np
    with contextlib.redirect_stdout(io.StringIO()), contextlib.redirect_stderr(io.StringIO()):
        from cflib.localization import lighthouse_geometry_solver as gs
        from cflib.localization import lighthouse_initial_estimator as ie
        from cflib.localization import lighthouse_sample_matcher as sm
        from cflib.localization import lighthouse_types as lt
        from cflib.localization import ippe_cf
        from cflib.localization import lighthouse_bs_vector as bv
    return np, sm, ie, gs, lt, ippe_cf, bv


class Tag:
    def __init__(self, tag):
        self.tag = tag


SCALE = 1024.0    # time stamps are sent to Lean as integers n and to the real code as n/1024 (exact in binary64)


def real_match(max_diff, min_bs, meas, use_default_min=False):
    np, sm, ie, gs, lt, ippe_cf, bv = _mods()
    samples = [lt.LhMeasurement(timestamp=ts / SCALE, base_station_id=b, angles=Tag(a)) for ts, b, a in meas]
    try:
        if use_default_min:
            res = sm.LighthouseSampleMatcher.match(samples, max_time_diff=max_diff / SCALE)
        else:
            res = sm.LighthouseSampleMatcher.match(samples, max_time_diff=max_diff / SCALE, min_nr_of_bs_in_match=min_bs)
    except Exception as e:
        return 'err ' + exc_enum(e)
    out = []
    for g in res:
        t = g.timestamp * SCALE
        assert t == int(t)
        out.append('%d:%s' % (int(t), ','.join('%d=%d' % (b, a.tag) for b, a in g.angles_calibrated.items()) or '-'))
    return 'ok ' + (';'.join(out) or '-')


class SymPose:
    def __init__(self, s):
        self.s = s


def _sym_estimator():
    """LighthouseInitialEstimator with the numeric leaf operations replaced by symbolic ones (they are called through
    `cls.`), so that the real control flow of estimate/_estimate_remaining_bs_poses/_estimate_cf_poses is observed."""
    np, sm, ie, gs, lt, ippe_cf, bv = _mods()
    Base = ie.LighthouseInitialEstimator

    class SymEst(Base):
        fake_ref_cfs = None
        picks = None
        phase = None
        rnd = 0

        @classmethod
        def reset(cls, ref_cfs):
            cls.fake_ref_cfs = ref_cfs
            cls.picks = {}
            cls.phase = 'avg'
            cls.rnd = -1
            cls.inconsistent = False

        @classmethod
        def _find_solutions(cls, matched_samples, sensor_positions):
            return {}

        @classmethod
        def _angles_to_poses(cls, matched_samples, sensor_positions, bs_positions):
            return cls.fake_ref_cfs, matched_samples

        @classmethod
        def _map_pose_to_ref_frame(cls, a, b, c):
            if cls.phase == 'avg':
                cls.rnd += 1
                cls.phase = 'map'
            if b.s.startswith('c'):
                i, k = b.s[1:].split('_')
                key = (cls.rnd, int(i))
                if cls.picks.setdefault(key, int(k)) != int(k):
                    cls.inconsistent = True
            return SymPose('M(%s,%s,%s)' % (a.s, b.s, c.s))

        @classmethod
        def _map_cf_pos_to_cf_pos(cls, a, b):
            return SymPose('C(%s,%s)' % (a.s, b.s))

        @classmethod
        def _avarage_poses(cls, poses):
            cls.phase = 'avg'
            if not poses:
                return Base._avarage_poses(poses)     # the real behaviour on an empty list (numpy raises)
            return SymPose('A(%s)' % ','.join(p.s for p in poses))
    return SymEst, lt


def real_link_room(room):
    """estimate() on a generated room with the REAL _find_solutions/_angles_to_poses numerics; only the poses handed to the
    linking stage are replaced by tagged symbols (keeping the dict insertion order the real code produced).
    -> (key structure, reply, picks)"""
    np, sm, ie, gs, lt, ippe_cf, bv = _mods()
    SymEst, _ = _sym_estimator()
    Base = ie.LighthouseInitialEstimator
    seen = {}

    class RoomEst(SymEst):
        @classmethod
        def _find_solutions(cls, matched_samples, sensor_positions):
            return Base._find_solutions.__func__(cls, matched_samples, sensor_positions)

        @classmethod
        def _angles_to_poses(cls, matched_samples, sensor_positions, bs_positions):
            poses, cleaned = Base._angles_to_poses.__func__(cls, matched_samples, sensor_positions, bs_positions)
            seen['keys'] = [list(d.keys()) for d in poses]
            return _sym_dicts(seen['keys']), cleaned
    RoomEst.reset(None)
    matched = [lt.LhCfPoseSample(timestamp=float(i), angles_calibrated={b: synth_angles(np, lt, bv, room['cf'][i], room['bs'][str(b)])
                                                                        for b in room['vis'][i]}) for i in range(len(room['cf']))]
    try:
        with contextlib.redirect_stdout(io.StringIO()), np.errstate(all='ignore'):
            res, _ = RoomEst.estimate(matched, lt.LhDeck4SensorPositions.positions)
        out = 'ok %s %s' % ('|'.join('%d=%s' % (b, p.s) for b, p in sorted(res.bs_poses.items())) or '-',
                            '|'.join(p.s for p in res.cf_poses) or '-')
    except Exception as e:
        out = _lh_err(e, lt)
    return seen.get('keys'), out, _picks_str(RoomEst.picks)


def _lh_err(e, lt):
    if isinstance(e, lt.LhException):
        msg = str(e)
        if 'no reference' in msg:
            return 'err no_reference'
        if 'Can not link' in msg:
            return 'err cannot_link'
        return 'err lh_other'
    return 'err ' + exc_enum(e)


def _sym_dicts(samples):
    return [{b: SymPose('c%d_%d' % (i, b)) for b in ks} for i, ks in enumerate(samples)]


def _picks_str(picks):
    return ','.join('%d:%d:%d' % (r, i, k) for (r, i), k in sorted(picks.items())) or '-'


def real_link(samples):
    """-> (reply, picks) for the real estimate() run on the given key structure (one list of ids, in dict order, per sample)"""
    SymEst, lt = _sym_estimator()
    SymEst.reset(_sym_dicts(samples))
    try:
        with contextlib.redirect_stdout(io.StringIO()):
            res, _ = SymEst.estimate([None] * len(samples), None)
        out = 'ok %s %s' % ('|'.join('%d=%s' % (b, p.s) for b, p in sorted(res.bs_poses.items())) or '-',
                            '|'.join(p.s for p in res.cf_poses) or '-')
    except Exception as e:
        out = _lh_err(e, lt)
    if SymEst.inconsistent:
        out += ' INCONSISTENT-PICK'
    return out, _picks_str(SymEst.picks)


def real_remaining(samples, known):
    SymEst, lt = _sym_estimator()
    SymEst.reset(None)
    bs_poses = {b: SymPose('g%d' % b) for b in known}
    try:
        SymEst._estimate_remaining_bs_poses(_sym_dicts(samples), bs_poses)
        out = 'ok ' + ('|'.join('%d=%s' % (b, p.s) for b, p in sorted(bs_poses.items())) or '-')
    except Exception as e:
        out = _lh_err(e, lt)
    if SymEst.inconsistent:
        out += ' INCONSISTENT-PICK'
    return out, _picks_str(SymEst.picks)


class StubPose:
    def __init__(self, params):
        import numpy as np
        self.rot_vec = np.array(params[:3], dtype=float)
        self.translation = np.array(params[3:], dtype=float)


class StubAngles:
    def __init__(self, n):
        self.n = n

    def angle_list(self):
        import numpy as np
        return np.zeros(2 * self.n)


def bs_params(b):
    return [1000 * (b + 1) + k for k in range(6)]


def cf_params(i):
    return [-(100 * (i + 1) + k) for k in range(6)]


def _ints(a):
    l = [float(x) for x in a]
    assert all(x == int(x) for x in l), l
    return ','.join(str(int(x)) for x in l) or '-'


def real_solve_glue(bs_order, samples, n_sensors, n_cf_poses, xtest=None, repeat=False):
    """Run the REAL LighthouseGeometrySolver.solve with scipy's least_squares replaced at the call boundary by a recorder.
    Returns the dict of replies for the ops indexes / x0 / gather / condense."""
    from unittest import mock
    np, sm, ie, gs, lt, ippe_cf, bv = _mods()
    rec = {}

    class SymSolver(gs.LighthouseGeometrySolver):
        @classmethod
        def _populate_indexes_and_jacobian(cls, matched_samples, defs):
            r = super()._populate_indexes_and_jacobian(matched_samples, defs)
            rec['indexes'] = r
            return r

        @classmethod
        def _populate_initial_guess(cls, initial_guess, defs):
            r = super()._populate_initial_guess(initial_guess, defs)
            rec['guess'] = r
            return r

        @classmethod
        def _calc_angle_pairs(cls, bs_p_a, cf_p_a, sens_pos_p_a, defs):
            rec['gather'] = (np.array(bs_p_a), np.array(cf_p_a), np.array(sens_pos_p_a))
            return np.zeros((len(bs_p_a), 2))

        @classmethod
        def _params_to_pose(cls, params, defs):
            return '%s/%s' % (_ints(params[:defs.len_rot_vec]), _ints(params[defs.len_rot_vec:defs.len_pose]))

    class FakeResult:
        pass

    def fake_lsq(fun, x0, jac_sparsity=None, args=(), **kw):
        rec['x0'] = np.array(x0)
        rec['jac'] = jac_sparsity
        rec['args'] = args
        x = np.array(x0) if xtest is None else np.array(xtest, dtype=float)
        rec['fun'] = fun(x, *args)
        r = FakeResult()
        r.x = x
        r.success = True
        r.fun = rec['fun']
        return r
    guess = lt.LhBsCfPoses({b: StubPose(bs_params(b)) for b in bs_order}, [StubPose(cf_params(i)) for i in range(n_cf_poses)])
    matched = [lt.LhCfPoseSample(timestamp=float(i), angles_calibrated={b: StubAngles(n_sensors) for b in ks}) for i, ks in enumerate(samples)]
    sens = np.array([[float(s), 0.0, 0.0] for s in range(n_sensors)]).reshape((n_sensors, 3))
    out = {}

    def args_fp():
        return (['%d:%s' % (b, _ints(list(p.rot_vec) + list(p.translation))) for b, p in guess.bs_poses.items()],
                [_ints(list(p.rot_vec) + list(p.translation)) for p in guess.cf_poses],
                [(m.timestamp, list(m.angles_calibrated)) for m in matched], sens.tolist())
    fp0 = args_fp()
    if repeat:
        # an earlier solve() on the very same objects (retry / re-solve): must neither change them nor the second run
        try:
            with mock.patch.object(gs.scipy.optimize, 'least_squares', fake_lsq), contextlib.redirect_stdout(io.StringIO()):
                SymSolver.solve(guess, matched, sens)
        except Exception:
            pass
        rec.clear()
    try:
        with mock.patch.object(gs.scipy.optimize, 'least_squares', fake_lsq), contextlib.redirect_stdout(io.StringIO()):
            sol = SymSolver.solve(guess, matched, sens)
    except Exception as e:
        out['error'] = 'err ' + exc_enum(e)
        sol = None
    out['args_unchanged'] = args_fp() == fp0
    if 'indexes' in rec:
        ibs, icf, isens, jac = rec['indexes']
        rows = [sorted(int(c) for c in jac.rows[r]) for r in range(jac.shape[0])]
        assert all(v == 1 for r in jac.data for v in r)
        out['indexes'] = 'ok %s %s %s %dx%d %s' % (_ints(ibs), _ints(icf), _ints(isens), jac.shape[0], jac.shape[1],
                                                  ';'.join(_ints(r) for r in rows) or '-')
    if 'guess' in rec:
        pb, pc = rec['guess']
        out['x0'] = 'ok ' + _ints(np.hstack((pb.ravel(), pc.ravel())))
        if 'x0' in rec:
            assert (rec['x0'] == np.hstack((pb.ravel(), pc.ravel()))).all() and rec['jac'] is rec['indexes'][3]
            assert all(a is b for a, b in zip(rec['args'][1:4], rec['indexes'][:3]))
    if 'gather' in rec:
        g = rec['gather']
        rws = []
        for p in range(len(g[0])):
            for a in (0, 1):
                rws.append('%d/%s/%s/%d/%d' % (2 * p + a, _ints(g[0][p]), _ints(g[1][p]), int(g[2][p][0]), a))
        out['gather'] = 'ok ' + (';'.join(rws) or '-')
    elif 'fun' in rec:
        out['gather'] = 'ok -'
    if sol is not None:
        out['condense'] = 'ok %s %s' % ('|'.join('%d=%s' % (b, p) for b, p in sorted(sol.bs_poses.items())) or '-',
                                        '|'.join('I' if isinstance(p, lt.Pose) and (p.rot_matrix == np.identity(3)).all() and (p.translation == 0).all()
                                                 else str(p) for p in sol.cf_poses))
    return out


def real_bsmap(ids):
    np, sm, ie, gs, lt, ippe_cf, bv = _mods()
    a, b = gs.LighthouseGeometrySolver._create_bs_map({i: None for i in ids})
    return 'ok %s %s' % (','.join('%d:%d' % kv for kv in a.items()) or '-', ','.join('%d:%d' % kv for kv in b.items()) or '-')


def real_rottrans(p, r, t):
    np, sm, ie, gs, lt, ippe_cf, bv = _mods()
    with np.errstate(all='ignore'):
        o = gs.LighthouseGeometrySolver._rotate_translate(np.array([p], dtype=float), np.array([r], dtype=float), np.array([t], dtype=float))[0]
    return [float(x) for x in o]


def real_residpair(bs, cf, sens, target, cf_is_first):
    """the REAL _calc_residual for one base station, one sensor and one sample (sample 0 = pinned zero pose, or sample 1)"""
    np, sm, ie, gs, lt, ippe_cf, bv = _mods()
    S = gs.LighthouseGeometrySolver
    defs = gs.LighthouseGeometrySolution()
    defs.n_bss, defs.n_cfs, defs.n_cfs_in_params, defs.n_sensors = 1, 2, 1, 1
    params = np.array(list(bs) + list(cf), dtype=float)
    ibs, icf, isens = np.array([0]), np.array([0 if cf_is_first else 1]), np.array([0])
    sp = np.array([sens], dtype=float)
    with np.errstate(all='ignore'):
        bss, cfs = S._params_to_struct(params, defs)
        cfs_full = np.concatenate((np.zeros((1, 6)), cfs))
        ang = S._poses_to_angle_pairs(bss, cfs_full, sp, ibs, icf, isens, defs)[0]
        res = S._calc_residual(params, defs, ibs, icf, isens, np.array(target, dtype=float), sp)
    return [float(ang[0]), float(ang[1]), float(res[0]), float(res[1])]


def _fbits(l):
    from harness.lib.common import f64bits
    return ','.join(str(f64bits(float(x))) for x in l)


def _close(model_reply, real_vals, tol=1e-9):
    from harness.lib.common import bits_f64
    if not model_reply.startswith('ok '):
        return False
    try:
        mv = [bits_f64(int(x)) for x in model_reply[3:].split(',')]
    except ValueError:
        return False
    return len(mv) == len(real_vals) and all(abs(a - b) <= tol * max(1.0, abs(a), abs(b)) for a, b in zip(mv, real_vals))


class QStub:
    """a pose handed to _avarage_poses with an explicit quaternion (sign chosen by the test)"""

    def __init__(self, quat, t):
        import numpy as np
        self.rot_quat = np.array(quat, dtype=float)
        self.translation = np.array(t, dtype=float)


def real_gram(rows):
    """the matrix the REAL _avarage_poses hands to the eigen-solver for poses with the given (integer) quaternions"""
    from unittest import mock
    np, sm, ie, gs, lt, ippe_cf, bv = _mods()
    rec = []

    def fake_eigh(m, *a, **k):
        rec.append(np.array(m))
        return np.arange(4, dtype=float), np.identity(4)
    try:
        with mock.patch.object(np.linalg, 'eigh', fake_eigh), mock.patch.object(np.linalg, 'eig', fake_eigh), np.errstate(all='ignore'):
            ie.LighthouseInitialEstimator._avarage_poses([QStub(q, (0, 0, 0)) for q in rows])
    except Exception as e:
        if not rec:
            return 'err ' + exc_enum(e)
    if len(rec) != 1 or rec[0].shape != (4, 4):
        return 'no-eigen-decomposition-of-a-4x4-matrix'
    return 'ok ' + _ints(rec[0].ravel())


def averaging_violations(rng, n_trials):
    """helper-level check on the REAL _avarage_poses: N estimates of one pose - written with arbitrary quaternion signs,
    optionally perturbed by <= eps - average to that pose (rotation within 4*eps + 1e-9, translation to the mean)."""
    import math
    from scipy.spatial.transform import Rotation
    np, sm, ie, gs, lt, ippe_cf, bv = _mods()
    E = ie.LighthouseInitialEstimator
    bad = []
    for k in range(n_trials):
        kind = k % 4
        if kind == 0:      # level and square: yaw multiple of 90 deg, round pitch (ties between quaternion components)
            R = Rotation.from_euler('ZY', [math.radians(rng.choice([-90, 90, 180, 0])), math.radians(rng.choice([0, 30, 45, 40]))])
        elif kind == 1:
            R = Rotation.from_euler('z', math.radians(rng.choice([-90, 90, 180, 45, -135])))
        else:
            R = Rotation.from_rotvec([rng.uniform(-3, 3) for _ in range(3)])
        q = R.as_quat()
        t = np.array([rng.uniform(-3, 3) for _ in range(3)])
        n = rng.choice([1, 2, 2, 3, 4, 4, 5, 6, 8])
        eps = rng.choice([0.0, 0.0, 1e-12, 1e-6, 1e-3])
        pattern = rng.choice(['random', 'alternate', 'half', 'same', 'one'])
        signs = {'random': [rng.choice([-1, 1]) for _ in range(n)], 'alternate': [(-1) ** i for i in range(n)],
                 'half': [1] * (n // 2) + [-1] * (n - n // 2), 'same': [rng.choice([-1, 1])] * n, 'one': [-1] + [1] * (n - 1)}[pattern]
        poses, ts = [], []
        for sgn in signs:
            dq = (Rotation.from_rotvec([rng.uniform(-eps, eps) for _ in range(3)]) * R).as_quat() if eps else q
            if np.dot(dq, q) < 0:
                dq = -dq
            ti = t + np.array([rng.uniform(-eps, eps) for _ in range(3)])
            ts.append(ti)
            poses.append(QStub(sgn * dq, ti))
        case = {'quat': [float(x) for x in q], 'signs': signs, 'eps': eps, 't': [float(x) for x in t]}
        try:
            with np.errstate(all='ignore'):
                res = E._avarage_poses(poses)
            dr = float(Rotation.from_matrix(R.as_matrix().T @ res.rot_matrix).magnitude())
            dt = float(np.linalg.norm(res.translation - np.mean(ts, axis=0)))
        except Exception as e:
            bad.append((case, 'raised %s: %s' % (type(e).__name__, str(e)[:120])))
            continue
        if not (dr <= 4 * eps + 1e-9 and dt <= 1e-9):
            bad.append((case, 'rotation off by %.3g rad, translation off the mean by %.3g' % (dr, dt)))
    # the same through real Pose objects: scipy's as_quat() picks the sign itself (ties for yaw -90)
    for k in range(n_trials // 2):
        R = Rotation.from_euler('ZY', [math.radians(-90), math.radians(rng.choice([0, 30, 45, 40, rng.uniform(20, 60)]))])
        n = rng.choice([2, 4, 2, 4, 6])
        poses = [lt.Pose((Rotation.from_rotvec([rng.uniform(-1e-15, 1e-15) for _ in range(3)]) * R).as_matrix(), (1.0, 2.0, 3.0)) for _ in range(n)]
        case = {'pose': 'yaw -90 deg wall station', 'n': n, 'quat_signs': [int(np.sign(p.rot_quat[3])) for p in poses]}
        try:
            with np.errstate(all='ignore'):
                res = E._avarage_poses(poses)
            dr = float(Rotation.from_matrix(R.as_matrix().T @ res.rot_matrix).magnitude())
        except Exception as e:
            bad.append((case, 'raised %s: %s' % (type(e).__name__, str(e)[:120])))
            continue
        if not dr <= 1e-9:
            bad.append((case, 'rotation off by %.3g rad' % dr))
    return bad


def real_ippe(op, v):
    np, sm, ie, gs, lt, ippe_cf, bv = _mods()
    I = ippe_cf.IppeCf
    if op == 'vec2ippe':
        return 'ok ' + _ints(I._rotate_vector_to_ippe(np.array(v, dtype=float)))
    if op == 'vec2cf':
        return 'ok ' + _ints(I._rotate_vector_to_cf(np.array(v, dtype=float)))
    if op == 'mat2cf':
        return 'ok ' + _ints(I._rotate_rot_mat_to_cf(np.array(v, dtype=float).reshape((3, 3))).ravel())
    if op == 'rcf2ippe':
        return 'ok ' + _ints(I._R_cf_to_ippe.ravel())
    raise ValueError(op)


# ------------------------------------------------------------------------------------------------------
# Tie B: generators and comparison
ID_POOLS = [list(range(0, 4)), list(range(0, 16)), [0, 1, 2, 3, 7, 8, 15, 16, 31, 64, 255, 1000], [5, 9, 12, 1, 14, 3]]


def gen_ids(rng, n):
    pool = rng.choice(ID_POOLS)
    while len(pool) < n:
        pool = ID_POOLS[1]
    return rng.sample(pool, n)


def gen_match_cases(ctx):
    rng = ctx.rng
    thorough = ctx.tier == 'thorough'
    cases = []
    # exhaustive small space: n measurements, every gap pattern over {0, d, d+1} x every id pattern over 2 ids, min_bs 0..2
    d = 4
    for n in range(0, 6 if thorough else 5):
        for gaps in itertools.product((0, d, d + 1), repeat=max(n - 1, 0)):
            for ids in itertools.product((1, 2), repeat=n):
                ts, meas = 10, []
                for i in range(n):
                    if i:
                        ts += gaps[i - 1]
                    meas.append((ts, ids[i], i + 1))
                for mb in ((0, 2) if not thorough else (0, 1, 2)):
                    cases.append((d, mb, meas, False, ('match-ex', n, gaps, ids, mb)))
    # random streams: bursts of measurements with boundary gaps, occasional clock steps backwards, repeated stations
    for k in range(1500 if thorough else 300):
        nb = rng.randint(1, 6)
        ids = gen_ids(rng, nb)
        dmax = rng.choice([0, 1, 5, 20, 20, 100])
        if rng.random() < 0.05:
            dmax = -rng.choice([1, 5])          # negative window: every measurement opens a group (and an empty first one)
        ts, meas = rng.randint(0, 50), []
        for i in range(rng.randint(0, 40)):
            r = rng.random()
            if r < 0.55:
                ts += rng.choice([0, 1, 2])
            elif r < 0.9:
                ts += max(dmax, 0) + rng.choice([-1, 0, 1, 2, 50])
            else:
                ts -= rng.choice([1, max(dmax, 0), max(dmax, 0) + 3])
            meas.append((ts, rng.choice(ids), rng.randint(0, 999)))
        mb = rng.choice([0, 0, 1, 2, 2, 3, nb, -1])
        cases.append((dmax, mb, meas, rng.random() < 0.1, ('match-rnd', k)))
    return cases


def components(samples):
    """connected components of the co-visibility hypergraph (python twin of `Linked`)"""
    parent = {}

    def find(x):
        while parent.setdefault(x, x) != x:
            parent[x] = parent[parent[x]]
            x = parent[x]
        return x
    for s in samples:
        for b in s:
            find(b)
        for b in s[1:]:
            parent[find(b)] = find(s[0])
    comp = {}
    for b in list(parent):
        comp.setdefault(find(b), set()).add(b)
    return list(comp.values())


def gen_hypergraph(rng, big=False):
    """key structure of bs_poses_ref_cfs: list of id lists.  Shapes: chain, star, random, two islands, with empties/singletons"""
    nb = rng.randint(1, 9 if big else 7)
    ids = gen_ids(rng, nb)
    shape = rng.choice(['chain', 'chain', 'star', 'random', 'random', 'islands', 'islands', 'dense', 'degenerate'])
    samples = []
    if shape == 'chain':
        order = ids[:]
        rng.shuffle(order)
        for a, b in zip(order, order[1:]):
            samples.append([a, b] + ([rng.choice(ids)] if rng.random() < 0.2 else []))
        if rng.random() < 0.3 and len(samples) > 1:
            del samples[rng.randrange(len(samples))]           # break the chain
        rng.shuffle(samples)
    elif shape == 'star':
        hub = rng.choice(ids)
        samples = [[hub, b] for b in ids if b != hub]
        rng.shuffle(samples)
    elif shape in ('random', 'dense'):
        for _ in range(rng.randint(0, 10)):
            k = rng.randint(2, max(2, nb if shape == 'dense' else min(nb, 3)))
            samples.append(rng.sample(ids, min(k, nb)))
    elif shape == 'islands':
        cut = rng.randint(1, max(1, nb - 1))
        for grp in (ids[:cut], ids[cut:]):
            for _ in range(rng.randint(1, 4)):
                if len(grp) >= 2:
                    samples.append(rng.sample(grp, rng.randint(2, len(grp))))
        if rng.random() < 0.4 and nb >= 2:
            samples.append([ids[0], ids[-1]])                  # bridge
        rng.shuffle(samples)
    else:
        for _ in range(rng.randint(0, 4)):
            samples.append(rng.sample(ids, rng.choice([0, 0, 1, min(2, nb)])))
    out = []
    for s in samples:
        s = list(dict.fromkeys(s))
        if rng.random() < 0.7:
            s = sorted(s)                                      # the order _angles_to_poses produces
        out.append(s)
        if rng.random() < 0.02:
            out.append([])                                     # a one-station sample yields an empty dict
    if rng.random() < 0.05:
        out.insert(0, [])
    return out


def gen_solver_case(rng):
    nb = rng.randint(1, 6)
    ids = gen_ids(rng, nb)
    ns = rng.randint(1, 4) if rng.random() < 0.5 else 4
    nsamp = rng.choice([0, 1, 1, 2, 3, 5, 8, 12])
    samples = []
    for _ in range(nsamp):
        k = rng.randint(1, nb)
        samples.append(rng.sample(ids, k))
    bs_order = ids[:]
    rng.shuffle(bs_order)
    guess_ids = bs_order
    r = rng.random()
    if r < 0.08 and nb > 1:
        guess_ids = bs_order[:-1]                              # a station without initial guess -> KeyError (if it is seen)
    ncf = nsamp
    r = rng.random()
    if r < 0.08:
        ncf = nsamp + rng.randint(1, 2)                        # more CF poses than samples -> IndexError
    elif r < 0.16 and nsamp > 0:
        ncf = nsamp - 1                                        # fewer -> rows left at zero
    return guess_ids, samples, ns, ncf


def correspond(ctx):
    rng = ctx.rng
    thorough = ctx.tier == 'thorough'
    lines, reals, descs = [], [], []

    def add(kind, line, real, desc, key):
        lines.append(line)
        reals.append((kind, real, desc, key))

    # ---- matcher
    for d, mb, meas, dflt, key in gen_match_cases(ctx):
        mstr = ';'.join('%d,%d,%d' % m for m in meas) or '-'
        real = real_match(d, mb, meas, use_default_min=dflt)
        add('match', 'match %d %d %s' % (d, 0 if dflt else mb, mstr), real, {'op': 'match', 'maxDiff': d, 'minBs': mb, 'n': len(meas)}, key)
        ctx.count('match:groups=%s' % min(real.count(':'), 5))
    # ---- linking (the real run comes first: it yields the picks the model is then given)
    for k in range(2500 if thorough else 500):
        samples = gen_hypergraph(rng, big=thorough)
        sstr = ';'.join(','.join(map(str, s)) or '-' for s in samples) or '-'
        if rng.random() < 0.7:
            real, picks = real_link(samples)
            add('link', 'link %s %s' % (sstr, picks), real, {'op': 'link', 'samples': samples}, ('link', sstr))
        else:
            allb = sorted({b for s in samples for b in s})
            known = rng.sample(allb, rng.randint(0, min(3, len(allb)))) if allb else []
            if rng.random() < 0.15:
                known.append(4242)                            # a known station no sample mentions
            real, picks = real_remaining(samples, known)
            add('remaining', 'remaining %s %s %s' % (sstr, ','.join(map(str, known)) or '-', picks), real,
                {'op': 'remaining', 'samples': samples, 'known': known}, ('remaining', sstr, tuple(known)))
        ctx.count('link:' + ' '.join(real.split(' ')[:2]) if real.startswith('err') else 'link:ok')
        ctx.count('link:components=%d' % min(len(components(samples)), 3))
        ctx.count('link:rounds=%d' % len({p.split(':')[0] for p in picks.split(',') if p != '-'}))
    # ---- linking behind the REAL IPPE / mirror-selection numerics on generated rooms (key order as the real code produces it)
    for k in range(60 if thorough else 10):
        room = gen_room(rng, ncf=rng.randint(3, 12), chain=rng.choice([None, None, 'unlinked']) if k % 3 == 2 else None,
                        nbs=rng.randint(4, 6) if k % 3 == 2 else None)
        keys, real, picks = real_link_room(room)
        if keys is None:
            ctx.disagree('link-room', str(room['vis']), '-', real)
            continue
        sstr = ';'.join(','.join(map(str, s)) or '-' for s in keys) or '-'
        add('link', 'link %s %s' % (sstr, picks), real, {'op': 'link-room', 'vis': room['vis']}, ('link-room', sstr))
        ctx.count('linkroom:' + ('ok' if real.startswith('ok') else real))
        ctx.count('linkroom:dropped=%d' % (len(room['cf']) - len(keys)))
    # ---- solver layout (real solve() with least_squares recorded at the boundary)
    for k in range(600 if thorough else 150):
        guess_ids, samples, ns, ncf = gen_solver_case(rng)
        sstr = ';'.join(','.join(map(str, s)) or '-' for s in samples) or '-'
        istr = ','.join(map(str, sorted(guess_ids))) or '-'
        nx = 6 * len(guess_ids) + 6 * (len(samples) - 1)
        xtest = [7 * (j + 1) for j in range(max(nx, 0))]
        repeat = k % 3 == 1
        out = real_solve_glue(guess_ids, samples, ns, ncf, xtest=xtest, repeat=repeat)
        ctx.count('solve:repeat' if repeat else 'solve:first')
        if not out.get('args_unchanged', True):
            ctx.disagree('solve-args', 'solve() on ids %s samples %s' % (guess_ids, samples), 'arguments unchanged (session model)', 'solve() mutated its arguments')
        pstr = ','.join(map(str, xtest)) or '-'
        err = out.get('error')
        desc = {'op': 'solve-glue', 'guess_ids': guess_ids, 'samples': samples, 'n_sensors': ns, 'n_cf_poses': ncf}
        ctx.count('solve:' + (err or 'ok'))
        head = '%s %d %d' % (istr, len(samples), ns)
        # every stage the real run reached must agree; the stage it failed in must fail identically
        stages = [('indexes', 'indexes %s %s' % (head, sstr)), ('x0', 'x0 %s %s %d' % (head, ','.join(map(str, guess_ids)) or '-', ncf)),
                  ('gather', 'gather %s %s %s' % (head, sstr, pstr)), ('condense', 'condense %s %s' % (head, pstr))]
        if not samples:
            stages = stages[:1]      # empty sample list: only the API-level outcome (ValueError) is compared (see docs/C09.md)
            out = {'error': err}
        for name, line in stages:
            if name in out:
                add(name, line, out[name], desc, (name, istr, sstr, ns, ncf))
            else:
                add(name, line, err or 'missing-stage', desc, (name, istr, sstr, ns, ncf))
                break
    for k in range(60):
        ids = gen_ids(rng, rng.randint(0, 8))
        add('bsmap', 'bsmap %s' % (','.join(map(str, ids)) or '-'), real_bsmap(ids), {'op': 'bsmap', 'ids': ids}, ('bsmap', tuple(ids)))
    # ---- quaternion averaging: the matrix the real _avarage_poses hands to the eigen-solver = model gram
    for k in range(200 if thorough else 60):
        rows = [[rng.randint(-9, 9) for _ in range(4)] for _ in range(rng.choice([1, 2, 2, 3, 4, 6]))]
        if k % 3 == 0:
            rows = [[-x for x in r] if rng.random() < 0.5 else r for r in [rows[0]] * len(rows)]     # one pose, mixed signs
        add('gram', 'gram ' + ';'.join(','.join(map(str, r)) for r in rows), real_gram(rows), {'op': 'gram', 'rows': rows}, ('gram', str(rows)))
    # ---- IPPE axis permutations
    add('ippe', 'rcf2ippe', real_ippe('rcf2ippe', None), {'op': 'rcf2ippe'}, ('rcf2ippe',))
    for k in range(60):
        v = [rng.randint(-50, 50) for _ in range(3)]
        for op in ('vec2ippe', 'vec2cf'):
            add('ippe', '%s %s' % (op, ','.join(map(str, v))), real_ippe(op, v), {'op': op, 'v': v}, (op, tuple(v)))
        m = [rng.randint(-9, 9) for _ in range(9)]
        add('ippe', 'mat2cf %s' % ','.join(map(str, m)), real_ippe('mat2cf', m), {'op': 'mat2cf', 'm': m}, ('mat2cf', tuple(m)))
    # ---- row-wise residual numerics (binary64 instance of the generic model vs numpy; tolerance 1e-9, no bit equality)
    for k in range(1500 if thorough else 300):
        rv = lambda m: [rng.uniform(-m, m) for _ in range(3)]
        zero = [0.0, 0.0, 0.0]
        p, r, t = rv(3), (zero if k % 7 == 0 else rv(rng.choice([0.001, 1.0, 3.1]))), rv(3)
        add('numeric', 'rottrans ' + _fbits(p + r + t), real_rottrans(p, r, t), {'op': 'rottrans', 'p': p, 'r': r, 't': t}, ('rottrans', k))
        first = k % 3 == 0
        cfr, cft = (zero, zero) if first else ((zero if k % 5 == 0 else rv(rng.choice([0.2, 3.0]))), rv(1.0))
        bst = [rng.uniform(-3, 3), rng.uniform(-3, 3), rng.uniform(1.5, 3)]
        # base station looking roughly at the origin so that the sensor is in front of it (x > 0 in its frame)
        import numpy as _np
        from scipy.spatial.transform import Rotation as _R
        Rm, _ = look_at(_np, _np.array(bst), _np.array([0.0, 0.0, 0.3]), rng.uniform(-0.3, 0.3))
        bsr = [float(x) for x in _R.from_matrix(Rm).as_rotvec()]
        sens = [rng.uniform(-0.02, 0.02), rng.uniform(-0.02, 0.02), 0.0]
        true = real_residpair(bsr + bst, cfr + cft, sens, [0.0, 0.0], first)
        target = [true[0] + rng.choice([0.0, rng.uniform(-0.3, 0.3)]), true[1] + rng.choice([0.0, rng.uniform(-0.3, 0.3)])]
        vals = real_residpair(bsr + bst, cfr + cft, sens, target, first)
        add('numeric', 'residpair ' + _fbits(bsr + bst + cfr + cft + sens + target), vals,
            {'op': 'residpair', 'bs': bsr + bst, 'cf': cfr + cft, 'sens': sens, 'target': target, 'first_sample': first}, ('residpair', k))
        ctx.count('resid:zero-target' if target == true[:2] else 'resid:offset-target')
    replies = ctx.lean(DRIVER, lines)
    for line, (kind, real, desc, key), model in zip(lines, reals, replies):
        if kind == 'numeric':
            ctx.count('op:' + desc['op'])
            ctx.case(desc, key)
            if not _close(model, real):
                ctx.disagree(desc['op'], line[:400], model[:400], str(real)[:400])
            continue
        ctx.count('op:' + kind)
        ctx.case(desc, key)
        if real != model:
            ctx.disagree(kind, line[:400], model[:400], str(real)[:400])


# ------------------------------------------------------------------------------------------------------
# search(): the property evaluated directly on the real code (TESTING, never the basis of a "holds" verdict)
TOL_POS = 1e-3     # 1 mm
TOL_ROT = 1e-3     # 1 mrad


def spec_match(meas, max_diff, min_bs):
    """python twin of Spec: greedy time-window segmentation, last measurement per station wins, small groups dropped"""
    groups, cur = [], None
    for ts, b, a in meas:
        if cur is None or ts > cur[0] + max_diff:
            cur = [ts, {}]
            groups.append(cur)
        cur[1][b] = a
    return [(ts, d) for ts, d in groups if len(d) >= min_bs]


def look_at(np, pos, target, roll):
    """base-station pose: x axis (forward) from pos towards target, rolled about it"""
    from scipy.spatial.transform import Rotation
    x = target - pos
    x = x / np.linalg.norm(x)
    y = np.cross(np.array([0.0, 0.0, 1.0]), x)
    y = y / np.linalg.norm(y)
    z = np.cross(x, y)
    R = np.column_stack([x, y, z]) @ Rotation.from_rotvec([roll, 0.0, 0.0]).as_matrix()
    return R, pos


def gen_room(rng, nbs=None, ncf=None, chain=None):
    """a room in the property's envelope: 2..6 base stations with arbitrary ids, above and facing the flight volume
    from 1.5-4 m; 3..40 roughly level Crazyflie poses with random yaw and small tilt; full or partial (but linked, unless
    `chain == 'unlinked'`) visibility.  Returns plain python data (lists of floats) so that it can be stored in a replay."""
    import numpy as np
    from scipy.spatial.transform import Rotation
    nbs = nbs or rng.randint(2, 6)
    ncf = ncf or rng.randint(3, 40)
    ids = sorted(gen_ids(rng, nbs))
    rng.shuffle(ids)
    bss = {}
    for b in ids:
        ang = rng.uniform(0, 2 * math.pi)
        rad = rng.uniform(1.2, 3.0)
        h = rng.uniform(1.6, 3.0)
        pos = np.array([rad * math.cos(ang), rad * math.sin(ang), h])
        tgt = np.array([rng.uniform(-0.5, 0.5), rng.uniform(-0.5, 0.5), rng.uniform(0.0, 0.5)])
        R, t = look_at(np, pos, tgt, rng.uniform(-0.15, 0.15))
        bss[b] = (R.tolist(), t.tolist())
    cfs = []
    for i in range(ncf):
        yaw = rng.uniform(-math.pi, math.pi)
        R = Rotation.from_euler('zyx', [yaw, rng.uniform(-0.1, 0.1), rng.uniform(-0.1, 0.1)]).as_matrix()
        p = [rng.uniform(-1.0, 1.0), rng.uniform(-1.0, 1.0), rng.uniform(0.0, 1.0)]
        cfs.append((R.tolist(), p))
    chain = chain or rng.choice(['full', 'random', 'random', 'chain', 'pairs'])
    vis = []
    if chain == 'full' or nbs == 2:
        vis = [list(ids) for _ in range(ncf)]
    elif chain == 'random':
        vis = [rng.sample(ids, rng.randint(2, nbs)) for _ in range(ncf)]
    elif chain in ('chain', 'pairs'):
        order = ids[:]
        rng.shuffle(order)
        links = list(zip(order, order[1:]))
        for i in range(ncf):
            a, b = links[i % len(links)] if i < len(links) or chain == 'pairs' else rng.choice(links)
            v = [a, b]
            if chain == 'chain' and rng.random() < 0.5:
                v += [x for x in ids if x not in v and rng.random() < 0.4]
            vis.append(v)
    elif chain == 'unlinked':
        cut = rng.randint(1, nbs - 1) if nbs >= 4 else 1
        cut = max(2, min(cut, nbs - 2)) if nbs >= 4 else None
        if cut is None:
            raise ValueError('an unlinked system with every sample seen by >= 2 stations needs >= 4 stations')
        for i in range(ncf):
            grp = ids[:cut] if i % 2 == 0 else ids[cut:]
            vis.append(rng.sample(grp, rng.randint(2, len(grp))))
    if chain != 'unlinked' and len(components([list(v) for v in vis])) != 1 or {b for v in vis for b in v} != set(ids):
        if chain != 'unlinked':
            return gen_room(rng, nbs, ncf, 'chain' if ncf >= nbs - 1 else 'full')
    return {'bs': {str(b): bss[b] for b in ids}, 'cf': cfs, 'vis': vis, 'chain': chain}


def gen_structured_room(rng):
    """the installations people actually build: a rectangular room, base stations level (no roll) on wall centres / in corners,
    yaw a multiple of 90 / 45 degrees, pitched down by a round angle, identical heights, symmetric constellations; the first
    Crazyflie sample exactly level in the origin facing +X (the wizard's start pose), further samples mostly level on a grid
    with yaw in multiples of 45 degrees; two stations seen everywhere, every other one in exactly 2 or 4 samples (or all
    stations everywhere).  The +Y wall (yaw -90: quaternion components |w| = |z| with opposite signs) is favoured."""
    import numpy as np
    from scipy.spatial.transform import Rotation
    a = rng.choice([1.5, 2.0, 2.5, 3.0])
    b = rng.choice([a, a, 2.0, 3.0])
    same_h = rng.random() < 0.7
    h0 = rng.choice([2.0, 2.5, 3.0])
    mounts = [('wall', (a, 0.0), 180.0), ('wall', (-a, 0.0), 0.0), ('wall', (0.0, b), -90.0), ('wall', (0.0, -b), 90.0),
              ('corner', (a, b), -135.0), ('corner', (-a, b), -45.0), ('corner', (-a, -b), 45.0), ('corner', (a, -b), 135.0)]
    style = rng.choice(['walls', 'corners', 'opposite', 'mixed', 'mixed'])
    if style == 'walls':
        sel = mounts[:4]
    elif style == 'corners':
        sel = mounts[4:]
    elif style == 'opposite':
        sel = rng.choice([[mounts[0], mounts[1]], [mounts[2], mounts[3]], [mounts[4], mounts[6]], [mounts[2], mounts[3], mounts[0]]])
    else:
        sel = rng.sample(mounts, rng.randint(2, 6))
    sel = list(sel)
    rng.shuffle(sel)
    if len(sel) >= 3 and rng.random() < 0.7:
        # a station square on the +Y wall among the late (2/4-sample) stations
        side = mounts[2]
        sel = [m for m in sel if m is not side][:5]
        sel.insert(rng.randint(2, len(sel)), side)
    ids = gen_ids(rng, len(sel))
    bss = {}
    for bid, (kind, (x, y), yaw) in zip(ids, sel):
        h = h0 if same_h else rng.choice([2.0, 2.5, 3.0])
        if kind == 'wall' and rng.random() < 0.5:
            # slid along the wall, still square to it
            if abs(yaw) in (0.0, 180.0):
                y = rng.choice([-0.5, 0.5, 0.25])
            else:
                x = rng.choice([-0.5, 0.5, 0.25])
        pitch = rng.choice([30.0, 45.0, 40.0, 35.0])
        R = Rotation.from_euler('ZY', [math.radians(yaw), math.radians(pitch)]).as_matrix()
        bss[bid] = (R.tolist(), [x, y, h])
    ncf = rng.choice([3, 4, 5, 6, 8, 9, 12])
    cfs = [(np.identity(3).tolist(), [0.0, 0.0, 0.0])]
    for i in range(ncf - 1):
        level = rng.random() < 0.7
        yaw = math.radians(rng.choice([0, 90, -90, -90, -90, 180, 45, -45, 135, -135])) if level else rng.uniform(-math.pi, math.pi)
        tilt = (0.0, 0.0) if level else (rng.uniform(-0.1, 0.1), rng.uniform(-0.1, 0.1))
        R = Rotation.from_euler('zyx', [yaw, tilt[0], tilt[1]]).as_matrix()
        p = [rng.choice([-1.0, -0.5, -0.25, 0.0, 0.25, 0.5, 1.0]), rng.choice([-1.0, -0.5, -0.25, 0.0, 0.25, 0.5, 1.0]), rng.choice([0.0, 0.0, 0.25, 0.5, 1.0])]
        cfs.append((R.tolist(), p))
    # visibility: the first two stations are seen in every sample; every further station in exactly 2 or 4 samples
    # (never the first), so each pair (known station, that station) shares an even number of samples
    vis = [list(ids[:2]) for _ in range(ncf)]
    mode = rng.choice(['all', 'even', 'even'])
    if mode == 'all' or ncf < 3:
        vis = [list(ids) for _ in range(ncf)]
    else:
        for bid in ids[2:]:
            k = 2 if ncf < 5 or rng.random() < 0.5 else 4
            for i in rng.sample(range(1, ncf), k):
                vis[i].append(bid)
    return {'bs': {str(bid): bss[bid] for bid in ids}, 'cf': cfs, 'vis': vis, 'chain': 'structured-' + style}


def synth_angles(np, lt, bv, cf, bs):
    """error-free sweep angles of the 4 deck sensors (same construction as the repo's test fixture)"""
    cfp, bsp = lt.Pose(np.array(cf[0]), np.array(cf[1])), lt.Pose(np.array(bs[0]), np.array(bs[1]))
    res = bv.LighthouseBsVectors()
    for s in lt.LhDeck4SensorPositions.positions:
        res.append(bv.LighthouseBsVector.from_cart(bsp.inv_rotate_translate(cfp.rotate_translate(s))))
    return res


def room_measurements(rng, room, shuffle=True):
    """measurement stream: one burst per CF pose (stations in random order, a few ms apart, sometimes a station measured
    twice - the later one is the valid one), bursts separated by more than the matching window"""
    np, sm, ie, gs, lt, ippe_cf, bv = _mods()
    meas, t = [], 100.0
    for i, cf in enumerate(room['cf']):
        v = list(room['vis'][i])
        if shuffle:
            rng.shuffle(v)
        for b in v:
            if shuffle and rng.random() < 0.1:
                # a stale measurement of the same station earlier in the burst (taken at another pose): must be overwritten
                other = room['cf'][(i + 1) % len(room['cf'])]
                meas.append(lt.LhMeasurement(timestamp=t, base_station_id=b, angles=synth_angles(np, lt, bv, other, room['bs'][str(b)])))
                t += 0.001
            meas.append(lt.LhMeasurement(timestamp=t, base_station_id=b, angles=synth_angles(np, lt, bv, cf, room['bs'][str(b)])))
            t += rng.choice([0.0, 0.001, 0.003])
        t += rng.choice([0.05, 0.1, 1.0])
    return meas


def pose_err(np, Rt_true, pose):
    from scipy.spatial.transform import Rotation
    dt = float(np.linalg.norm(np.array(Rt_true[1]) - pose.translation))
    dr = float(Rotation.from_matrix(np.array(Rt_true[0]).T @ pose.rot_matrix).magnitude())
    return dt, dr


def rel_pose(np, ref, p):
    """pose p expressed in the frame of pose ref"""
    Rr, tr = np.array(ref[0]), np.array(ref[1])
    return (Rr.T @ np.array(p[0])), (Rr.T @ (np.array(p[1]) - tr))


def run_pipeline(rng, room, true_votes=False):
    """match -> estimate -> solve on the real code.  Returns a dict: outcome in {'ok','lh_exception','exception'}, worst
    pose errors against ground truth expressed in the frame of the first sample, and diagnostics.
    true_votes=True (diagnosis only): _find_solutions is replaced by an oracle returning the TRUE relative position of every
    base-station pair, everything else is the real code."""
    np, sm, ie, gs, lt, ippe_cf, bv = _mods()
    Est = ie.LighthouseInitialEstimator
    if true_votes:
        ids = sorted(int(b) for b in room['bs'])
        truth = {ie.BsPairIds(a, b): rel_pose(np, room['bs'][str(a)], room['bs'][str(b)])[1] for a in ids for b in ids if a < b}

        class OracleVotes(ie.LighthouseInitialEstimator):
            @classmethod
            def _find_solutions(cls, matched_samples, sensor_positions):
                return dict(truth)
        Est = OracleVotes
    meas = room_measurements(rng, room)
    res = {'n_bs': len(room['bs']), 'n_cf': len(room['cf']), 'chain': room['chain']}
    sensors = lt.LhDeck4SensorPositions.positions
    try:
        with contextlib.redirect_stdout(io.StringIO()), np.errstate(all='ignore'):
            matched = sm.LighthouseSampleMatcher.match(meas, min_nr_of_bs_in_match=2)
            res['n_matched'] = len(matched)
            guess, cleaned = Est.estimate(matched, sensors)
            res['n_cleaned'] = len(cleaned)
            guess_bs, guess_cf = dict(guess.bs_poses), list(guess.cf_poses)     # the estimate as returned (solve() must not change it)
            sol = gs.LighthouseGeometrySolver.solve(guess, cleaned, sensors)
    except lt.LhException as e:
        res.update(outcome='lh_exception', message=str(e))
        return res
    except Exception as e:
        import traceback
        tb = traceback.extract_tb(e.__traceback__)
        res.update(outcome='exception', exc=type(e).__name__, message=str(e)[:200], where=[f.name for f in tb][-4:])
        return res
    res.update(outcome='ok', success=bool(sol.success))
    ref = room['cf'][0]
    worst_p = worst_r = 0.0
    gp = gr = 0.0
    if set(sol.bs_poses) != {int(b) for b in room['bs']} or len(sol.cf_poses) != len(room['cf']):
        res['shape_mismatch'] = True
        return res
    for b, p in room['bs'].items():
        dt, dr = pose_err(np, rel_pose(np, ref, p), sol.bs_poses[int(b)])
        worst_p, worst_r = max(worst_p, dt), max(worst_r, dr)
        dt, dr = pose_err(np, rel_pose(np, ref, p), guess_bs[int(b)])
        gp, gr = max(gp, dt), max(gr, dr)
    for i, p in enumerate(room['cf']):
        dt, dr = pose_err(np, rel_pose(np, ref, p), sol.cf_poses[i])
        worst_p, worst_r = max(worst_p, dt), max(worst_r, dr)
        dt, dr = pose_err(np, rel_pose(np, ref, p), guess_cf[i])
        gp, gr = max(gp, dt), max(gr, dr)
    res.update(err_pos=worst_p, err_rot=worst_r, guess_err_pos=gp, guess_err_rot=gr)
    return res


def mirror_vote_diagnosis(room):
    """D92 diagnosis on the real code's own intermediate results: (a) for every sample and base station IPPE's
    best solution is the true relative pose (the inputs are fine), yet (b) the position voted for some base-station pair by
    _find_solutions is off the true relative position by more than 1 cm, or (c) _choose_solutions then selects a mirror
    solution for some sample.  Returns a dict (empty = not this finding)."""
    np, sm, ie, gs, lt, ippe_cf, bv = _mods()
    E = ie.LighthouseInitialEstimator
    sensors = lt.LhDeck4SensorPositions.positions
    matched = [lt.LhCfPoseSample(timestamp=float(i), angles_calibrated={b: synth_angles(np, lt, bv, room['cf'][i], room['bs'][str(b)])
                                                                        for b in sorted(room['vis'][i])}) for i in range(len(room['cf']))]
    with np.errstate(all='ignore'):
        votes = E._find_solutions(matched, sensors)
        ippe_ok = True
        for i, s in enumerate(matched):
            for b, ang in s.angles_calibrated.items():
                est = ippe_cf.IppeCf.solve(sensors, ang.projection_pair_list())
                best = E._convert_estimates_to_cf_reference_frame(est)[0]
                truth = rel_pose(np, room['cf'][i], room['bs'][str(b)])
                dt, dr = pose_err(np, truth, best)
                if dt > 1e-3 or dr > 1e-3:
                    ippe_ok = False
        bad_votes = {}
        for (a, b), pos in votes.items():
            truth = rel_pose(np, room['bs'][str(a)], room['bs'][str(b)])[1]
            d = float(np.linalg.norm(truth - pos))
            if d > 0.01:
                bad_votes['%d-%d' % (a, b)] = round(d, 4)
        poses, cleaned = E._angles_to_poses(matched, sensors, votes)
        mirrored = 0
        for i, s in enumerate(matched):
            if s not in cleaned:
                mirrored += 1
                continue
            d = poses[cleaned.index(s)]
            for b, p in d.items():
                dt, dr = pose_err(np, rel_pose(np, room['cf'][i], room['bs'][str(b)]), p)
                if dt > 1e-2 or dr > 1e-2:
                    mirrored += 1
                    break
    if ippe_ok and bad_votes:
        return {'polluted_votes': bad_votes, 'samples_with_mirror_or_dropped': mirrored}
    return {}


def _matched_of_room(room):
    np, sm, ie, gs, lt, ippe_cf, bv = _mods()
    return [lt.LhCfPoseSample(timestamp=float(i), angles_calibrated={b: synth_angles(np, lt, bv, room['cf'][i], room['bs'][str(b)])
                                                                     for b in sorted(room['vis'][i])}) for i in range(len(room['cf']))]


def spec_votes(matched):
    """independent re-implementation of the DOCUMENTED voting algorithm of _find_solutions (all four mirror combinations per
    sample and pair; buckets around the first sample's four positions, accept radius 0.8 m, first bucket wins; most populated
    bucket, first on ties; mean) on top of the real IppeCf.solve.  Used only to pin down the identity of finding D92."""
    np, sm, ie, gs, lt, ippe_cf, bv = _mods()
    sensors = lt.LhDeck4SensorPositions.positions
    perms = {}
    for sample in matched:
        sols = {}
        for b, ang in sample.angles_calibrated.items():
            est = ippe_cf.IppeCf.solve(sensors, ang.projection_pair_list())
            sols[b] = [(np.array(e.R).T, np.array(e.R).T @ -np.array(e.t).reshape(3)) for e in est]
        ids = sorted(sols)
        for i, a in enumerate(ids):
            for b in ids[i + 1:]:
                perms.setdefault((a, b), []).append([Ra.T @ (tb - ta) for Ra, ta in sols[a] for Rb, tb in sols[b]])
    votes = {}
    for pair, lists in perms.items():
        refs, buckets = lists[0], [[], [], [], []]
        for l in lists:
            for pos in l:
                for i, ref in enumerate(refs):
                    if np.linalg.norm(pos - ref) < 0.8:
                        buckets[i].append(pos)
                        break
        best = max(range(4), key=lambda i: (len(buckets[i]), -i))
        votes[pair] = np.mean(buckets[best], axis=0) if buckets[best] else np.full(3, np.nan)
    return votes


def votes_are_the_documented_ones(room):
    """True iff the REAL _find_solutions returns, for this room, exactly the votes of the documented algorithm (spec_votes)"""
    np, sm, ie, gs, lt, ippe_cf, bv = _mods()
    matched = _matched_of_room(room)
    with np.errstate(all='ignore'):
        real = ie.LighthouseInitialEstimator._find_solutions(matched, lt.LhDeck4SensorPositions.positions)
        spec = spec_votes(matched)
    if {tuple(k) for k in real} != set(spec):
        return False
    return all(np.allclose(np.ravel(real[k]), spec[tuple(k)], rtol=0, atol=1e-9, equal_nan=True) for k in real)


def ippe_nan_samples(room):
    """D93 diagnosis: the (sample, base station) pairs for which the REAL IppeCf.solve returns a non-finite pose although
    the angles are error free (then _choose_solutions sees distance nan and the whole sample is dropped as an 'outlier')"""
    np, sm, ie, gs, lt, ippe_cf, bv = _mods()
    sensors = lt.LhDeck4SensorPositions.positions
    bad = []
    with np.errstate(all='ignore'):
        for i, cf in enumerate(room['cf']):
            for b in room['vis'][i]:
                est = ippe_cf.IppeCf.solve(sensors, synth_angles(np, lt, bv, cf, room['bs'][str(b)]).projection_pair_list())
                if not all(np.all(np.isfinite(e.R)) and np.all(np.isfinite(e.t)) for e in est):
                    bad.append((i, int(b)))
    return bad


def _deck_axis_perpendicular(room, i, b):
    """the documented D93 configuration: the deck's x or y axis is perpendicular (to 1e-9) to the line of sight from station b"""
    import numpy as np
    R, t = np.array(room['cf'][i][0]), np.array(room['cf'][i][1])
    los = np.array(room['bs'][str(b)][1]) - t
    los = los / np.linalg.norm(los)
    return min(abs(float(R[:, 0] @ los)), abs(float(R[:, 1] @ los))) < 1e-9


def _within(r):
    return r['outcome'] == 'ok' and not r.get('shape_mismatch') and r['err_pos'] <= TOL_POS and r['err_rot'] <= TOL_ROT


def _fp_angles(a):
    return [(v.lh_v1_horiz_angle, v.lh_v1_vert_angle) for v in a]


def _fp_samples(samples):
    return [(s.timestamp, [(b, _fp_angles(a)) for b, a in s.angles_calibrated.items()]) for s in samples]


def _fp_poses(bs, cfs):
    return ([(b, p.rot_matrix.tolist(), p.translation.tolist()) for b, p in bs.items()], [(p.rot_matrix.tolist(), p.translation.tolist()) for p in cfs])


def _same_solution(np, a, b, tol=1e-9):
    if list(a.bs_poses) != list(b.bs_poses) or len(a.cf_poses) != len(b.cf_poses):
        return False
    pa = [a.bs_poses[k] for k in a.bs_poses] + list(a.cf_poses)
    pb = [b.bs_poses[k] for k in b.bs_poses] + list(b.cf_poses)
    return all(np.allclose(x.rot_matrix, y.rot_matrix, rtol=0, atol=tol) and np.allclose(x.translation, y.translation, rtol=0, atol=tol)
               for x, y in zip(pa, pb))


def purity_violations(rng, room, n_solves=3):
    """every public entry point, called repeatedly on the SAME argument objects (retry / re-solve), must leave them unchanged
    and return the same answer.  -> list of (key, what)"""
    np, sm, ie, gs, lt, ippe_cf, bv = _mods()
    sensors = lt.LhDeck4SensorPositions.positions
    bad = []
    with contextlib.redirect_stdout(io.StringIO()), np.errstate(all='ignore'):
        meas = room_measurements(rng, room)
        fp = [(m.timestamp, m.base_station_id, _fp_angles(m.angles)) for m in meas]
        m1 = sm.LighthouseSampleMatcher.match(meas, min_nr_of_bs_in_match=2)
        m2 = sm.LighthouseSampleMatcher.match(meas, min_nr_of_bs_in_match=2)
        if [(m.timestamp, m.base_station_id, _fp_angles(m.angles)) for m in meas] != fp:
            bad.append(('entry-point-mutates-arguments', 'match() changed the measurement list it was given'))
        if _fp_samples(m1) != _fp_samples(m2):
            bad.append(('entry-point-not-repeatable', 'match() called twice on the same list returned different samples'))
        fpm, sens0 = _fp_samples(m1), sensors.copy()
        try:
            g1, c1 = ie.LighthouseInitialEstimator.estimate(m1, sensors)
            g2, c2 = ie.LighthouseInitialEstimator.estimate(m1, sensors)
        except Exception:
            return bad                       # rejected / crashing rooms are judged by the end-to-end search
        if _fp_samples(m1) != fpm or not (sensors == sens0).all():
            bad.append(('entry-point-mutates-arguments', 'estimate() changed the matched samples / sensor positions it was given'))
        if _fp_poses(g1.bs_poses, g1.cf_poses) != _fp_poses(g2.bs_poses, g2.cf_poses) or _fp_samples(c1) != _fp_samples(c2):
            bad.append(('entry-point-not-repeatable', 'estimate() called twice on the same samples returned different estimates'))
        fpg, fpc = _fp_poses(g1.bs_poses, g1.cf_poses), _fp_samples(c1)
        sols = []
        for k in range(n_solves):
            try:
                sols.append(gs.LighthouseGeometrySolver.solve(g1, c1, sensors))
            except Exception as e:
                bad.append(('entry-point-not-repeatable', 'solve() call #%d on the same initial guess raised %s: %s' % (k + 1, type(e).__name__, str(e)[:80])))
                break
            if _fp_poses(g1.bs_poses, g1.cf_poses) != fpg or _fp_samples(c1) != fpc or not (sensors == sens0).all():
                bad.append(('entry-point-mutates-arguments', 'solve() call #%d changed the initial guess / samples / sensor positions it was given '
                            '(%d -> %d CF poses in the guess)' % (k + 1, len(fpg[1]), len(g1.cf_poses))))
                break
            if k and not _same_solution(np, sols[0], sols[k]):
                bad.append(('entry-point-not-repeatable', 'solve() call #%d on the same arguments returned different poses than call #1' % (k + 1)))
                break
    return bad


def rejection_outcome(room, kind):
    """feed the real estimator a recording that must be rejected, built from the room's own ids and sample indexes:
    'no-reference': every sample holds ONE station (seen from a different Crazyflie pose than in the room);
    'unlinked': two islands of stations never seen together.  -> 'LhException: <message>' or what happened instead"""
    np, sm, ie, gs, lt, ippe_cf, bv = _mods()
    n = len(room['cf'])
    ids = sorted(int(b) for b in room['bs'])
    samples = []
    for i in range(n):
        cf = room['cf'][(i + 1) % n]
        if kind == 'no-reference':
            vis = [sorted(room['vis'][i])[0]]
        else:
            vis = ids[:2] if i % 2 == 0 else ids[2:4]
        samples.append(lt.LhCfPoseSample(timestamp=float(i), angles_calibrated={b: synth_angles(np, lt, bv, cf, room['bs'][str(b)]) for b in vis}))
    try:
        with contextlib.redirect_stdout(io.StringIO()), np.errstate(all='ignore'):
            ie.LighthouseInitialEstimator.estimate(samples, lt.LhDeck4SensorPositions.positions)
    except lt.LhException as e:
        return 'LhException: ' + str(e)
    except Exception as e:
        return 'raised %s' % type(e).__name__
    return 'accepted'


def classify_pipeline(room, r, depth=0):
    """-> None if the pipeline result satisfies the property on this (linked) room, else (key, what, extra).
    Attribution to the known findings is CAUSAL and strict:
      D93 only if IPPE returns non-finite poses for some samples AND the room without those samples is handled correctly;
      D92 only if the real _find_solutions returns exactly the votes of the documented voting algorithm (independent twin
      spec_votes) AND the very same room is handled correctly once those votes are replaced by the true pair positions.
    Every other miss is an unlisted violation."""
    import random
    if r['outcome'] == 'exception':
        if r.get('exc') == 'ValueError' and 'complex' in r.get('message', '') and '_avarage_poses' not in r.get('where', []) \
                and any('from_quat' in w for w in r.get('where', [])):
            return ('D91-eig-complex', 'estimate() crashes: _avarage_poses takes np.linalg.eig of the symmetric Q.T@Q, gets complex '
                    'eigenvectors for (near-)identical quaternions and Pose.from_quat rejects them', {})
    if _within(r):
        return None
    if r['outcome'] == 'exception':
        generic = ('pipeline-exception', 'pipeline raised %s on a linked error-free room' % r.get('exc'), {})
    elif r['outcome'] == 'lh_exception':
        generic = ('linked-room-rejected', 'a linked room was rejected: %s' % r.get('message'), {})
    elif r.get('shape_mismatch'):
        generic = ('pipeline-shape', 'solution does not contain exactly the room\'s base stations / CF poses', {})
    else:
        generic = ('pipeline-tolerance', 'poses off by more than 1 mm / 1 mrad on an error-free linked room', {})
    try:
        nan = ippe_nan_samples(room) if depth == 0 else []
    except Exception:
        nan = []
    if nan and not all(_deck_axis_perpendicular(room, i, b) for i, b in nan):
        nan = []        # NaN poses in a configuration that is not the documented D93 one: not that finding
    if nan:
        drop = {i for i, _ in nan}
        keep = [i for i in range(len(room['cf'])) if i not in drop]
        reduced = {'bs': room['bs'], 'cf': [room['cf'][i] for i in keep], 'vis': [room['vis'][i] for i in keep], 'chain': room['chain']}
        what = ('IppeCf.solve returns NaN poses for error-free angles when a deck axis is exactly perpendicular to the line of sight '
                '(_ippe.IPPE_dec takes sqrt of a round-off negative 1-|column|^2); the sample is then silently dropped as an outlier, '
                'so its CF pose (and, for the first sample, the reference frame) is lost')
        seen = {b for v in reduced['vis'] for b in v}
        if not keep or seen != {int(b) for b in room['bs']} or len(components([list(v) for v in reduced['vis']])) != 1:
            return ('D93-ippe-nan', what, {'nan_samples': nan, 'note': 'without the dropped samples the system is no longer complete/linked'})
        r2 = run_pipeline(random.Random(1), reduced)
        v2 = classify_pipeline(reduced, r2, depth + 1)
        if v2 is None:
            return ('D93-ippe-nan', what, {'nan_samples': nan})
        return v2
    if r['outcome'] in ('ok', 'lh_exception'):
        try:
            documented = votes_are_the_documented_ones(room)
        except Exception:
            documented = False
        r3 = run_pipeline(random.Random(1), room, true_votes=True) if documented else None
        if r3 is not None and _within(r3):
            try:
                diag = mirror_vote_diagnosis(room)
            except Exception:
                diag = {}
            return ('D92-mirror-vote', 'poses off by more than 1 mm / 1 mrad (or samples dropped): the per-pair position vote of _find_solutions is '
                    'polluted by mirror IPPE solutions inside the 0.8 m accept radius, _choose_solutions then picks mirror poses / rejects samples; '
                    'the votes are those of the documented algorithm, and with the true pair positions in their place the same room is solved correctly',
                    dict(diag, solved_with_true_votes=True))
    return generic


def _report(ctx, room, r, verdict, src):
    key, what, extra = verdict
    slim = {k: (round(v, 9) if isinstance(v, float) else v) for k, v in r.items()}
    ctx.witness(key, what, {'source': src, 'room': room}, result=slim, **({'diagnosis': extra} if extra else {}))


def _corpus():
    import glob
    import json
    import os
    from harness.lib.common import VERIF
    for path in sorted(glob.glob(os.path.join(VERIF, 'harness', 'corpus', 'c09', '*.json'))):
        yield os.path.basename(path), json.load(open(path))


def search(ctx):
    import random
    rng = ctx.rng
    thorough = ctx.tier == 'thorough'
    np, sm, ie, gs, lt, ippe_cf, bv = _mods()
    # (0) corpus rooms first (witnesses of the known / fixed findings)
    for name, entry in _corpus():
        room = entry['room']
        r = run_pipeline(random.Random(entry.get('stream_seed', 0)), room)
        ctx.count('search:corpus')
        v = classify_pipeline(room, r)
        if v:
            _report(ctx, room, r, v, 'corpus/' + name)
    # (1) matcher: spec twin vs real on float time stamps (library default window 0.020 s) and on the integer streams
    for k in range(2000 if thorough else 300):
        ids = gen_ids(rng, rng.randint(1, 5))
        t, meas = rng.uniform(0, 10), []
        for i in range(rng.randint(0, 30)):
            t += rng.choice([0.0, 0.001, 0.004, 0.0199, 0.0201, 0.021, 0.05, 1.0]) if rng.random() < 0.9 else -rng.choice([0.001, 0.03])
            meas.append((t, rng.choice(ids), i))
        mb = rng.choice([0, 1, 2, 3])
        samples = [lt.LhMeasurement(timestamp=ts, base_station_id=b, angles=Tag(a)) for ts, b, a in meas]
        got = [(g.timestamp, dict((b, a.tag) for b, a in g.angles_calibrated.items())) for g in
               sm.LighthouseSampleMatcher.match(samples, min_nr_of_bs_in_match=mb)]
        want = spec_match(meas, 0.020, mb)
        ctx.count('search:match')
        if got != want or [list(d) for _, d in got] != [list(d) for _, d in want]:
            ctx.witness('matcher', 'match() differs from the time-window segmentation', {'meas': meas, 'min_bs': mb}, got=str(got)[:400], want=str(want)[:400])
    # ... and on exactly representable time stamps, including measurements lying exactly on the window boundary
    for d, mb, meas, dflt, key in gen_match_cases(ctx):
        if d < 0:
            continue
        samples = [lt.LhMeasurement(timestamp=ts / SCALE, base_station_id=b, angles=Tag(a)) for ts, b, a in meas]
        got = [(g.timestamp * SCALE, list((b, a.tag) for b, a in g.angles_calibrated.items())) for g in
               sm.LighthouseSampleMatcher.match(samples, max_time_diff=d / SCALE, min_nr_of_bs_in_match=mb)]
        want = [(float(ts), list(dd.items())) for ts, dd in spec_match(meas, d, mb)]
        ctx.count('search:match-boundary')
        if got != want:
            ctx.witness('matcher', 'match() differs from the time-window segmentation (join iff ts <= group.ts + max_time_diff)',
                        {'meas': meas, 'max_time_diff': d, 'scale': SCALE, 'min_bs': mb}, got=str(got)[:400], want=str(want)[:400])
    # (2) linking on random co-visibility structures (every sample seen by >= 2 stations): a pose for every station iff linked, else LhException
    for k in range(1500 if thorough else 300):
        samples = [s for s in gen_hypergraph(rng) if len(s) >= 2]
        if not samples:
            continue
        real, _ = real_link(samples)
        comps = components(samples)
        allb = sorted({b for s in samples for b in s})
        ctx.count('search:link:%s' % ('linked' if len(comps) == 1 else 'unlinked'))
        if len(comps) == 1:
            okkeys = real.startswith('ok ') and [int(x.split('=')[0]) for x in real.split(' ')[1].split('|')] == allb
            if not okkeys or real.split(' ')[2].count('|') + 1 != len(samples):
                ctx.witness('linked-structure-rejected', 'linked structure: estimate() did not return a pose for every station and sample', {'samples': samples}, got=real[:300])
        elif real != 'err cannot_link':
            ctx.witness('unlinked-accepted', 'unlinked structure was not rejected with LhException', {'samples': samples}, got=real[:300])
    # (3) Jacobian sparsity covers the numerical dependencies of the real residual function
    for k in range(12 if thorough else 3):
        room = gen_room(rng, nbs=rng.randint(2, 4), ncf=rng.randint(3, 6))
        try:
            bad = sparsity_violations(rng, room)
        except Exception as e:
            ctx.witness('sparsity-exception', 'building jac_sparsity / evaluating the residual raised %s on a valid room' % type(e).__name__,
                        {'room': room}, message=str(e)[:200])
            continue
        ctx.count('search:sparsity')
        if bad:
            ctx.witness('sparsity-missing-mark', 'a residual row depends on a parameter that jac_sparsity does not mark', {'room': room}, entries=bad[:10])
    # (3b) helper level: the averaging step on the real code is invariant to the sign each quaternion is written with
    try:
        badavg = averaging_violations(rng, 400 if thorough else 120)
    except Exception as e:
        badavg = [({'harness': 'averaging_violations'}, 'raised %s: %s' % (type(e).__name__, str(e)[:200]))]
    ctx.count('search:averaging', 400 if thorough else 120)
    for case, what in badavg[:5]:
        ctx.witness('averaging-sign', '_avarage_poses does not return the common pose of N estimates written with mixed quaternion signs: ' + what, case)
    # (4) VALIDATION (testing, not proof): end-to-end pipeline against ground truth on generated rooms: random rooms and
    # STRUCTURED rooms (axis aligned, square, symmetric installations, Crazyflie level in the origin)
    n_rooms = 600 if thorough else 50
    for k in range(n_rooms):
        room = gen_structured_room(rng) if k % 5 < 3 else gen_room(rng)
        r = run_pipeline(rng, room)
        v = classify_pipeline(room, r)
        ctx.count('search:e2e:' + (v[0] if v else 'within-tolerance'))
        ctx.count('search:e2e:n_bs=%d' % r['n_bs'])
        ctx.count('search:e2e:chain=%s' % r['chain'])
        if v:
            _report(ctx, room, r, v, 'generated room #%d' % k)
    # (5) unlinked rooms (two islands of stations never seen together) must be rejected with LhException
    for k in range(40 if thorough else 6):
        room = gen_room(rng, nbs=rng.randint(4, 6), chain='unlinked')
        r = run_pipeline(rng, room)
        ctx.count('search:unlinked:' + r['outcome'])
        if r['outcome'] == 'exception':
            v = classify_pipeline(room, r)
            _report(ctx, room, r, v, 'generated unlinked room #%d' % k)
        elif r['outcome'] != 'lh_exception' or 'link' not in r.get('message', ''):
            ctx.witness('unlinked-accepted', 'unlinked room was not rejected with LhException', {'room': room}, got=str(r)[:300])
    # (6) order of operations: a recording that is (rightly) rejected must leave no trace - the same good room is solved
    #     before and after a rejected recording that uses the same base-station ids and sample indexes
    for k in range(40 if thorough else 8):
        room = gen_structured_room(rng) if k % 2 else gen_room(rng, ncf=rng.randint(3, 12))
        if not _within(run_pipeline(random.Random(k), room)):
            continue                                           # misses of the room itself are reported by (4)
        kind = 'no-reference' if k % 4 < 3 or len(room['bs']) < 4 else 'unlinked'
        try:
            rejected = rejection_outcome(room, kind)
        except Exception as e:
            rejected = 'harness: %s' % type(e).__name__
        ctx.count('search:sequence:%s:%s' % (kind, rejected))
        if not rejected.startswith('LhException'):
            ctx.witness('unlinked-accepted', 'a recording without any linked pair of base stations was not rejected with LhException', {'room': room, 'kind': kind}, got=rejected)
            continue
        r = run_pipeline(random.Random(k), room)
        if not _within(r):
            slim = {kk: (round(v, 9) if isinstance(v, float) else v) for kk, v in r.items()}
            ctx.witness('stale-state-after-rejection', 'a room that is solved correctly on its own is answered wrongly after a rejected recording '
                        '(%s) with the same base-station ids was processed in the same process' % kind, {'room': room, 'rejected_first': kind}, result=slim)
    # (7) every public entry point is repeatable on the same argument objects and leaves them unchanged (retry / re-solve)
    for k in range(40 if thorough else 6):
        room = gen_structured_room(rng) if k % 2 else gen_room(rng, ncf=rng.randint(3, 10))
        try:
            bad = purity_violations(rng, room, n_solves=len(room['cf']) + 1 if len(room['cf']) <= 4 else 3)
        except Exception as e:
            bad = [('entry-point-not-repeatable', 'harness: %s %s' % (type(e).__name__, str(e)[:120]))]
        ctx.count('search:purity')
        for key, what in bad[:2]:
            ctx.witness(key, what, {'room': room})
    ctx.note('search(): end-to-end pipeline runs are TESTING/validation of the numerics outside the Lean model, not proof')


def sparsity_violations(rng, room):
    """perturb every parameter of the real residual function at the ground truth (+ noise) and list the (row, column) pairs
    whose residual changes although jac_sparsity has no mark there"""
    np, sm, ie, gs, lt, ippe_cf, bv = _mods()
    S = gs.LighthouseGeometrySolver
    matched = [lt.LhCfPoseSample(timestamp=float(i), angles_calibrated={b: synth_angles(np, lt, bv, room['cf'][i], room['bs'][str(b)])
                                                                        for b in room['vis'][i]}) for i in range(len(room['cf']))]
    sensors = lt.LhDeck4SensorPositions.positions
    sol = gs.LighthouseGeometrySolution()
    sol.n_bss = len(room['bs'])
    sol.n_cfs = len(matched)
    sol.n_cfs_in_params = len(matched) - 1
    sol.n_sensors = len(sensors)
    sol.bs_id_to_index, sol.bs_index_to_id = S._create_bs_map({int(b): None for b in room['bs']})
    target = S._populate_target_angles(matched)
    ibs, icf, isens, jac = S._populate_indexes_and_jacobian(matched, sol)
    n = jac.shape[1]
    x = np.array([rng.uniform(-1.5, 1.5) for _ in range(n)])
    with np.errstate(all='ignore'):
        f0 = S._calc_residual(x, sol, ibs, icf, isens, target, sensors)
        dense = jac.toarray()
        bad = []
        for c in range(n):
            x2 = x.copy()
            x2[c] += 1e-3
            f1 = S._calc_residual(x2, sol, ibs, icf, isens, target, sensors)
            for r in np.nonzero(f1 != f0)[0]:
                if dense[r, c] == 0:
                    bad.append((int(r), int(c)))
    return bad
